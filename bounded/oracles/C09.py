"""C09 (bounded e2e): choice lists survive intact and selects are wired to their own list.

Everything is derived from the SOURCE workbook by an independent reading of the XLSForm conventions and compared
with the parsed XForm / itemsets CSV:

  lists      every list_name on the choices sheet -> exactly one <instance id=list> (no src) whose <item>s are the
             sheet rows of that list in sheet order: <name> = name cell, <label> = label cell (or an <itextId>,
             unique in the model), extra columns as child elements in column order with the cell text (empty cells
             omitted); one trailing item 'other' iff an or_other select uses the list and the author wrote no
             'other' row; nothing else; instance ids unique in the model; lists consumed by search() -> inline
             <item>s in the select (same rows, same order) instead.
  selects    the control of each select row carries one <itemset> whose nodeset reads instance('<list or file
             stem>')/root/item, with a predicate iff the row has a choice_filter (the filter text with ${x}
             replaced by a path ending in /x), wrapped in randomize(.., seed) iff parameters say so, and value/label
             refs name/label (jr:itext(itextId) when the items carry itext ids; parameters value=/label= or
             id/title for files); select_one_external -> <input query="instance('list')/root/item[filter]">;
             select from a previous repeat question -> nodeset on that repeat, value/label = the question;
             or_other -> sibling '<name>_other' node, input and bind relevant selected(../name, 'other').
  external   select-from-file (.csv -> jr://file-csv/f.csv, .xml/.geojson -> jr://file/f.ext), xml-external
             (jr://file/n.xml), csv-external (jr://file-csv/n.csv), pulldata('f', ..) in calculation / constraint /
             relevant / required / readonly / choice_filter / default (jr://file-csv/f.csv) and ${last-saved#q}
             (id __last-saved, jr://instance/last-saved): each exactly one <instance id src>.
  itemsets   with a select_one_external row and an external_choices sheet: ConvertResult.itemsets parsed as CSV has
             one data row per sheet row and, for every header, the cell of that row ('' when empty).
"""
from __future__ import annotations

import csv
import io
import itertools
import json
import os
import random
import re
import subprocess
import sys

from bounded import corpus
from bounded.corpus import Case, WB, XF

USES_DEFAULT_CORPUS = True
N_GENERATED = {"quick": 150, "thorough": 1500}
TIME_BUDGET_S = {"quick": 80, "thorough": 900}

P = "C09"

SELECT_RE = re.compile(
    r"^(select_one|select_multiple|rank|select_one_from_file|select_multiple_from_file|select_one_external)"
    r" (\S+)( or_other)?$")
FILE_EXT = (".csv", ".xml", ".geojson")
RESERVED_FIRST = {"list_name", "list name", "name", "value", "label", "caption", "image", "audio", "video", "big-image",
                  "media", "sms_option", "parent", "extra_data"}
PLAIN_HEADER = re.compile(r"^[A-Za-z_][A-Za-z0-9_.\-]*$")
EXPR_COLUMNS = {"calculation": "calculate", "calculate": "calculate", "constraint": "constraint",
                "relevant": "relevant", "relevance": "relevant", "required": "required", "readonly": "readonly",
                "read_only": "readonly", "choice_filter": "choice_filter", "default": "default"}
PULLDATA = re.compile(r"pulldata\s*\(\s*(['\"])([^'\",()]+)\1\s*,")
LAST_SAVED = re.compile(r"\$\{\s*last-saved\s*#\s*[^}\s]+\s*\}")
REF = re.compile(r"\$\{\s*([^}#\s]+)\s*\}")


def _norm(s):
    return None if s is None else " ".join(str(s).split())


def _snake(s):
    return "_".join(s.split()).lower()


# ------------------------------------------------------------------------------------------------ source model


def read_choices(wb):
    """{list: [row dict]}, extra headers in column order, flag 'all headers modelled'."""
    headers, _ = corpus.wb_sheet(wb, "choices")
    named = [h for h in headers if h is not None]
    dc = any("::" in h for h in named)
    ln_h = next((h for h in named if _snake(h) == "list_name"), None)
    nm_h = next((h for h in named if h == "name"), None)
    if ln_h is None or nm_h is None:
        return None
    extras, modelled = [], True
    label_h, translated_or_media = None, False
    for h in named:
        first = _snake(corpus.split_lang_header(h, dc)[0].split("::")[0])
        if h == "label":
            label_h = h
        elif first in RESERVED_FIRST:
            if h not in (ln_h, nm_h):
                if first in ("label", "image", "audio", "video", "big-image", "media"):
                    translated_or_media = True
                else:
                    modelled = False
        elif PLAIN_HEADER.match(h):
            extras.append(h)
        else:
            modelled = False
    lists = {}
    for row in corpus.sheet_dicts(wb, "choices"):
        ln = row.get(ln_h)
        if ln is None:
            continue
        lists.setdefault(ln, []).append(row)
    return {"lists": lists, "extras": extras, "modelled": modelled, "label": label_h, "name": nm_h,
            "rich": translated_or_media, "headers": named}


def parse_params(text):
    if not text:
        return {}
    out = {}
    for part in re.split(r"[;,\s]+", text.strip()):
        if not part:
            continue
        if part.count("=") != 1:
            return None
        k, v = part.split("=")
        k = k.strip().lower()
        out[k] = v.strip() if k in ("value", "label") else v.strip().lower()
    return out


def read_selects(elements):
    out = []
    for el in elements:
        if el["kind"] != "question":
            continue
        m = SELECT_RE.match(el["type"])
        if not m:
            continue
        cells = el["cells"]
        out.append({**el, "command": m.group(1), "list": m.group(2), "or_other": bool(m.group(3)),
                    "filter": cells.get("choice_filter"), "params": parse_params(cells.get("parameters")),
                    "appearance": cells.get("appearance") or ""})
    return out


def is_search(sel):
    a = sel["appearance"]
    i = a.find("search(")
    return i >= 0 and ")" in a[i:]


# ------------------------------------------------------------------------------------------------ nodeset parsing


def split_predicate(s):
    """'[pred]rest' -> (pred, rest) honouring nested brackets and quotes; (None, s) when s does not start with '['."""
    if not s.startswith("["):
        return None, s
    depth, q = 0, None
    for i, c in enumerate(s):
        if q:
            if c == q:
                q = None
        elif c in "'\"":
            q = c
        elif c == "[":
            depth += 1
        elif c == "]":
            depth -= 1
            if depth == 0:
                return s[1:i], s[i + 1:]
    return None, s


def parse_nodeset(ns):
    """-> dict(randomize, seed, instance, pred) or None when the shape is not instance('..')/root/item..."""
    ns = ns.strip()
    rnd, seed = False, None
    if ns.startswith("randomize(") and ns.endswith(")"):
        rnd = True
        ns = ns[len("randomize("):-1]
    m = re.match(r"instance\('([^']*)'\)/root/item", ns)
    if not m:
        return None
    rest = ns[m.end():]
    pred, rest = split_predicate(rest)
    rest = rest.strip()
    if rest:
        if not (rnd and rest.startswith(",")):
            return None
        seed = rest[1:].strip()
    return {"randomize": rnd, "seed": seed, "instance": m.group(1), "pred": pred}


def filter_regex(filter_text):
    """The choice_filter with ${x} -> any path ending in /x (absolute, relative or current()-anchored) and
    ${last-saved#x} -> instance('__last-saved') path; whitespace-insensitive."""
    out, pos = [], 0
    for m in re.finditer(r"\$\{\s*(last-saved\s*#\s*)?([^}\s#]+)\s*\}", filter_text):
        out.append(_ws_escape(filter_text[pos:m.start()]))
        name = re.escape(m.group(2))
        if m.group(1):
            out.append(r"\s*instance\('__last-saved'\)[^\s\[\]]*/" + name + r"\s*")
        else:
            out.append(r"\s*(?:current\(\)/)?[^\s\[\]'\"(),]*?(?:/|^|(?<=\.))" + name + r"\s*")
        pos = m.end()
    out.append(_ws_escape(filter_text[pos:]))
    return re.compile(r"\s*" + "".join(out) + r"\s*$", re.S)


def _ws_escape(s):
    return r"\s*".join(re.escape(p) for p in re.split(r"\s+", s)) if s else ""


# ------------------------------------------------------------------------------------------------ check


def check(case, res, ctx):
    if not res.ok or not res.xform:
        return []
    wb = corpus.case_wb(case)
    if wb is None:
        return []
    xf, _ = corpus.parse_ok(res.xform)
    if xf is None or xf.model is None or xf.iroot is None:
        return []
    root = xf.local(xf.iroot.tag)
    elements = corpus.survey_elements(wb, root)
    if elements is None:
        return []
    out = []

    def v(key, what):
        out.append({"key": f"{P}:{key}", "what": what})

    sheaders, _ = corpus.wb_sheet(wb, "survey")
    if "disabled" in sheaders:
        return []
    selects = read_selects(elements)
    ch = read_choices(wb)
    controls = corpus.body_controls(xf)
    binds = {b.get("nodeset"): b for b in xf.binds()}
    sec = corpus.secondary_instances(xf)
    ids = [i for i, _, _ in sec]

    # ---- instance ids unique
    dup = sorted({i for i in ids if i is not None and ids.count(i) > 1})
    if dup:
        v("duplicate-instance-id", f"instance id(s) declared more than once: {dup}")

    # ---- lists
    settings = (corpus.sheet_dicts(wb, "settings") or [{}])[0]
    lists = ch["lists"] if ch else {}
    search_lists = {s["list"] for s in selects if is_search(s) and not s["list"].endswith(FILE_EXT)
                    and s["command"] in ("select_one", "select_multiple", "rank")}
    other_lists = {s["list"] for s in selects if s["or_other"]}
    itext_ids_seen = {}
    items_have_itext = {}
    if ch:
        for ln, rows in lists.items():
            if any(ch["name"] not in r for r in rows):
                continue
            mine = [(i, s, e) for (i, s, e) in sec if i == ln]
            if ln in search_lists:
                if any(s is None for _, s, _ in mine):
                    v("search-list-has-instance", f"list {ln!r} is consumed by search() but a choices instance exists")
                continue
            if len(mine) != 1:
                if len(mine) == 0:
                    v("list-instance-missing", f"list {ln!r} of the choices sheet has no <instance id={ln!r}>; "
                                               f"instances: {ids}")
                continue
            _, src, inst = mine[0]
            if src is not None:
                v("list-instance-has-src", f"instance {ln!r} of a choices-sheet list carries src={src!r}")
                continue
            items = inst.findall(f"{XF}root/{XF}item")
            exp_names = [r[ch["name"]] for r in rows]
            want_other = ln in other_lists and "other" not in exp_names
            got_names = [(it.findtext(f"{XF}name")) for it in items]
            exp_all = exp_names + (["other"] if want_other else [])
            if [_norm(x) for x in got_names] != [_norm(x) for x in exp_all]:
                sub = ""
                if ln in other_lists and got_names[:len(exp_names)] == exp_names:
                    sub = ":or_other"
                v(f"list-items-differ{sub}", f"list {ln!r}: sheet rows {exp_names}"
                                              f"{' + one or_other item' if want_other else ''} but instance items "
                                              f"{got_names}")
                continue
            has_itext = False
            for pos, (row, it) in enumerate(zip(rows, items)):
                kids = [(xf.local(c.tag), c.text or "") for c in it]
                tags = [t for t, _ in kids]
                if tags.count("name") != 1:
                    v("item-name-count", f"list {ln!r} item #{pos}: {tags.count('name')} <name> children")
                    break
                tid = [x for t, x in kids if t == "itextId"]
                lab = [x for t, x in kids if t == "label"]
                if tid:
                    has_itext = True
                    if len(tid) > 1 or not tid[0]:
                        v("item-itextid-bad", f"list {ln!r} item #{pos}: itextId children {tid}")
                        break
                    prev = itext_ids_seen.get(tid[0])
                    if prev is not None and prev != (ln, pos):
                        v("itextid-shared", f"itextId {tid[0]!r} is carried by {prev} and by {(ln, pos)}")
                        break
                    itext_ids_seen[tid[0]] = (ln, pos)
                    if lab:
                        v("item-label-and-itextid", f"list {ln!r} item #{pos} has both <label> and <itextId>")
                        break
                else:
                    cell = row.get(ch["label"]) if ch["label"] else None
                    if cell is not None and not ch["rich"]:
                        if len(lab) != 1 or _norm(lab[0]) != _norm(cell):
                            v("item-label-differs", f"list {ln!r} item #{pos} ({row[ch['name']]!r}): label cell "
                                                     f"{cell!r} but <label> children {lab}")
                            break
                    if cell is None and lab and any(x.strip() for x in lab):
                        v("item-label-invented", f"list {ln!r} item #{pos} ({row[ch['name']]!r}): empty label cell "
                                                  f"but <label> {lab}")
                        break
                # extra columns in column order
                exp_extra = [(h, row[h]) for h in ch["extras"] if h in row]
                if ch["modelled"]:
                    got_extra = [(t, x) for t, x in kids if t not in ("itextId", "name", "label")]
                else:
                    got_extra = [(t, x) for t, x in kids if t in ch["extras"]]
                if [(t, _norm(x)) for t, x in got_extra] != [(t, _norm(x)) for t, x in exp_extra]:
                    sparse = any(h not in row for h in ch["extras"])
                    v("item-extra-columns-differ" + (":sparse-row" if sparse else ""),
                      f"list {ln!r} item #{pos} ({row[ch['name']]!r}): extra column cells {exp_extra} but item "
                      f"children {got_extra}")
                    break
            items_have_itext[ln] = has_itext

    # ---- instances that are neither lists nor expected external sources are not judged (entities etc.)

    # ---- selects
    by_name_path = {}
    itext_box = [None]
    for el in elements:
        by_name_path.setdefault(el["name"], []).append(el)
    for s in selects:
        ctl = controls.get(s["path"])
        if ctl is None:
            continue
        who = f"survey row {s['row'] + 2} ({s['type']} {s['name']})"
        ln, cmd = s["list"], s["command"]
        params = s["params"]
        if cmd == "select_one_external":
            q = ctl.get("query")
            if q is None:
                v("external-select-no-query", f"{who}: control has no query attribute")
                continue
            m = re.match(r"instance\('([^']*)'\)/root/item", q)
            if not m:
                v("external-select-query-shape", f"{who}: query {q!r}")
                continue
            if m.group(1) != ln:
                v("external-select-wrong-list", f"{who}: query reads instance {m.group(1)!r}, list is {ln!r}")
            pred, rest = split_predicate(q[m.end():])
            if rest.strip():
                v("external-select-query-shape", f"{who}: query {q!r}")
            elif s["filter"]:
                if pred is None or not filter_regex(s["filter"]).match(pred):
                    v("external-select-filter", f"{who}: choice_filter {s['filter']!r} but query predicate {pred!r}")
            elif pred is not None:
                v("external-select-filter", f"{who}: no choice_filter but query predicate {pred!r}")
            continue
        itemsets = ctl.findall(f"{XF}itemset")
        inline = ctl.findall(f"{XF}item")
        is_file = ln.endswith(FILE_EXT)
        is_ref = bool(re.fullmatch(r"\$\{[^}]+\}", ln))
        if not is_file and not is_ref and ch and ln in lists and ln in search_lists:
            # inline rendering
            rows = lists[ln]
            if itemsets:
                v("search-select-has-itemset", f"{who}: list {ln!r} is consumed by search() but the select has an itemset")
                continue
            exp = [r.get(ch["name"]) for r in rows]
            if ln in other_lists and "other" not in exp:
                exp = exp + ["other"]
            got = [i.findtext(f"{XF}value") for i in inline]
            if got != exp:
                v("search-inline-items-differ", f"{who}: list rows {exp} but inline item values {got}")
                continue
            if all(ch["name"] in r for r in rows):
                if itext_box[0] is None:
                    itext_box[0] = corpus.IText(xf)
                check_inline_labels(v, who, ln, rows, inline, ch, itext_box[0])
            continue
        if inline:
            v("inline-items-without-search", f"{who}: {len(inline)} inline <item>s although the list is not consumed "
                                             f"by search()")
            continue
        if len(itemsets) != 1:
            v("itemset-count", f"{who}: {len(itemsets)} <itemset> elements")
            continue
        iset = itemsets[0]
        ns = iset.get("nodeset") or ""
        val = iset.find(f"{XF}value")
        lab = iset.find(f"{XF}label")
        vref = val.get("ref") if val is not None else None
        lref = lab.get("ref") if lab is not None else None
        if is_ref:
            qn = ln[2:-1].strip()
            targets = by_name_path.get(qn, [])
            if len(targets) != 1:
                continue
            parent = targets[0]["path"].rsplit("/", 1)[0]
            base = ns.split("[", 1)[0].strip()
            if ns.startswith("randomize("):
                base = base[len("randomize("):]
            if base != parent:
                v("repeat-select-nodeset", f"{who}: expected nodeset on {parent!r}, got {ns!r}")
            if vref != qn or lref != qn:
                v("repeat-select-refs", f"{who}: value/label refs {vref!r}/{lref!r}, expected {qn!r}")
            continue
        if params is None:
            continue
        pn = parse_nodeset(ns)
        if pn is None:
            v("itemset-nodeset-shape", f"{who}: nodeset {ns!r}")
            continue
        exp_inst = os.path.splitext(ln)[0] if is_file else ln
        if pn["instance"] != exp_inst:
            dotted = ":dotted-list-name" if (not is_file and "." in ln) else ""
            v(f"select-reads-wrong-instance{dotted}", f"{who}: type cell names {ln!r} (instance {exp_inst!r}) but the "
                                                      f"itemset reads instance {pn['instance']!r}: {ns!r}")
            continue
        # filter
        if s["filter"]:
            if pn["pred"] is None or not filter_regex(s["filter"]).match(pn["pred"]):
                v("select-filter-differs", f"{who}: choice_filter {s['filter']!r} but predicate {pn['pred']!r} in {ns!r}")
        elif pn["pred"] is not None:
            v("select-filter-invented", f"{who}: no choice_filter but predicate {pn['pred']!r}")
        # randomize / seed
        want_rnd = params.get("randomize") == "true"
        if pn["randomize"] != want_rnd:
            v("select-randomize-differs", f"{who}: parameters {s['cells'].get('parameters')!r} but nodeset {ns!r}")
        elif want_rnd:
            seed = params.get("seed")
            if seed is None:
                if pn["seed"] is not None:
                    v("select-seed-invented", f"{who}: no seed parameter but nodeset {ns!r}")
            elif seed.startswith("${"):
                qn = seed[2:-1].strip()
                if pn["seed"] is None or not re.fullmatch(r"\S*/" + re.escape(qn), pn["seed"]):
                    v("select-seed-differs", f"{who}: seed {seed!r} but nodeset {ns!r}")
            else:
                if pn["seed"] is None or pn["seed"] != seed:
                    v("select-seed-differs", f"{who}: seed {seed!r} but nodeset {ns!r}")
        # value / label refs
        if is_file:
            geo = ln.endswith(".geojson")
            ev = params.get("value", "id" if geo else "name")
            el_ = params.get("label", "title" if geo else "label")
            if vref != ev or lref != el_:
                v("file-select-refs", f"{who}: expected value/label refs {ev!r}/{el_!r}, got {vref!r}/{lref!r}")
        else:
            if vref != "name":
                v("select-value-ref", f"{who}: value ref {vref!r}, expected 'name'")
            if ln in items_have_itext:
                el_ = "jr:itext(itextId)" if items_have_itext[ln] else "label"
                if lref != el_:
                    v("select-label-ref", f"{who}: items of {ln!r} {'carry' if items_have_itext[ln] else 'do not carry'} "
                                          f"itext ids but the label ref is {lref!r}")
        # or_other companion
        if s["or_other"]:
            op = s["path"] + "_other"
            paths = xf.instance_paths()
            if op not in paths:
                v("or-other-companion-missing", f"{who}: no node {op} in the primary instance")
            elif controls.get(op) is None:
                v("or-other-companion-missing", f"{who}: no body control for {op}")
            else:
                rel = (binds.get(op).get("relevant") if binds.get(op) is not None else None)
                if _norm(rel) != f"selected(../{s['name']}, 'other')":
                    v("or-other-companion-relevant", f"{who}: bind relevant of {op} is {rel!r}")

    # ---- external data sources
    expected = {}  # id -> (src, why)
    conflict = False

    def want(iid, src, why):
        nonlocal conflict
        if iid in expected and expected[iid][0] != src:
            conflict = True
        expected.setdefault(iid, (src, why))

    for s in selects:
        if s["list"].endswith(FILE_EXT) and s["command"] != "select_one_external":
            stem, ext = os.path.splitext(s["list"])
            want(stem, ("jr://file-csv/" if ext == ".csv" else "jr://file/") + s["list"], f"{s['type']}")
    for el in elements:
        if el["kind"] == "question" and el["type"] in ("xml-external", "csv-external"):
            kind = el["type"].split("-")[0]
            want(el["name"], f"jr://file-csv/{el['name']}.csv" if kind == "csv" else f"jr://file/{el['name']}.xml",
                 f"{el['type']} {el['name']}")
        for h, cell in el["cells"].items():
            if _snake(h) not in EXPR_COLUMNS:
                continue
            for m in PULLDATA.finditer(cell):
                f = m.group(2).strip()
                want(f, f"jr://file-csv/{f}.csv", f"pulldata in {h} of {el['name']}")
            if el["kind"] == "question" and LAST_SAVED.search(cell):
                want("__last-saved", "jr://instance/last-saved", f"last-saved in {h} of {el['name']}")
    if not conflict:
        for iid, (src, why) in expected.items():
            mine = [(i, s_) for (i, s_, _) in sec if i == iid]
            if len(mine) == 0:
                v("external-instance-missing", f"{why}: no <instance id={iid!r} src={src!r}>; instances {ids}")
            elif len(mine) > 1:
                v("external-instance-duplicated", f"{why}: {len(mine)} instances with id {iid!r}")
            elif mine[0][1] != src:
                v("external-instance-wrong-src", f"{why}: instance {iid!r} has src {mine[0][1]!r}, expected {src!r}")

    # ---- itemsets CSV
    eh, erows = corpus.wb_sheet(wb, "external_choices")
    if any(s["command"] == "select_one_external" for s in selects) and eh and erows:
        out.extend(check_itemsets_csv(eh, corpus.sheet_dicts(wb, "external_choices"), res.itemsets))
    return out


def check_inline_labels(v, who, ln, rows, inline, ch, itx):
    """Inline <item>s of a search() select, positionally against the sheet rows of the list: one <label> each, either
    literal text equal to the row's label cell, or a literal jr:itext('id') of its own (never shared by two items of
    the select) whose text in language L is the row's label::L cell (plain label cell: the text in some language)."""
    lang_cols = {}
    for h in ch["headers"]:
        if "::" in h:
            base, lang = corpus.split_lang_header(h, True)
            if base == "label" and lang:
                lang_cols[lang] = h
    seen = {}
    for pos, (row, it) in enumerate(zip(rows, inline)):
        nm = row[ch["name"]]
        labs = it.findall(f"{XF}label")
        if len(labs) != 1:
            v("search-inline-label-count", f"{who}: inline item #{pos} ({nm!r}) of list {ln!r} has {len(labs)} <label>s")
            return
        ref = labs[0].get("ref")
        plain = row.get(ch["label"]) if ch["label"] else None
        if plain is not None and "${" in plain:
            plain = None
        if ref is None:
            text = corpus.flatten_value(labs[0])
            if plain is not None:
                if _norm(text) != _norm(plain):
                    v("search-inline-label-differs", f"{who}: inline item #{pos} ({nm!r}) of list {ln!r}: label cell "
                                                     f"{plain!r} but <label> text {text!r}")
                    return
            elif not ch["label"] and not ch["rich"] and text.strip():
                v("search-inline-label-invented", f"{who}: inline item #{pos} ({nm!r}) of list {ln!r}: no label column "
                                                  f"but <label> text {text!r}")
                return
            continue
        tids = corpus.literal_itext_ids(ref)
        if len(tids) != 1 or ref.strip() != f"jr:itext('{tids[0]}')":
            v("search-inline-label-ref-shape", f"{who}: inline item #{pos} ({nm!r}) of list {ln!r}: label ref {ref!r}")
            return
        tid = tids[0]
        if tid in seen:
            v("search-inline-label-ref-shared", f"{who}: inline items #{seen[tid]} and #{pos} of list {ln!r} both show "
                                                f"itext id {tid!r}")
            return
        seen[tid] = pos
        for lang, h in lang_cols.items():
            cell = row.get(h)
            if cell is None or "${" in cell or lang not in itx.texts:
                continue
            shown = itx.shown(lang, tid)
            if shown is None or _norm(shown) != _norm(cell):
                v("search-inline-label-itext-differs", f"{who}: inline item #{pos} ({nm!r}) of list {ln!r}: cell {h!r} is "
                                                       f"{cell!r} but itext {tid!r} shows {shown!r} in {lang!r}")
                return
        if plain is not None and itx.texts:
            shown = [itx.shown(lang, tid) for lang in itx.texts]
            if not any(x is not None and _norm(x) == _norm(plain) for x in shown):
                v("search-inline-label-itext-differs", f"{who}: inline item #{pos} ({nm!r}) of list {ln!r}: label cell "
                                                       f"{plain!r} but itext {tid!r} shows {shown} ")
                return


def check_itemsets_csv(headers, rows, text, key_suffix=""):
    out = []

    def v(key, what):
        out.append({"key": f"{P}:itemsets-csv:{key}{key_suffix}", "what": what})

    named = [h for h in headers if h is not None]
    rows = [r for r in rows if r]
    if text is None:
        v("missing", "select_one_external is used and an external_choices sheet exists, but no itemsets CSV")
        return out
    parsed = list(csv.reader(io.StringIO(text, newline="")))
    if not parsed:
        v("missing", "itemsets CSV is empty")
        return out
    hdr, data = parsed[0], parsed[1:]
    if sorted(hdr) != sorted(named):
        v("header-differs", f"CSV header {hdr} but external_choices headers {named}")
        return out
    if len(data) != len(rows):
        v("row-count", f"{len(rows)} external_choices rows but {len(data)} CSV rows")
        return out
    for i, (src, got) in enumerate(zip(rows, data)):
        if len(got) > len(hdr):
            v("row-too-long", f"row {i + 2}: {got} under header {hdr}")
            return out
        cells = dict(zip(hdr, got))
        for h in named:
            want = src.get(h, "")
            have = cells.get(h, "")
            if want != have:
                seen_empty, sparse = False, False
                for hh in named:
                    if hh not in src:
                        seen_empty = True
                    elif seen_empty:
                        sparse = True
                v("cell-under-wrong-header" + (":sparse-row" if sparse else ""),
                  f"external_choices row {i + 2} has {h!r}={want!r} but the CSV row {got} under header {hdr} gives "
                  f"{h!r}={have!r}")
                return out
    return out


# ------------------------------------------------------------------------------------------------ global check

_SUB = r"""
import json, sys
sys.path[:0] = [%(repo)r]
from pyxform.xls2xform import convert
src = json.loads(sys.stdin.read())
r = convert(xlsform=src)
print(json.dumps({"itemsets": r.itemsets}))
"""


def check_global(tier, seed, ctx):
    """Dict input WITHOUT an external_choices_header entry (the internal-API way of passing a workbook): the CSV
    must still put every cell under its own header, whatever PYTHONHASHSEED the process runs with."""
    headers = ["list_name", "name", "label", "state", "county", "zone"]
    rows = [{"list_name": "ec", "name": f"n{i}", "label": f"L{i}", "state": f"s{i}", "county": f"c{i}", "zone": f"z{i}"}
            for i in range(3)]
    src = {
        "sheet_names": ["survey", "external_choices"],
        "survey": [{"type": "text", "name": "st", "label": "State"},
                   {"type": "select_one_external ec", "name": "q", "label": "Q", "choice_filter": "state=${st}"}],
        "survey_header": [{"type": None, "name": None, "label": None, "choice_filter": None}],
        "external_choices": rows,
    }
    out, n = [], 0
    seeds = range(1, 4) if tier == "quick" else range(1, 13)
    for hs in seeds:
        env = dict(os.environ, PYTHONHASHSEED=str(hs), PYTHONDONTWRITEBYTECODE="1")
        p = subprocess.run([sys.executable, "-c", _SUB % {"repo": corpus.REPO}], input=json.dumps(src),
                           capture_output=True, text=True, env=env, timeout=120)
        n += 1
        line = next((l for l in p.stdout.splitlines() if l.startswith("{")), None)
        if p.returncode != 0 or line is None:
            continue
        text = json.loads(line)["itemsets"]
        vs = check_itemsets_csv(headers, rows, text, key_suffix=":dict-input-without-header-row")
        for x in vs:
            x["what"] = f"PYTHONHASHSEED={hs}: " + x["what"]
            x["case"] = "global:dict-without-external_choices_header"
            x["form_dict"] = src
            x["form_md"] = None
            x["convert_kwargs"] = {}
        if vs:
            out.extend(vs)
            break
    return out, n


# ------------------------------------------------------------------------------------------------ cases

LIST_NAMES = ["towns", "towns.v2", "towns.v", "Towns", "towns2", "t", "a.b.c", "q1.opts", "l-1", "_x"]


def _mk(name, survey, choices=None, settings=None, external=None, choices_headers=None, external_headers=None,
        survey_headers=None):
    wb = WB()
    wb["survey"] = corpus.sheet_from_dicts(survey, survey_headers or ["type", "name", "label"])
    if choices is not None:
        wb["choices"] = corpus.sheet_from_dicts(choices, choices_headers or ["list_name", "name", "label"])
    if external is not None:
        wb["external_choices"] = corpus.sheet_from_dicts(external, external_headers or ["list_name", "name"])
    if settings:
        wb["settings"] = corpus.sheet_from_dicts([settings])
    return Case(name, wb=wb, origin="C09-family")


def _list_rows(ln, n, extras, rnd, sparse=0.5, label=True, names=None):
    rows = []
    for i in range(n):
        nm = names[i] if names else f"{ln[:1]}{i}"
        r = {"list_name": ln, "name": nm}
        if label:
            r["label"] = f"{ln} choice {i}"
        for e in extras:
            if rnd.random() >= sparse:
                r[e] = f"{e}-{ln}-{i}"
        rows.append(r)
    return rows


def fam_lists(rnd, n):
    """Sets of lists with clashing-looking names, any sizes, sparse extra columns, odd column orders; every list
    used by 0..3 selects of every kind from any nesting."""
    out = []
    for i in range(n):
        k = rnd.randint(1, 4)
        names = rnd.sample(LIST_NAMES, k)
        extras = rnd.sample(["pop", "code", "geometry", "Zone", "x.y", "d-e"], rnd.choice([0, 1, 2, 3]))
        sparse = rnd.choice([0.0, 0.3, 0.6, 1.0])
        choices = []
        for ln in names:
            choices += _list_rows(ln, rnd.randint(1, 5), extras, rnd, sparse)
        if rnd.random() < 0.3:
            rnd.shuffle(choices)  # interleaved lists: rows of one list need not be contiguous
        ch_headers = ["list_name", "name", "label", *extras]
        if rnd.random() < 0.5:
            core = ["list_name", "name", "label"]
            ch_headers = core + extras
            rnd.shuffle(ch_headers)
        survey = [{"type": "integer", "name": "num", "label": "Num"}]
        opened = []
        qn = 0
        for ln in names:
            for _ in range(rnd.choice([0, 1, 1, 2, 3])):
                x = rnd.random()
                if x < 0.3 and len(opened) < 3:
                    kind = rnd.choice(["group", "repeat"])
                    survey.append({"type": f"begin {kind}", "name": f"{kind[0]}{len(survey)}", "label": kind})
                    opened.append(kind)
                elif x < 0.4 and opened:
                    survey.append({"type": f"end {opened.pop()}"})
                cmd = rnd.choice(["select_one", "select_multiple", "rank"])
                row = {"type": f"{cmd} {ln}", "name": f"s{qn}", "label": f"S{qn}"}
                qn += 1
                if extras and rnd.random() < 0.4:
                    row["choice_filter"] = rnd.choice([f"{extras[0]} != ''", f"{extras[0]} = ${{num}}",
                                                       f"starts-with({extras[0]}, 'p') and position() < ${{num}}",
                                                       "name != 'a[1]'"])
                if rnd.random() < 0.4:
                    row["parameters"] = rnd.choice(["randomize=true", "randomize=true, seed=42", "randomize=true;seed=${num}",
                                                    "randomize=false", "seed=7 randomize=true", "randomize=true seed=-1.5"])
                survey.append(row)
        while opened:
            survey.append({"type": f"end {opened.pop()}"})
        # groups/repeats must not be empty
        fixed = []
        for j, r in enumerate(survey):
            fixed.append(r)
            if r["type"].startswith("begin") and (j + 1 == len(survey) or survey[j + 1]["type"].startswith("end")):
                fixed.append({"type": "text", "name": f"fill{j}", "label": "fill"})
        settings = {"allow_choice_duplicates": "yes"} if rnd.random() < 0.15 else None
        if settings:
            ln = names[0]
            dup = [r for r in choices if r["list_name"] == ln][0]
            choices.append({**dup, "label": "dup"})
        out.append(_mk(f"lists[{i}]", fixed, choices, settings, choices_headers=ch_headers,
                       survey_headers=["type", "name", "label", "choice_filter", "parameters"]))
    return out


def fam_dotted():
    """Exhaustive small family: list-name shape x select command x filter x randomize, with a decoy list named like
    the stem / a prefix of the real one."""
    out = []
    shapes = [("towns.v2", "towns"), ("q1.opts", "q1"), ("a.b", "a"), ("x.csvx", "x"), ("towns", "town"),
              ("Towns", "towns"), ("l.1", "l")]
    for (ln, decoy) in shapes:
        for cmd in ("select_one", "select_multiple", "rank"):
            for filt in (None, "pop > 1"):
                for par in (None, "randomize=true", "randomize=true,seed=3"):
                    for with_decoy in (False, True):
                        survey = [{"type": f"{cmd} {ln}", "name": "q", "label": "Q"}]
                        if filt:
                            survey[0]["choice_filter"] = filt
                        if par:
                            survey[0]["parameters"] = par
                        choices = [{"list_name": ln, "name": "a", "label": "A", "pop": "1"},
                                   {"list_name": ln, "name": "b", "label": "B", "pop": "2"}]
                        if with_decoy:
                            choices = [{"list_name": decoy, "name": "old1", "label": "O1"}] + choices + \
                                      [{"list_name": decoy, "name": "old2", "label": "O2", "pop": "9"}]
                            survey.append({"type": f"select_one {decoy}", "name": "q2", "label": "Q2"})
                        out.append(_mk(f"dotted[{ln}|{cmd}|{filt}|{par}|{int(with_decoy)}]", survey, choices,
                                       choices_headers=["list_name", "name", "label", "pop"],
                                       survey_headers=["type", "name", "label", "choice_filter", "parameters"]))
    return out


def fam_or_other():
    """or_other x position of the author's own 'other' row x list size x sharing x translated labels."""
    out = []
    for n in (1, 2, 3, 4):
        for pos in [None, *range(n)]:
            for sharing in ("one", "two-or_other", "or_other+plain", "multiple", "in-repeat"):
                for tr in (False, True):
                    names = [f"c{i}" for i in range(n)]
                    if pos is not None:
                        names[pos] = "other"
                    choices = []
                    for i, nm in enumerate(names):
                        r = {"list_name": "reasons", "name": nm}
                        if tr:
                            r["label::en"] = f"R{i} en"
                            r["label::fr"] = f"R{i} fr"
                        else:
                            r["label"] = f"R{i}"
                        choices.append(r)
                    choices.append({"list_name": "zz", "name": "other", **({"label::en": "Z"} if tr else {"label": "Z"})})
                    lab = {"label::en": "Q"} if tr else {"label": "Q"}
                    if sharing == "one":
                        survey = [{"type": "select_one reasons or_other", "name": "q1", **lab}]
                    elif sharing == "two-or_other":
                        survey = [{"type": "select_one reasons or_other", "name": "q1", **lab},
                                  {"type": "select_multiple reasons or_other", "name": "q2", **lab}]
                    elif sharing == "or_other+plain":
                        survey = [{"type": "select_one reasons", "name": "q0", **lab},
                                  {"type": "select_one reasons or_other", "name": "q1", **lab},
                                  {"type": "select_one zz", "name": "q3", **lab}]
                    elif sharing == "multiple":
                        survey = [{"type": "select_multiple reasons or_other", "name": "q1", **lab}]
                    else:
                        survey = [{"type": "begin repeat", "name": "r", **lab},
                                  {"type": "begin group", "name": "g", **lab},
                                  {"type": "select_one reasons or_other", "name": "q1", **lab},
                                  {"type": "end group"}, {"type": "end repeat"}]
                    hdr = ["list_name", "name", *(["label::en", "label::fr"] if tr else ["label"])]
                    out.append(_mk(f"other[n{n}|pos{pos}|{sharing}|tr{int(tr)}]", survey, choices, choices_headers=hdr,
                                   survey_headers=["type", "name", *(["label::en"] if tr else ["label"])]))
    return out


def fam_external_sources(rnd, n):
    """select from file / xml-external / csv-external / pulldata in every expression column / last-saved, mixed,
    with files shared by several rows (must still be declared once)."""
    out = []
    files = ["cities", "fruits", "a-b", "data.v1", "X"]
    for i in range(n):
        survey = [{"type": "text", "name": "t", "label": "T"}, {"type": "integer", "name": "n", "label": "N"}]
        used = {}
        k = rnd.randint(1, 6)
        for j in range(k):
            kind = rnd.choice(["file", "file", "xml-external", "csv-external", "pulldata", "pulldata", "last-saved"])
            nm = f"e{j}"
            if kind == "file":
                f = rnd.choice(files[:3])
                ext = used.get(f) or rnd.choice([".csv", ".xml", ".geojson"])
                if used.setdefault(f, ext) != ext:
                    continue
                cmd = rnd.choice(["select_one_from_file", "select_multiple_from_file"])
                row = {"type": f"{cmd} {f}{ext}", "name": nm, "label": nm}
                if rnd.random() < 0.4:
                    row["parameters"] = rnd.choice(["value=code", "label=nm", "value=code, label=nm",
                                                    "value=Code label=Nm randomize=true", "randomize=true, seed=5"])
                if rnd.random() < 0.4:
                    row["choice_filter"] = rnd.choice(["name != ''", "code = ${t}", "pop > ${n} and name != 'x'"])
                survey.append(row)
            elif kind in ("xml-external", "csv-external"):
                f = f"ext{j}"
                survey.append({"type": kind, "name": f})
            elif kind == "pulldata":
                f = rnd.choice(files)
                if f in used and used[f] != ".csv":
                    continue
                used[f] = ".csv"
                col = rnd.choice(["calculation", "constraint", "relevant", "required", "readonly", "default", "choice_filter"])
                call = f"pulldata('{f}', 'c', 'k', ${{t}})"
                if rnd.random() < 0.3:
                    f2 = rnd.choice([x for x in files if used.get(x, ".csv") == ".csv"])
                    used[f2] = ".csv"
                    call = f"concat({call}, pulldata( \"{f2}\" , 'c', 'k', 'v'))"
                if col == "calculation":
                    survey.append({"type": "calculate", "name": nm, col: call})
                elif col == "choice_filter":
                    survey.append({"type": "select_one l", "name": nm, "label": nm, col: f"name = {call}"})
                elif col == "default":
                    survey.append({"type": "text", "name": nm, "label": nm, col: call})
                elif col == "constraint":
                    survey.append({"type": "text", "name": nm, "label": nm, col: f". = {call}"})
                else:
                    survey.append({"type": "text", "name": nm, "label": nm, col: f"{call} = 'y'"})
            else:
                col = rnd.choice(["default", "calculation", "choice_filter", "relevant"])
                ref = "${last-saved#t}"
                if col == "default":
                    survey.append({"type": "text", "name": nm, "label": nm, col: ref})
                elif col == "calculation":
                    survey.append({"type": "calculate", "name": nm, col: f"concat({ref}, 'x')"})
                elif col == "choice_filter":
                    survey.append({"type": "select_one l", "name": nm, "label": nm, col: f"name = {ref}"})
                else:
                    survey.append({"type": "text", "name": nm, "label": nm, col: f"{ref} != ''"})
        if rnd.random() < 0.3:
            survey = survey[:2] + [{"type": "begin group", "name": "grp", "label": "G"}] + survey[2:] + [{"type": "end group"}]
            if len(survey) == 4:
                survey.insert(3, {"type": "text", "name": "fill", "label": "fill"})
        choices = [{"list_name": "l", "name": "a", "label": "A"}, {"list_name": "l", "name": "b", "label": "B"}]
        out.append(_mk(f"ext[{i}]", survey, choices,
                       survey_headers=["type", "name", "label", "choice_filter", "parameters", "calculation", "constraint",
                                       "relevant", "required", "readonly", "default"]))
    return out


def fam_file_exhaustive():
    out = []
    for ext in (".csv", ".xml", ".geojson"):
        for cmd in ("select_one_from_file", "select_multiple_from_file"):
            for par in (None, "value=v1", "label=l1", "value=v1, label=l1", "randomize=true", "value=v1 randomize=true seed=9"):
                for filt in (None, "v1 != ''"):
                    for twice in (False, True):
                        row = {"type": f"{cmd} src{ext}", "name": "q", "label": "Q"}
                        if par:
                            row["parameters"] = par
                        if filt:
                            row["choice_filter"] = filt
                        survey = [row]
                        if twice:
                            survey.append({"type": f"select_one_from_file src{ext}", "name": "q2", "label": "Q2"})
                            survey.append({"type": f"select_one_from_file src2{ext}", "name": "q3", "label": "Q3"})
                        out.append(_mk(f"file[{ext}|{cmd}|{par}|{filt}|{int(twice)}]", survey,
                                       survey_headers=["type", "name", "label", "choice_filter", "parameters"]))
    return out


def fam_external_choices(rnd, n):
    """external_choices sheets: 1-3 lists, 0-3 extra columns, every emptiness pattern per row (exhaustive for small
    shapes, sampled otherwise), odd column orders; the choices sheet may exist next to it."""
    out = []
    # exhaustive: one list, 3 rows, columns name,label,state,county: every subset of {label,state,county} empty on row 1
    cols = ["label", "state", "county"]
    for mask in range(8):
        for order in (["list_name", "name", "label", "state", "county"], ["list_name", "name", "state", "label", "county"],
                      ["state", "list_name", "county", "name", "label"]):
            rows = []
            for r in range(3):
                row = {"list_name": "ec", "name": f"n{r}"}
                for ci, c in enumerate(cols):
                    if r != 1 or not (mask >> ci & 1):
                        row[c] = f"{c}{r}"
                rows.append(row)
            survey = [{"type": "text", "name": "st", "label": "St"},
                      {"type": "select_one_external ec", "name": "q", "label": "Q", "choice_filter": "state=${st}"}]
            out.append(_mk(f"extch[x|{mask}|{order[0]}{order[2]}]", survey, None, None, rows, external_headers=order,
                           survey_headers=["type", "name", "label", "choice_filter"]))
    for i in range(n):
        lists_ = rnd.sample(["ec", "ec.2", "cities", "Cities"], rnd.randint(1, 3))
        extras = rnd.sample(["state", "county", "zone", "Pop"], rnd.randint(0, 3))
        hdr = ["list_name", "name", "label", *extras]
        if rnd.random() < 0.5:
            rnd.shuffle(hdr)
        p_empty = rnd.choice([0.0, 0.2, 0.5])
        rows = []
        for ln in lists_:
            for r in range(rnd.randint(1, 4)):
                row = {"list_name": ln, "name": f"{ln}_{r}"}
                for c in ["label", *extras]:
                    if rnd.random() >= p_empty:
                        row[c] = f"{c} {ln} {r}"
                rows.append(row)
        survey = [{"type": "text", "name": "st", "label": "St"}]
        for j, ln in enumerate(lists_):
            f = f"{extras[0]}=${{st}}" if extras else "name != ''"
            if rnd.random() < 0.2:
                survey.append({"type": "begin group", "name": f"g{j}", "label": "G"})
                survey.append({"type": f"select_one_external {ln}", "name": f"q{j}", "label": "Q", "choice_filter": f})
                survey.append({"type": "end group"})
            else:
                survey.append({"type": f"select_one_external {ln}", "name": f"q{j}", "label": "Q", "choice_filter": f})
        choices = None
        if rnd.random() < 0.5:
            choices = [{"list_name": "l", "name": "a", "label": "A"}]
            survey.append({"type": "select_one l", "name": "plain", "label": "P"})
        out.append(_mk(f"extch[{i}]", survey, choices, None, rows, external_headers=hdr,
                       survey_headers=["type", "name", "label", "choice_filter"]))
    return out


def fam_search():
    out = []
    for n in (1, 2, 3):
        for tr in (False, True):
            for cmd in ("select_one", "select_multiple"):
                for extra_use in ("none", "second-search", "other-list"):
                    choices = []
                    for i in range(n):
                        r = {"list_name": "sl", "name": f"col{i}"}
                        if tr:
                            r["label::en"], r["label::fr"] = f"L{i}e", f"L{i}f"
                        else:
                            r["label"] = f"L{i}"
                        choices.append(r)
                    choices.append({"list_name": "pl", "name": "p", **({"label::en": "P"} if tr else {"label": "P"})})
                    lab = {"label::en": "Q"} if tr else {"label": "Q"}
                    survey = [{"type": f"{cmd} sl", "name": "q", **lab, "appearance": "search('places')"}]
                    if extra_use == "second-search":
                        survey.append({"type": "select_one sl", "name": "q2", **lab,
                                       "appearance": "minimal search('places', 'contains', 'name', ${q})"})
                    elif extra_use == "other-list":
                        survey.append({"type": "select_one pl", "name": "q2", **lab})
                    hdr = ["list_name", "name", *(["label::en", "label::fr"] if tr else ["label"])]
                    out.append(_mk(f"search[{n}|{int(tr)}|{cmd}|{extra_use}]", survey, choices, choices_headers=hdr,
                                   survey_headers=["type", "name", *(["label::en"] if tr else ["label"]), "appearance"]))
    return out


# Appearance keywords XLSForm documents for selects (all of them may accompany a search() call in the cell).
KW_ANY_SELECT = ["minimal", "autocomplete", "compact", "columns", "columns-pack", "no-buttons", "columns-3"]
KW_SELECT_ONE = ["quick", "quickcompact", "likert"]
SEARCH_CALLS = ["search('places')",
                "search('places', 'contains', 'name', ${hint_q})",
                "search('places','matches','region',${hint_q},'kind','a')",
                'search("places")']


def search_appearances(cmd):
    """Every documented way of writing a search() consumer in the appearance cell (call alone; one or two keywords
    before it; keyword(s) after it; both sides; stray blanks), then the look-alikes that are NOT consumers."""
    kws = KW_ANY_SELECT + (KW_SELECT_ONE if cmd == "select_one" else [])
    c0, c1 = SEARCH_CALLS[0], SEARCH_CALLS[1]
    uses = list(SEARCH_CALLS)
    for kw in kws:
        uses += [f"{kw} {call}" for call in SEARCH_CALLS[:3]]
    uses += [f"{kws[0]} {kws[-1]} {c0}", f"{kws[3]} {kws[5]} {c1}", f"{c0} {kws[0]}", f"{c1} {kws[2]}",
             f"{kws[1]} {c0} {kws[5]}", f" {c0}", f"{kws[0]}  {c0} ", f"{kws[4]} {SEARCH_CALLS[3]}"]
    decoys = ["", "search", kws[0], kws[-1], f"{kws[0]} search", f"{kws[1]} {kws[5]}"]
    return uses, decoys


def _search_case(name, cmd, app, nest, tr, usage, or_other=False, n=3):
    lab = (lambda t: {"label::en": t}) if tr else (lambda t: {"label": t})

    def rows(ln, k, stem):
        out = []
        for i in range(k):
            r = {"list_name": ln, "name": f"{stem}{i}"}
            if tr:
                r["label::en"], r["label::fr"] = f"{stem} {i} en", f"{stem} {i} fr"
            else:
                r["label"] = f"{stem} {i}"
            out.append(r)
        return out

    choices = rows("pl", 2, "p") + rows("sl", n, "col")
    kws = KW_ANY_SELECT
    sel = {"type": f"{cmd} sl{' or_other' if or_other else ''}", "name": "q", **lab("Q"), "appearance": app}
    plain = {"type": "select_one pl", "name": "p", **lab("P")}
    inner = [sel, plain]
    consumer = "search(" in app
    if usage == "shared-combined":
        # a second user of the same list written with another keyword (and a call iff this one has a call: a list
        # is either consumed by search() in all its selects or in none)
        kw2 = kws[(len(app) + 1) % len(kws)]
        inner = [sel, plain, {"type": "select_multiple sl", "name": "q2", **lab("Q2"),
                              "appearance": f"{kw2} {SEARCH_CALLS[len(app) % 3]}" if consumer else kw2}]
    elif usage == "shared-exact-first":
        q0 = {"type": "select_one sl", "name": "q0", **lab("Q0")}
        if consumer:
            q0["appearance"] = SEARCH_CALLS[0]
        inner = [q0, plain, sel]
    elif usage == "two-search-lists":
        choices = rows("sl2", 2, "k") + choices
        inner = [plain, sel, {"type": "select_one sl2", "name": "q3", **lab("Q3"), "appearance": "search('elsewhere')"}]
        plain["appearance"] = "minimal"
    elif usage == "plain-keyword-twin":
        # the same keyword on a select that is NOT a consumer: its list keeps instance + itemset
        first = app.split()[0] if app.split() and not app.split()[0].startswith("search") else "minimal"
        plain["appearance"] = first
    survey = [{"type": "text", "name": "hint_q", **lab("H")}]
    if nest == "group":
        survey += [{"type": "begin group", "name": "g", **lab("G")}, *inner, {"type": "end group"}]
    elif nest == "repeat>group":
        survey += [{"type": "begin repeat", "name": "r", **lab("R")}, {"type": "begin group", "name": "g", **lab("G")},
                   *inner, {"type": "end group"}, {"type": "end repeat"}]
    else:
        survey += inner
    hdr = ["list_name", "name", *(["label::en", "label::fr"] if tr else ["label"])]
    return _mk(name, survey, choices, choices_headers=hdr,
               survey_headers=["type", "name", *(["label::en"] if tr else ["label"]), "appearance"])


SEARCH_NESTS = ("top", "group", "repeat>group")
SEARCH_USAGES = ("sole", "shared-combined", "shared-exact-first", "two-search-lists", "plain-keyword-twin")


def fam_search_appearance(thorough):
    """Appearance cell shape x select command x nesting x translated labels x who else uses the list. The shape axis
    is exhaustive in both tiers; the other axes are fully crossed with it in the thorough tier, and in the quick one
    each shape gets three of the 30 (nesting, translation, usage) combinations, rotated so that all 30 recur."""
    out = []
    combos = list(itertools.product(SEARCH_NESTS, (False, True), SEARCH_USAGES))
    k = 0
    for cmd in ("select_one", "select_multiple", "rank"):
        uses, decoys = search_appearances(cmd)
        if cmd == "rank":
            uses, decoys = uses[:1] + uses[4:10], decoys[:3]
        for app in uses + decoys:
            if thorough:
                picked = combos
            else:
                picked = [combos[(k * 7 + j * 11) % len(combos)] for j in range(3)]
                k += 1
            for nest, tr, usage in picked:
                out.append(_search_case(f"searchapp[{cmd}|{app}|{nest}|{int(tr)}|{usage}]", cmd, app, nest, tr, usage))
    # or_other on a search() consumer (one trailing 'other' inline item), list sizes 1..4
    for app in ("search('places')", "minimal search('places')", "search('places') compact"):
        for n in (1, 2, 4):
            for cmd in ("select_one", "select_multiple"):
                out.append(_search_case(f"searchapp-other[{cmd}|{app}|{n}]", cmd, app, "top", False, "sole", True, n))
    return out


def fam_search_mixed(rnd, n):
    """Random forms: 2-4 lists with clash-prone names, each either consumed by search() (every select on it carries
    some search() appearance shape), plain (selects with no appearance or a look-alike keyword) or unused; sparse
    extra columns, interleaved rows, selects at any nesting."""
    out = []
    for i in range(n):
        names = rnd.sample(LIST_NAMES, rnd.randint(2, 4))
        mode = {ln: rnd.choice(["search", "search", "plain", "plain", "unused"]) for ln in names}
        mode[names[0]] = "search"
        tr = rnd.random() < 0.3
        extras = rnd.sample(["pop", "code", "Zone"], rnd.choice([0, 1, 2]))
        choices = []
        for ln in names:
            choices += _list_rows(ln, rnd.randint(1, 5), extras, rnd, rnd.choice([0.0, 0.5]))
        if tr:
            for r in choices:
                lbl = r.pop("label")
                r["label::en"], r["label::fr"] = lbl + " en", lbl + " fr"
        if rnd.random() < 0.3:
            rnd.shuffle(choices)
        lab = (lambda t: {"label::en": t}) if tr else (lambda t: {"label": t})
        survey = [{"type": "text", "name": "hint_q", **lab("H")}]
        opened, qn = [], 0
        for ln in names:
            if mode[ln] == "unused":
                continue
            for _ in range(rnd.choice([1, 1, 2, 3])):
                x = rnd.random()
                if x < 0.3 and len(opened) < 3:
                    kind = rnd.choice(["group", "repeat"])
                    survey.append({"type": f"begin {kind}", "name": f"{kind[0]}{len(survey)}", **lab(kind)})
                    opened.append(kind)
                elif x < 0.4 and opened:
                    survey.append({"type": f"end {opened.pop()}"})
                cmd = rnd.choice(["select_one", "select_one", "select_multiple", "rank"])
                uses, decoys = search_appearances(cmd)
                row = {"type": f"{cmd} {ln}", "name": f"s{qn}", **lab(f"S{qn}")}
                qn += 1
                app = rnd.choice(uses) if mode[ln] == "search" else rnd.choice(decoys)
                if app:
                    row["appearance"] = app
                survey.append(row)
        while opened:
            survey.append({"type": f"end {opened.pop()}"})
        fixed = []
        for j, r in enumerate(survey):
            fixed.append(r)
            if r["type"].startswith("begin") and (j + 1 == len(survey) or survey[j + 1]["type"].startswith("end")):
                fixed.append({"type": "text", "name": f"fill{j}", **lab("fill")})
        lcols = ["label::en", "label::fr"] if tr else ["label"]
        out.append(_mk(f"searchmix[{i}]", fixed, choices, choices_headers=["list_name", "name", *lcols, *extras],
                       survey_headers=["type", "name", lcols[0], "appearance"]))
    return out


def fam_from_repeat():
    out = []
    for filt in (None, "${age} > 3"):
        for nest in ("top", "group"):
            rep = [{"type": "begin repeat", "name": "rep", "label": "R"},
                   {"type": "text", "name": "nm", "label": "N"},
                   {"type": "integer", "name": "age", "label": "A"},
                   {"type": "end repeat"}]
            sel = {"type": "select_one ${nm}", "name": "pick", "label": "P"}
            if filt:
                sel["choice_filter"] = filt
            survey = rep + [sel]
            if nest == "group":
                survey = [{"type": "begin group", "name": "g", "label": "G"}, *rep, {"type": "end group"}, sel]
            out.append(_mk(f"fromrep[{filt}|{nest}]", survey, [{"list_name": "l", "name": "a", "label": "A"}],
                           survey_headers=["type", "name", "label", "choice_filter"]))
    return out


def cases(tier, seed):
    rnd = random.Random(seed * 15485863 + 9)
    thorough = tier == "thorough"
    out = []
    out += fam_dotted()
    out += fam_or_other()
    out += fam_file_exhaustive()
    out += fam_search()
    out += fam_from_repeat()
    out += fam_lists(rnd, 4000 if thorough else 500)
    out += fam_external_sources(rnd, 2500 if thorough else 350)
    out += fam_external_choices(rnd, 1500 if thorough else 200)
    # appended last, with their own generator, so that the families above stay exactly what they were
    out += fam_search_appearance(thorough)
    out += fam_search_mixed(random.Random(seed * 32452843 + 9), 1200 if thorough else 150)
    return out
