"""C02 (bounded e2e): model, instance and body agree - every nodeset/ref names one existing node.

Checked on every converted form, from the parsed XForm only (ElementTree) plus the source workbook:
  * every bind/@nodeset, every body control @ref, every repeat/@nodeset and every action @ref (setvalue,
    odk:setgeopoint, odk:recordaudio; in the model and in the body) is an absolute path /root/step/.../step[/@attr]
    that resolves, step by step, to a node of the primary instance (for @attr: to an attribute present on that node);
  * sibling names in the primary instance are unique (a repeat's jr:template twin is the only allowed namesake);
  * no node is bound twice (no two binds with one nodeset) and no two body controls share a ref;
  * a form whose source gives two sibling rows the same name (generated siblings <select>_other and <repeat>_count
    included) is rejected, not converted.
Nothing is computed with pyxform: paths are resolved by walking the parsed instance, the expected sibling names are
read from the source sheet (shared reader in bounded/oracles/C03.py).

Generated group structures (round 3): `begin loop over <list>` stands, by the XLSForm convention, for a group named
after the loop holding one group per choice of the list, each with its own copy of the loop's rows.  The source-side
reader rewrites such a sheet into the explicit groups it stands for (expand_loops, from the workbook only) so the
"ambiguous names are rejected" clause is stated for them too, and loop_family() puts loops (1-3 columns, every kind of
child row - plain, %(label)s, translated, bind/control columns, selects, actions, nested sections - alone, in pairs
and all together) at every nesting depth, where "no node is bound twice" / "no two controls share a ref" are checked
on as many copies of each child as the list has choices.

Domain (triage, see FINDINGS_C02.md): the property speaks of the refs the converter derives for controls from the
survey tree.  A `body::ref` / `control::ref` cell is the author writing the control's ref attribute verbatim (the
documented `body::<attribute>` pass-through); such a ref is the author's, not a generated one, and the property text
does not cover it.  The oracle therefore sets aside exactly the controls whose ref is the text of such a cell (modulo
${..} substitution) and keeps every demand on all other controls, binds, repeats and actions of the same form.
"""
from __future__ import annotations

import itertools
import random
import re

from bounded import corpus
from bounded.corpus import Case, WB, XForm, XF
from bounded.oracles.C03 import source_wb, survey_tree, forests, local, _render

USES_DEFAULT_CORPUS = True
N_GENERATED = {"quick": 150, "thorough": 1500}
TIME_BUDGET_S = {"quick": 90, "thorough": 1200}

JR = "{http://openrosa.org/javarosa}"
NOT_CONTROLS = {"label", "hint", "help", "value", "output", "item", "itemset", "tag", "text",
                "setvalue", "setgeopoint", "recordaudio", "repeat"}
ACTIONS = {"setvalue", "setgeopoint", "recordaudio"}
ABS_PATH = re.compile(r"^(?:/[^/\s\[\]()@'\"=,]+)+(?:/@[^/\s\[\]()@'\"=,]+)?$")


def _v(key, what):
    return {"key": key, "what": what}


def is_template(e):
    return e.get(f"{JR}template") is not None


def resolve(iroot, path: str):
    """Nodes of the primary instance named by an absolute path (prefixes ignored, local names compared).
    Returns (list of elements, attribute name or None, problem or None)."""
    steps = path.split("/")[1:]
    attr = None
    if steps and steps[-1].startswith("@"):
        attr = steps[-1][1:].split(":")[-1]
        steps = steps[:-1]
    if not steps or steps[0].split(":")[-1] != local(iroot.tag):
        return [], attr, f"first step is not the instance root <{local(iroot.tag)}>"
    cur = [iroot]
    for s in steps[1:]:
        nxt = [c for e in cur for c in e if local(c.tag) == s.split(":")[-1]]
        if not nxt:
            return [], attr, f"no node for step '{s}'"
        cur = nxt
    if attr is not None:
        cur = [e for e in cur if any(local(k) == attr for k in e.attrib)]
        if not cur:
            return [], attr, f"the node has no attribute '{attr}'"
    return cur, attr, None


AUTHOR_REF_COLUMNS = ("body::ref", "control::ref", "body:ref", "control:ref")


def author_refs(wb):
    """One regex per non-empty cell of a column that writes a control's ref attribute verbatim (body::ref ...).
    The regex matches the cell text with every ${name} standing for a path that ends in `name`."""
    out = []
    if wb is None:
        return out
    sh = next((k for k in wb if str(k).strip().lower() == "survey"), None)
    if sh is None:
        return out
    headers, rows = wb[sh]
    cols = [i for i, h in enumerate(headers) if str(h or "").strip().lower().replace(" ", "") in AUTHOR_REF_COLUMNS]
    for row in rows:
        for i in cols:
            v = row[i] if i < len(row) else None
            if v is None or not str(v).strip():
                continue
            # ${name} stands for a path whose last step is `name`; literal text is kept, blanks compared loosely
            rx, pos, text = r"\s*", 0, str(v).strip()
            for m in re.finditer(r"\$\{(?:last-saved#)?([^}]*)\}", text):
                rx += r"\s*".join(re.escape(w) for w in text[pos:m.start()].split())
                rx += r"\s*(?:instance\('__last-saved'\))?(?:\.\./|/)(?:[^\s/]+/)*" + re.escape(m.group(1).strip()) + r"\s*"
                pos = m.end()
            rx += r"\s*".join(re.escape(w) for w in text[pos:].split()) + r"\s*"
            out.append(re.compile(rx, re.S))
    return out


_LOOP_BEGIN = re.compile(r"^begin[ _]loop (?:over )?(\S+)$", re.I)
_LOOP_END = re.compile(r"^end[ _]loop$", re.I)
_SECTION_BEGIN = re.compile(r"^begin[ _](group|repeat|lgroup|looped group)\b", re.I)
_SECTION_END = re.compile(r"^end[ _](group|repeat|lgroup|looped group)$", re.I)


def _sheet(wb, name):
    return next((k for k in wb if str(k).strip().lower() == name), None)


def _col(headers, *names):
    for i, h in enumerate(headers):
        if str(h or "").strip().lower().replace(" ", "_") in names:
            return i
    return None


def expand_loops(wb):
    """The workbook with every `begin loop over <list>` ... `end loop` written out as the groups it stands for:
    `begin group <loop name>`, then per choice of <list> (sheet order) `begin group <choice name>` + the loop's rows +
    `end group`, then `end group`.  Source text only.  None when the sheet has no loop or the loop cannot be read
    this way (unknown list, unbalanced rows, placeholder in a name, a choice called 'none' - which XLSForm tools
    treat specially)."""
    if wb is None:
        return None
    sv, ch = _sheet(wb, "survey"), _sheet(wb, "choices")
    if sv is None or ch is None:
        return None
    headers, rows = wb[sv]
    ti, ni = _col(headers, "type"), _col(headers, "name")
    cheaders, crows = wb[ch]
    li, ci = _col(cheaders, "list_name"), _col(cheaders, "name")
    if None in (ti, ni, li, ci):
        return None

    def cell(row, i):
        v = row[i] if i < len(row) else None
        return None if v is None or not str(v).strip() else " ".join(str(v).split())

    def blank(t, name):
        r = [None] * len(headers)
        r[ti], r[ni] = t, name
        return r

    rows = [list(r) for r in rows]
    if not any(_LOOP_BEGIN.match(cell(r, ti) or "") for r in rows):
        return None
    for _ in range(50):
        b = None
        for i, r in enumerate(rows):
            t = cell(r, ti) or ""
            if _LOOP_BEGIN.match(t):
                b = i
            elif _LOOP_END.match(t):
                if b is None:
                    return None
                break
        else:
            if b is not None:
                return None
            out = WB(wb)
            out[sv] = (headers, rows)
            return out
        e = i
        body, depth = rows[b + 1:e], 0
        for r in body:
            t = cell(r, ti) or ""
            depth += 1 if _SECTION_BEGIN.match(t) else -1 if _SECTION_END.match(t) else 0
            if depth < 0 or "%(" in (cell(r, ni) or ""):
                return None
        lst = _LOOP_BEGIN.match(cell(rows[b], ti)).group(1)
        cols = [cell(c, ci) for c in crows if cell(c, li) == lst]
        if depth or not cols or None in cols or "none" in cols or cell(rows[b], ni) is None:
            return None
        head = list(rows[b]) + [None] * (len(headers) - len(rows[b]))
        head[ti] = "begin group"
        new = [head]
        for c in cols:
            new += [blank("begin group", c), *[list(r) for r in body], blank("end group", None)]
        new.append(blank("end group", None))
        rows[b:e + 1] = new
    return None


def check(case, res, ctx):
    vs = []
    wb = source_wb(case)
    tree = survey_tree(wb)
    if not tree.ok:
        # a sheet with `begin loop over <list>` is read as the explicit groups it stands for
        unrolled = expand_loops(wb)
        if unrolled is not None:
            tree = survey_tree(unrolled)
    authored = author_refs(wb)

    # --- source side: exact duplicate sibling names (generated helpers included) must be rejected
    ambiguous = None
    if tree.ok:
        sib = {}
        for r in tree.rows:
            parent = r.path[:-1]
            sib.setdefault((parent, r.name), []).append(f"row '{r.name}' ({r.type})")
            tl = " ".join(r.type.lower().split())
            if r.kind == "question" and re.fullmatch(r"(select_one|select_multiple|select one|select multiple|select all that apply)"
                                                     r" \S+ (or_other|or other|or specify other)", tl):
                sib.setdefault((parent, r.name + "_other"), []).append(f"'{r.name}_other' generated for '{r.name}' (or_other)")
            if r.kind == "repeat":
                rc = r.cells.get("repeat_count")
                if rc and not re.fullmatch(r"\$\{[^}]*\}", rc):
                    sib.setdefault((parent, r.name + "_count"), []).append(f"'{r.name}_count' generated for repeat '{r.name}'")
        for (parent, name), who in sib.items():
            if len(who) > 1:
                ambiguous = (parent, name, who)
                break
    if ambiguous and res.ok:
        parent, name, who = ambiguous
        gen = any("generated" in w for w in who)
        vs.append(_v("C02:ambiguous-sibling-names-accepted" + (":generated-helper" if gen else ""),
                     f"under /{'/'.join(parent) or '(root)'} the name '{name}' is used by {who} yet the form was converted"))
    if not res.ok:
        return vs
    xf, err = corpus.parse_ok(res.xform)
    if xf is None or xf.iroot is None:
        return vs
    iroot = xf.iroot

    # --- sibling names unique in the primary instance (template twin allowed)
    for e in iroot.iter():
        seen = {}
        for c in e:
            k = (c.tag, is_template(c))
            seen[k] = seen.get(k, 0) + 1
        for (tag, tpl), n in seen.items():
            if n > 1:
                vs.append(_v("C02:duplicate-sibling-in-instance",
                             f"<{local(e.tag)}> has {n} children named <{local(tag)}>{' (templates)' if tpl else ''}"))
                break

    def path_ok(kind, el, path):
        if path is None:
            return
        if not ABS_PATH.match(path):
            vs.append(_v(f"C02:{kind}-not-absolute", f"{kind} '{path}' on <{local(el.tag)}> is not an absolute path"))
            return
        nodes, attr, problem = resolve(iroot, path)
        if problem:
            vs.append(_v(f"C02:{kind}-unresolved", f"{kind} '{path}' on <{local(el.tag)}>: {problem} in the primary instance"))

    # --- binds
    bound = {}
    for b in xf.binds():
        ns = b.get("nodeset")
        if ns is None:
            vs.append(_v("C02:bind-without-nodeset", "a <bind> has no nodeset"))
            continue
        path_ok("bind-nodeset", b, ns)
        bound[ns] = bound.get(ns, 0) + 1
    for ns, n in bound.items():
        if n > 1:
            vs.append(_v("C02:node-bound-twice", f"{n} binds have nodeset '{ns}'"))
            break

    # --- body controls, repeats, actions (model and body)
    refs = {}
    if xf.body is not None:
        for e in xf.body.iter():
            t = local(e.tag)
            if t == "repeat":
                if e.get("nodeset") is None:
                    vs.append(_v("C02:repeat-without-nodeset", "a <repeat> has no nodeset"))
                path_ok("repeat-nodeset", e, e.get("nodeset"))
            elif t not in NOT_CONTROLS and e.tag.startswith(("{http://www.w3.org/2002/xforms}", "{http://www.opendatakit.org/xforms}")):
                r = e.get("ref")
                if r is not None:
                    # a ref that is the text of a body::ref cell was written by the author, not generated
                    if not any(rx.fullmatch(r) for rx in authored):
                        path_ok("control-ref", e, r)
                    refs.setdefault(r, []).append(t)
    for r, tags in refs.items():
        # each body::ref cell accounts for at most one of the controls carrying its text
        n_generated = len(tags) - sum(1 for rx in authored if rx.fullmatch(r))
        if len(tags) > 1 and n_generated > 1:
            vs.append(_v("C02:controls-share-ref", f"controls {tags} all have ref '{r}'"))
            break
    for e in xf.root.iter():
        if local(e.tag) in ACTIONS:
            if e.get("ref") is None:
                vs.append(_v("C02:action-without-ref", f"<{local(e.tag)}> has no ref"))
            path_ok("action-ref", e, e.get("ref"))
    return vs


# ------------------------------------------------------------------------------------------------
# case families
# ------------------------------------------------------------------------------------------------

CHOICES = (["list_name", "name", "label"], [["l", "c1", "C1"], ["l", "c2", "C2"]])
POOLS = {
    "lower": (["ga", "hb", "kc", "md", "ne"], "q"),
    "mixed": (["Visit", "Vital", "Plot", "Farm", "Field"], "Q"),
    "prefix": (["r", "r2", "rr", "g", "g2"], "r_"),
}


def _md(name, rows, **sheets):
    wb = WB()
    wb["survey"] = _render(rows)
    wb["choices"] = CHOICES
    for k, v in sheets.items():
        wb[k] = v
    return Case(name, md=corpus.wb_to_md(wb), origin="c02-family")


def structure_case(name, forest, kinds, pool, qp, offset, variant):
    """Container tree with, at every position, a bundle of rows exercising every generator of refs."""
    rows, counter = [], [0]
    n = len(kinds)

    def bundle(pos):
        other = (pos + offset) % (n + 1)
        b = [
            {"type": "text", "name": f"{qp}t{pos}", "label": "T"},
            {"type": "select_one l or_other", "name": f"{qp}s{pos}", "label": "S"},
            {"type": "calculate", "name": f"{qp}c{pos}", "calculation": "1 + 1", "trigger": "${%st%d}" % (qp, pos)},
            {"type": "text", "name": f"{qp}x{pos}", "label": "X", "calculation": "now()", "trigger": "${%st%d}" % (qp, other)},
            {"type": "background-geopoint", "name": f"{qp}b{pos}", "trigger": "${%st%d}" % (qp, other)},
            {"type": "integer", "name": f"{qp}d{pos}", "label": "D", "default": "1 + 1"},
            {"type": "date", "name": f"{qp}e{pos}", "label": "E", "default": "2020-01-01"},
        ]
        if variant % 3 == 0:
            b.reverse()
        if variant % 2:
            b.append({"type": "select_multiple l", "name": f"{qp}m{pos}", "label": "M", "choice_filter": "true()"})
            b.append({"type": "image", "name": f"{qp}i{pos}", "label": "I"})
            b.append({"type": "note", "name": f"{qp}n{pos}", "label": "N"})
        return b

    def walk(forest):
        for (children,) in forest:
            counter[0] += 1
            i = counter[0]
            k = kinds[i - 1]
            row = {"type": f"begin {'repeat' if k == 'r' else 'group'}", "name": pool[i - 1], "label": f"S{i}"}
            if k == "r" and (i + variant) % 2 == 0:
                row["repeat_count"] = "${%st0} + 1" % qp if (i + variant) % 4 == 0 else "${%sd0}" % qp
            if k == "g" and (i + variant) % 3 == 0:
                row["appearance"] = "table-list" if (i + variant) % 2 else "field-list"
            rows.append(row)
            rows.extend(bundle(i))
            walk(children)
            rows.append({"type": f"end {'repeat' if k == 'r' else 'group'}"})

    rows.extend(bundle(0))
    walk(forest)
    if variant % 5 == 0:
        rows += [{"type": "start", "name": "start"}, {"type": "end", "name": "end"}, {"type": "today", "name": "today"},
                 {"type": "deviceid", "name": "deviceid"}, {"type": "audit", "name": "audit"}]
    if variant % 7 == 0:
        rows.append({"type": "background-audio", "name": "bgaudio"})
    sheets = {}
    if variant % 4 == 0:
        sheets["settings"] = (["form_id", "instance_name"], [["f1", "concat(${%st0}, 'x')" % qp]])
    return _md(name, rows, **sheets)


def structure_family(max_n, rnd=None, sample=None):
    out, sid = [], 0
    pools = list(POOLS)
    for n in range(0, max_n + 1):
        for forest in forests(n, 4):
            for kinds in itertools.product("gr", repeat=n):
                for offset in range(0, n + 1):
                    sid += 1
                    if sample is not None and n == max_n and rnd.random() > sample:
                        continue
                    pname = pools[sid % len(pools)]
                    pool, qp = POOLS[pname]
                    out.append(structure_case(f"c02-struct-n{n}-{''.join(kinds)}-o{offset}-{pname}-{sid}", forest, kinds,
                                              pool, qp, offset, sid))
    return out


def duplicate_family():
    """Two (or three) siblings with clashing names at every depth; exact duplicates must be rejected."""
    out = []
    wraps = {"root": [], "g": ["group"], "r": ["repeat"], "rg": ["repeat", "group"], "gr": ["group", "repeat"],
             "rgr": ["repeat", "group", "repeat"]}
    pairs = []
    for nm in ("age", "Age", "Q1", "q_1", "AGE", "aB"):
        pairs.append((nm, nm, "exact"))
        pairs.append((nm, nm.lower() if nm != nm.lower() else nm.upper(), "case"))
        pairs.append((nm, nm + "2", "distinct"))
    for wk, wrap in wraps.items():
        for a, b, cls in pairs:
            for shape in ("qq", "q.q", "qqq", "sel-other", "rep-count", "grp-q", "q-grp"):
                rows = [{"type": "integer", "name": "n0", "label": "N"}]
                for j, w in enumerate(wrap):
                    rows.append({"type": f"begin {w}", "name": f"W{j}" if a[0].isupper() else f"w{j}", "label": f"W{j}"})
                if shape == "qq":
                    body = [{"type": "text", "name": a, "label": "A"}, {"type": "integer", "name": b, "label": "B"}]
                elif shape == "q.q":
                    body = [{"type": "text", "name": a, "label": "A"}, {"type": "note", "name": "mid", "label": "M"},
                            {"type": "select_one l", "name": b, "label": "B"}]
                elif shape == "qqq":
                    body = [{"type": "text", "name": a, "label": "A"}, {"type": "text", "name": "k", "label": "K"},
                            {"type": "integer", "name": b, "label": "B"}, {"type": "date", "name": a, "label": "A3"}]
                elif shape == "sel-other":
                    body = [{"type": "select_one l or_other", "name": a, "label": "A"},
                            {"type": "text", "name": b + "_other", "label": "B"}]
                elif shape == "rep-count":
                    body = [{"type": "begin repeat", "name": a, "label": "A", "repeat_count": "${n0} + 1"},
                            {"type": "text", "name": "in1", "label": "I"}, {"type": "end repeat"},
                            {"type": "integer", "name": b + "_count", "label": "B"}]
                elif shape == "grp-q":
                    body = [{"type": "begin group", "name": a, "label": "A"}, {"type": "text", "name": "in1", "label": "I"},
                            {"type": "end group"}, {"type": "integer", "name": b, "label": "B"}]
                else:
                    body = [{"type": "integer", "name": a, "label": "A"},
                            {"type": "begin repeat", "name": b, "label": "B"}, {"type": "text", "name": "in1", "label": "I"},
                            {"type": "end repeat"}]
                rows += body
                for j, w in reversed(list(enumerate(wrap))):
                    rows.append({"type": f"end {w}"})
                out.append(_md(f"c02-dup-{wk}-{a}-{cls}-{shape}", rows))
    # the same name in different sections is fine and must keep working
    rows = []
    for j, w in enumerate(["group", "repeat", "group"]):
        rows += [{"type": f"begin {w}", "name": f"S{j}", "label": "S"}, {"type": "text", "name": "Q1", "label": "Q"},
                 {"type": "select_one l or_other", "name": "Crop", "label": "C"}, {"type": f"end {w}"}]
    out.append(_md("c02-dup-control-different-sections", rows))
    return out


def entity_family():
    out = []
    base = [{"type": "text", "name": "a", "label": "A", "save_to": "p1"},
            {"type": "begin group", "name": "g", "label": "G"},
            {"type": "integer", "name": "n", "label": "N", "save_to": "p2"}, {"type": "end group"}]
    variants = {
        "create": (["dataset", "label"], [["trees", "${a}"]]),
        "create-if": (["dataset", "label", "create_if"], [["trees", "${a}", "${n} > 1"]]),
        "update": (["dataset", "entity_id"], [["trees", "${a}"]]),
        "update-if": (["dataset", "entity_id", "update_if", "label"], [["trees", "${a}", "${n} = 1", "${a}"]]),
        "upsert": (["dataset", "entity_id", "update_if", "create_if", "label"],
                   [["trees", "${a}", "${n} = 1", "${n} != 1", "${a}"]]),
    }
    for k, ent in variants.items():
        out.append(_md(f"c02-entity-{k}", base, entities=ent))
        out.append(_md(f"c02-entity-{k}-named", base, entities=ent,
                       settings=(["form_id", "name", "instance_name"], [["f", "Root_1", "${a}"]])))
    return out


def override_family():
    """User-supplied attribute columns that touch refs."""
    out = []
    rows = [{"type": "text", "name": "a", "label": "A"},
            {"type": "text", "name": "b", "label": "B", "body::ref": "/data/a"},
            {"type": "text", "name": "c", "label": "C"}]
    out.append(_md("c02-override-body-ref-existing", rows))
    rows = [{"type": "text", "name": "a", "label": "A"},
            {"type": "text", "name": "b", "label": "B", "body::ref": "b"}]
    out.append(_md("c02-override-body-ref-relative", rows))
    rows = [{"type": "text", "name": "a", "label": "A", "instance::foo": "bar", "bind::foo": "x", "body::accuracyThreshold": "5"},
            {"type": "begin group", "name": "g", "label": "G", "instance::k": "v", "bind::relevant": "${a} = 1"},
            {"type": "text", "name": "b", "label": "B"}, {"type": "end group"}]
    out.append(_md("c02-override-harmless-attributes", rows))
    # an author-written ref on one row sets aside that control only: every other ref of the form is still demanded
    rows = [{"type": "text", "name": "a", "label": "A"},
            {"type": "text", "name": "b", "label": "B", "body::ref": "${a}"},
            {"type": "begin repeat", "name": "Rep", "label": "R"},
            {"type": "begin group", "name": "Grp", "label": "G"},
            {"type": "text", "name": "Q1", "label": "Q", "body::ref": "/data/Rep/Grp/Q2"},
            {"type": "text", "name": "Q2", "label": "Q2"},
            {"type": "select_one l or_other", "name": "Crop", "label": "C"},
            {"type": "calculate", "name": "stamp", "calculation": "now()", "trigger": "${Q2}"},
            {"type": "background-geopoint", "name": "where", "trigger": "${Q2}"},
            {"type": "end group"}, {"type": "end repeat"}]
    out.append(_md("c02-override-body-ref-mixed", rows))
    for dup in ("Q2", "Crop_other"):
        out.append(_md(f"c02-override-body-ref-mixed-dup-{dup}",
                       rows[:-2] + [{"type": "text", "name": dup, "label": "D"}] + rows[-2:]))
    return out


# --- generated group structures: `begin loop over <list>` (one group per choice, a copy of the rows in each) ---------

LOOP_LISTS = {
    "one": [("car", "Car")],
    "two": [("car", "Car"), ("bike", "Bike")],
    "three": [("a", "A"), ("a2", "A2"), ("b", "B")],          # names that are prefixes of each other
    "mixed": [("Car", "Car"), ("Bike_1", "Bike 1"), ("x.y", "X Y")],
    "none": [("car", "Car"), ("none", "None"), ("bike", "Bike")],
}
LOOP_WRAPS = {"root": [], "g": ["group"], "r": ["repeat"], "rg": ["repeat", "group"], "gr": ["group", "repeat"],
              "rgr": ["repeat", "group", "repeat"]}
# kinds of rows a loop may hold; every kind is one row or one balanced block of rows.  q0 lives outside the loop.
LOOP_CHILDREN = {
    "plain-text": [{"type": "text", "name": "pt", "label": "Plain"}],
    "plain-hint": [{"type": "integer", "name": "ph", "label": "How many are working?", "hint": "Count them"}],
    "plain-note": [{"type": "note", "name": "pn", "label": "Read this"}],
    "plain-default": [{"type": "integer", "name": "pd", "label": "D", "default": "3"}],
    "plain-date": [{"type": "date", "name": "pe", "label": "When"}],
    "subst-label": [{"type": "integer", "name": "sl", "label": "How many %(label)s?"}],
    "subst-hint": [{"type": "text", "name": "sh", "label": "Plain", "hint": "About %(name)s"}],
    "lang-label": [{"type": "text", "name": "ll", "label::en": "E", "label::fr": "F"}],
    "lang-subst": [{"type": "text", "name": "ls", "label::en": "E %(label)s", "label::fr": "F %(label)s"}],
    "bind-cols": [{"type": "text", "name": "bc", "label": "B", "relevant": "${q0} = 1", "required": "yes",
                   "constraint": ". != 'x'"}],
    "readonly": [{"type": "text", "name": "ro", "label": "R", "readonly": "yes"}],
    "appearance": [{"type": "text", "name": "ap", "label": "A", "appearance": "multiline"}],
    "select1": [{"type": "select_one l", "name": "s1", "label": "S"}],
    "select-other": [{"type": "select_multiple l or_other", "name": "so", "label": "S"}],
    "calculate": [{"type": "calculate", "name": "ca", "calculation": "1 + 1"}],
    "dyn-default": [{"type": "integer", "name": "dd", "label": "D", "default": "1 + 1"}],
    "trigger": [{"type": "text", "name": "tr", "label": "X", "calculation": "now()", "trigger": "${q0}"}],
    "image": [{"type": "image", "name": "im", "label": "I"}],
    "group": [{"type": "begin group", "name": "ng", "label": "NG"}, {"type": "text", "name": "nq", "label": "NQ"},
              {"type": "end group"}],
    "repeat-count": [{"type": "begin repeat", "name": "nr", "label": "NR", "repeat_count": "${q0} + 1"},
                     {"type": "text", "name": "nq", "label": "NQ"}, {"type": "end repeat"}],
}


def _choices(lists, langs=False):
    if langs:
        return (["list_name", "name", "label::en", "label::fr"],
                [["l", "c1", "C1", "D1"], ["l", "c2", "C2", "D2"]]
                + [[ln, n, lb, lb + " (fr)"] for ln, items in lists.items() for n, lb in items])
    return (["list_name", "name", "label"],
            CHOICES[1] + [[ln, n, lb] for ln, items in lists.items() for n, lb in items])


def loop_case(name, wrap, lists, loops, langs=False, over="over ", settings=None):
    """`loops` = [(loop name, list name, [child kind, ...])], written one after the other inside `wrap`."""
    rows = [{"type": "integer", "name": "q0", "label": "Q0"}]
    for j, w in enumerate(wrap):
        rows.append({"type": f"begin {w}", "name": f"w{j}", "label": f"W{j}"})
    for lname, lst, kinds in loops:
        rows.append({"type": f"begin loop {over}{lst}", "name": lname, "label": "Loop"})
        for k in kinds:
            rows += [dict(r) for r in LOOP_CHILDREN[k]] if isinstance(k, str) else [dict(r) for r in k]
        rows.append({"type": "end loop"})
        rows.append({"type": "text", "name": f"after_{lname}", "label": "After"})
    for w in reversed(wrap):
        rows.append({"type": f"end {w}"})
    sheets = {"choices": _choices(lists, langs)}
    if settings:
        sheets["settings"] = settings
    return _md(name, rows, **sheets)


def loop_family(tier):
    out = []
    kinds = list(LOOP_CHILDREN)
    # all together: nested sections and a ${..}-named trigger target are only unambiguous with a one-column list
    full = [k for k in kinds if k not in ("group", "repeat-count", "trigger")]
    thorough = tier != "quick"
    # every kind alone and all kinds together: every list, every wrap
    wraps = list(LOOP_WRAPS) if thorough else ["root", "g", "r", "rg"]
    for wk in wraps:
        for lk, items in LOOP_LISTS.items():
            for langs in (False, True):
                if langs and not thorough and (wk != "root" or lk not in ("two", "one")):
                    continue
                tag = f"{wk}-{lk}{'-langs' if langs else ''}"
                if lk == "one":
                    out.append(loop_case(f"c02-loop-{tag}-everything", LOOP_WRAPS[wk], {"veh": items},
                                         [("owned", "veh", kinds)], langs))
                for k in kinds:
                    out.append(loop_case(f"c02-loop-{tag}-{k}", LOOP_WRAPS[wk], {"veh": items}, [("owned", "veh", [k])], langs))
                out.append(loop_case(f"c02-loop-{tag}-all", LOOP_WRAPS[wk], {"veh": items}, [("owned", "veh", full)], langs))
                out.append(loop_case(f"c02-loop-{tag}-all-rev", LOOP_WRAPS[wk], {"veh": items},
                                     [("owned", "veh", full[::-1])], langs))
    # every ordered pair of kinds (position in the loop matters to whoever builds the copies)
    pair_ctx = [("root", "two")] + ([("root", "three"), ("rg", "two"), ("rg", "none"), ("gr", "one")] if thorough else [])
    for wk, lk in pair_ctx:
        for a, b in itertools.permutations(kinds, 2):
            if not thorough and a > b and "plain" not in a and "plain" not in b:
                continue
            out.append(loop_case(f"c02-loop-pair-{wk}-{lk}-{a}+{b}", LOOP_WRAPS[wk], {"veh": LOOP_LISTS[lk]},
                                 [("owned", "veh", [a, b])]))
    # the same kind of row several times in one loop (distinct names), and a lone loop without `over`
    for lk in ("two", "three"):
        many = [[{"type": "text", "name": f"p{i}", "label": "Same words"}] for i in range(4)]
        out.append(loop_case(f"c02-loop-same-words-{lk}", [], {"veh": LOOP_LISTS[lk]}, [("owned", "veh", many)]))
        mixed = [[{"type": "integer", "name": f"m{i}", "label": "Same words" if i % 2 else "Of %(label)s"}] for i in range(5)]
        out.append(loop_case(f"c02-loop-alternating-{lk}", ["group"], {"veh": LOOP_LISTS[lk]}, [("owned", "veh", mixed)]))
        out.append(loop_case(f"c02-loop-no-over-{lk}", ["repeat"], {"veh": LOOP_LISTS[lk]},
                             [("owned", "veh", ["plain-text", "subst-label"])], over=""))
    # several loops in one form: over different lists, and over one list (column names then clash survey-wide)
    two = {"veh": LOOP_LISTS["two"], "pets": [("cat", "Cat"), ("dog", "Dog"), ("emu", "Emu")]}
    for wk in ("root", "rg"):
        for ks in (["plain-text"], ["plain-hint", "subst-label"], ["select1", "plain-note", "bind-cols"]):
            tag = f"{wk}-{'+'.join(ks)}"
            out.append(loop_case(f"c02-loop-two-lists-{tag}", LOOP_WRAPS[wk], two,
                                 [("owned", "veh", ks), ("kept", "pets", ks)]))
            out.append(loop_case(f"c02-loop-same-list-{tag}", LOOP_WRAPS[wk], two,
                                 [("owned", "veh", ks), ("kept", "veh", ks)]))
    # a loop inside a loop (the inner section names repeat per outer column unless the outer list has one choice)
    inner = [{"type": "begin loop over pets", "name": "kept", "label": "Kept"},
             {"type": "integer", "name": "n", "label": "How many?"},
             {"type": "integer", "name": "n2", "label": "How many %(label)s?"}, {"type": "end loop"}]
    for lk in ("one", "two"):
        out.append(loop_case(f"c02-loop-nested-{lk}", [], {"veh": LOOP_LISTS[lk], "pets": two["pets"]},
                             [("owned", "veh", ["plain-text", inner])]))
    # names that must be rejected: two rows of one loop with one name, a generated helper's name taken, a choice
    # name used twice in the looped list (possible with allow_choice_duplicates)
    dups = {
        "exact": [[{"type": "text", "name": "k", "label": "K"}], [{"type": "integer", "name": "k", "label": "K2"}]],
        "exact-apart": [[{"type": "text", "name": "k", "label": "K"}], "plain-note",
                        [{"type": "text", "name": "k", "label": "K"}]],
        "other": ["select-other", [{"type": "text", "name": "so_other", "label": "K"}]],
        "count": [[{"type": "begin repeat", "name": "nr", "label": "NR", "repeat_count": "${q0} + 1"},
                   {"type": "text", "name": "nq", "label": "NQ"}, {"type": "end repeat"}],
                  [{"type": "integer", "name": "nr_count", "label": "K"}]],
        "distinct": [[{"type": "text", "name": "k", "label": "K"}], [{"type": "integer", "name": "k2", "label": "K2"}]],
    }
    for dk, ks in dups.items():
        for lk in ("one", "two"):
            for wk in ("root", "r"):
                out.append(loop_case(f"c02-loop-dup-{dk}-{lk}-{wk}", LOOP_WRAPS[wk], {"veh": LOOP_LISTS[lk]},
                                     [("owned", "veh", ks)]))
    allow = (["form_id", "allow_choice_duplicates"], [["f", "yes"]])
    for items in ([("car", "Car"), ("car", "Car 2")], [("car", "Car"), ("bike", "Bike"), ("car", "Car")]):
        for ks in (["plain-text"], ["subst-label"]):
            out.append(loop_case(f"c02-loop-dup-column-{len(items)}-{ks[0]}", [], {"veh": items},
                                 [("owned", "veh", ks)], settings=allow))
    return out


def cases(tier, seed):
    rnd = random.Random(seed * 104729 + 2)
    out = []
    if tier == "quick":
        out += structure_family(3)
        out += [c for c in structure_family(4, rnd, 0.2) if "-n4-" in c.name]
    else:
        out += structure_family(4)
        out += [c for c in structure_family(5, rnd, 0.05) if "-n5-" in c.name]
    out += duplicate_family()
    out += entity_family()
    out += override_family()
    out += loop_family(tier)
    return out
