"""C07 (bounded e2e): every itext reference resolves in every language.

Stated on the parsed XForm only (plus the source workbook for the form's default language):

  * every literal jr:itext('id') in the body (label/hint refs, any attribute) and in bind attributes
    (jr:constraintMsg, jr:requiredMsg, jr:noAppErrorString, ...) and every <itextId> of a secondary-instance
    item names a <text id> present in EVERY <translation>;
  * all translations hold the same id set; no language and no id (within a language) appears twice;
  * at most one translation is marked default, and when the form's default language (settings sheet, else the
    convert() argument, else 'default') is one of the translations, it is exactly that one.

The oracle never consults pyxform for the expectation; ids are only compared with each other.
"""
from __future__ import annotations

import itertools
import random

from bounded import corpus
from bounded.corpus import Case, WB, XF

USES_DEFAULT_CORPUS = True
N_GENERATED = {"quick": 150, "thorough": 1500}
TIME_BUDGET_S = {"quick": 75, "thorough": 900}

P = "C07"


# ------------------------------------------------------------------------------------------------ check


def _choice_rows_by_list(wb):
    out = {}
    if wb is None:
        return out
    for row in corpus.sheet_dicts(wb, "choices"):
        ln = row.get("list_name", row.get("list name"))
        if ln is not None:
            out.setdefault(ln, []).append(row)
    return out


def _lists_of_question(wb, qname):
    out = []
    if wb is None:
        return out
    for row in corpus.sheet_dicts(wb, "survey"):
        if row.get("name") == qname:
            # every token after the first is a candidate list name (select commands may be several words)
            out.extend(t for t in (row.get("type") or "").split()[1:] if t != "or_other")
    return out


def _row_has_text_or_media(row: dict) -> bool:
    for h, v in row.items():
        base = h.replace("::", ":").split(":")[0].strip().lower()
        if base in ("label", "caption", "image", "audio", "video", "big-image", "media") and v:
            return True
    return False


def check(case, res, ctx):
    if not res.ok or not res.xform:
        return []
    xf, err = corpus.parse_ok(res.xform)
    if xf is None or xf.model is None:
        return []
    out = []

    def v(key, what):
        out.append({"key": f"{P}:{key}", "what": what})

    it = corpus.IText(xf)
    if it.n_blocks > 1:
        v("several-itext-blocks", f"{it.n_blocks} <itext> blocks in the model")

    # -- shape of the itext block
    dup_langs = sorted({l for l in it.langs if it.langs.count(l) > 1}, key=str)
    if dup_langs:
        v("duplicate-language", f"translation language(s) appear twice: {dup_langs}; all: {it.langs}")
    for lang, ids in it.dup_ids.items():
        v("duplicate-text-id", f"translation {lang!r} repeats text id(s) {sorted(set(ids))[:5]}")
    if it.langs:
        sets = {lang: set(it.texts[lang]) for lang in it.texts}
        union = set().union(*sets.values())
        for lang, ids in sets.items():
            missing = union - ids
            if missing:
                v("id-set-differs", f"translation {lang!r} lacks text id(s) {sorted(missing)[:5]} present in another "
                                    f"translation (languages {it.langs})")
                break

    # -- default marking
    if len(it.marked_default) > 1:
        v("multiple-default", f"translations marked default: {it.marked_default} (languages {it.langs})")
    wb = corpus.case_wb(case)
    if wb is not None and it.langs:
        d = corpus.source_default_language(case, wb)
        if d in it.langs and it.marked_default != [d] and len(it.marked_default) <= 1:
            v("default-not-marked", f"form default language {d!r} is a translation but the translations marked "
                                    f"default are {it.marked_default} (languages {it.langs})")

    # -- every reference resolves in every language
    def resolve(tid, where, detail):
        if not it.langs:
            v(f"dangling-itext:{where}", f"{detail} references itext id {tid!r} but the form has no translations")
            return
        missing = [lang for lang in it.texts if tid not in it.texts[lang]]
        if missing:
            v(f"dangling-itext:{where}", f"{detail} references itext id {tid!r} which has no <text> in "
                                          f"translation(s) {missing} (languages {it.langs})")

    rows_by_list = _choice_rows_by_list(wb)
    if xf.body is not None:
        inline_item_labels = {}
        for ctl in xf.body.iter():
            for item in ctl.findall(f"{XF}item"):
                lab, val = item.find(f"{XF}label"), item.find(f"{XF}value")
                if lab is not None:
                    inline_item_labels[id(lab)] = (ctl.get("ref"), val.text if val is not None else None)
        for e in xf.body.iter():
            tag = xf.local(e.tag)
            for a, val in e.attrib.items():
                for tid in corpus.literal_itext_ids(val):
                    where = f"body-{tag}" if tag in ("label", "hint") else "body-other"
                    detail = f"<{tag} {xf.local(a)}=...>"
                    if id(e) in inline_item_labels:
                        # label of an inline <item> (lists consumed by search()): same source-based sub-class
                        ref, value = inline_item_labels[id(e)]
                        where = "body-item-label"
                        detail = f"inline item {value!r} of select {ref}"
                        lists = _lists_of_question(wb, (ref or "").rsplit("/", 1)[-1])
                        cand = [r for ln in lists for r in rows_by_list.get(ln, [])
                                if r.get("name", r.get("value")) == value]
                        if cand and all(not _row_has_text_or_media(r) for r in cand):
                            where += ":choice-without-label"
                    resolve(tid, where, detail)
    for b in xf.binds():
        for a, val in b.attrib.items():
            for tid in corpus.literal_itext_ids(val):
                resolve(tid, f"bind:{xf.local(a)}", f"bind {b.get('nodeset')} @{xf.local(a)}")
    # setvalue / other model children carrying literal references
    for e in xf.model.iter():
        tag = xf.local(e.tag)
        if tag in ("bind", "itext", "translation", "text", "value", "instance"):
            continue
        for a, val in e.attrib.items():
            for tid in corpus.literal_itext_ids(val):
                resolve(tid, "model-other", f"<{tag} {xf.local(a)}=...>")

    for iid, _src, inst in corpus.secondary_instances(xf):
        for idx, item in enumerate(inst.iter(f"{XF}item")):
            for ch in item:
                if xf.local(ch.tag) == "itextId":
                    tid = (ch.text or "")
                    where = "choice-itextId"
                    # Sub-classify by a SOURCE condition (not by implementation): the sheet row of this choice
                    # carries no label and no media in any language.
                    rows = rows_by_list.get(iid, [])
                    name = next((c.text for c in item if xf.local(c.tag) == "name"), None)
                    if idx < len(rows) and rows[idx].get("name", rows[idx].get("value")) == name \
                            and not _row_has_text_or_media(rows[idx]):
                        where = "choice-itextId:choice-without-label"
                    resolve(tid, where, f"choice #{idx} ({name!r}) of instance {iid!r} <itextId>")
    return out


# ------------------------------------------------------------------------------------------------ cases

TEXT_KINDS = ["label", "hint", "guidance_hint", "constraint_message", "required_message", "noAppErrorString"]
MEDIA_KINDS = ["image", "audio", "video", "big-image"]
KINDS = TEXT_KINDS + MEDIA_KINDS

LANG_PAIRS = [
    ("English", "French"),
    ("English", "english"),          # differ only by case
    ("Default", "fr"),               # next to the implicit 'default'
    ("default", "French"),
    ("English (en)", "Français (fr)"),
]


def _hdr(kind, lang, delim="::"):
    return kind if lang is None else f"{kind}{delim}{lang}"


def _subsets(slots, nonempty=True):
    for n in range(1 if nonempty else 0, len(slots) + 1):
        yield from itertools.combinations(slots, n)


_SLOT_CODES: dict = {}


def _txt(tag, kind, lang, dyn):
    """Unique per (row, kind, language slot); never contains a language name (upper-case codes only)."""
    slot = "P0" if lang is None else _SLOT_CODES.setdefault(lang, f"T{len(_SLOT_CODES) + 1}")
    if kind in MEDIA_KINDS:
        return f"{tag.upper()}_{kind.upper()}_{slot}.png"
    return f"{tag.upper()}.{kind.upper()}.{slot}" + (" ${q0}" if dyn else "")


def _question_row(name, fills, dyn=False, qtype="text", delim="::", extra=None):
    """fills: {kind: iterable of slots (None | lang)}"""
    row = {"type": qtype, "name": name}
    for kind, slots in fills.items():
        for lang in slots:
            row[_hdr(kind, lang, delim)] = _txt(name, kind, lang, dyn)
        if kind == "constraint_message" and slots:
            row["constraint"] = ". != 'zz'"
        if kind == "required_message" and slots:
            row["required"] = "yes"
        if kind == "big-image" and slots and "image" not in fills:
            for lang in slots:
                row[_hdr("image", lang, delim)] = _txt(name, "image", lang, False)
    if extra:
        row.update(extra)
    return row


def _form(name, survey_rows, choices_rows=None, settings=None, kwargs=None, headers=None, tags=()):
    wb = WB()
    wb["survey"] = corpus.sheet_from_dicts(survey_rows, headers)
    if choices_rows:
        wb["choices"] = corpus.sheet_from_dicts(choices_rows, ["list_name", "name"])
    if settings:
        wb["settings"] = corpus.sheet_from_dicts([settings])
    return Case(name, wb=wb, kwargs=dict(kwargs or {}), origin="C07-family", tags=set(tags))


Q0 = {"type": "text", "name": "q0", "label": "Zero"}


def _default_configs(a, b):
    """(settings, kwargs) variants for the form's default language."""
    return [
        (None, None),
        ({"default_language": a}, None),
        ({"default_language": b}, None),
        (None, {"default_language": a}),
        ({"default_language": "Klingon"}, None),
        ({"default_language": b}, {"default_language": a}),
    ]


def fam_question_kinds(pairs, label_patterns, dyns, configs_of):
    """One question; one translatable kind with every sparse fill over {unsuffixed, A, B} x label pattern."""
    out = []
    for (a, b) in pairs:
        slots = (None, a, b)
        for kind in KINDS:
            for fill in _subsets(slots):
                for lp in label_patterns(a, b):
                    if kind == "label":
                        if lp != ():
                            continue
                        fills = {"label": fill}
                    else:
                        fills = {"label": lp, kind: fill}
                        if not lp:
                            fills.pop("label")
                    for dyn in dyns:
                        if dyn and kind in MEDIA_KINDS:
                            continue
                        for ci, (st, kw) in enumerate(configs_of(a, b)):
                            rows = [Q0, _question_row("q1", fills, dyn)]
                            out.append(_form(f"qk[{a}|{b}|{kind}|{fill}|{lp}|dyn{int(dyn)}|cfg{ci}]", rows,
                                             settings=st, kwargs=kw))
    return out


def fam_kind_pairs(a, b, rnd, n):
    """Two or three kinds with independent sparse fills on two questions, a group and a repeat."""
    out = []
    slots = (None, a, b)
    all_fills = list(_subsets(slots, nonempty=False))
    for i in range(n):
        rows = [Q0]
        for qn, qtype in (("q1", "text"), ("q2", "integer")):
            ks = rnd.sample(KINDS, rnd.choice([2, 3, 4]))
            fills = {k: rnd.choice(all_fills) for k in ks}
            fills = {k: f for k, f in fills.items() if f}
            if not any(k in fills for k in ("label", "hint", "image", "audio", "video")):
                fills["label"] = rnd.choice(all_fills[1:])
            rows.append(_question_row(qn, fills, dyn=rnd.random() < 0.3, qtype=qtype))
        gf = rnd.choice(all_fills)
        grow = {"type": rnd.choice(["begin group", "begin repeat"]), "name": "g1"}
        for lang in gf:
            grow[_hdr("label", lang)] = _txt("g1", "label", lang, rnd.random() < 0.2)
        inner = _question_row("q3", {"label": rnd.choice(all_fills[1:]), "hint": rnd.choice(all_fills)},
                              dyn=rnd.random() < 0.2)
        rows += [grow, inner, {"type": "end " + grow["type"].split(" ")[1]}]
        st, kw = rnd.choice(_default_configs(a, b))
        out.append(_form(f"kp[{a}|{b}|{i}]", rows, settings=st, kwargs=kw))
    return out


def _choice_rows(list_name, fills_per_choice, media_per_choice=None, dyn=False, names=None):
    rows = []
    for i, fill in enumerate(fills_per_choice):
        nm = names[i] if names else f"c{i}"
        r = {"list_name": list_name, "name": nm}
        for lang in fill:
            r[_hdr("label", lang)] = _txt(f"{list_name}{i}", "label", lang, dyn)
        for kind, lang in (media_per_choice or {}).get(i, ()):
            r[_hdr(kind, lang)] = _txt(f"{list_name}{i}", kind, lang, False)
        rows.append(r)
    return rows


USAGES = ["one", "shared", "or_other", "search", "unused", "multi+rank", "in-repeat"]


def _usage_rows(usage, list_name, qlabel):
    lab = dict(qlabel)
    if usage == "one":
        return [{"type": f"select_one {list_name}", "name": "s1", **lab}]
    if usage == "shared":
        return [{"type": f"select_one {list_name}", "name": "s1", **lab},
                {"type": f"select_multiple {list_name}", "name": "s2", **lab, "choice_filter": "true()"}]
    if usage == "or_other":
        return [{"type": f"select_one {list_name} or_other", "name": "s1", **lab},
                {"type": f"select_multiple {list_name} or_other", "name": "s2", **lab}]
    if usage == "search":
        return [{"type": f"select_one {list_name}", "name": "s1", **lab, "appearance": "search('places')"}]
    if usage == "unused":
        return [{"type": "text", "name": "s1", **lab}]
    if usage == "multi+rank":
        return [{"type": f"select_multiple {list_name}", "name": "s1", **lab, "parameters": "randomize=true"},
                {"type": f"rank {list_name}", "name": "s2", **lab}]
    if usage == "in-repeat":
        return [{"type": "begin repeat", "name": "r1", **lab},
                {"type": "begin group", "name": "g1"},
                {"type": f"select_one {list_name}", "name": "s1", **lab},
                {"type": "end group"}, {"type": "end repeat"},
                {"type": f"select_one {list_name}", "name": "s2", **lab}]
    raise ValueError(usage)


def fam_choices(pairs, n_choices, usages, medias, list_names=("l", "l.v2")):
    """A choice list with every per-choice sparse label fill over {unsuffixed, A, B} (including NO label),
    optional media on one choice, under every way of consuming the list."""
    out = []
    for (a, b) in pairs:
        slots = (None, a, b)
        fills = list(_subsets(slots, nonempty=False))
        for combo in itertools.product(fills, repeat=n_choices):
            if not any(combo):
                continue
            for mi, media in enumerate(medias(a, b)):
                for usage in usages:
                    for ln in list_names:
                        qlabel = {"label": "S"} if not any(l for f in combo for l in f) else {_hdr("label", a): "S-a"}
                        rows = [Q0, *_usage_rows(usage, ln, qlabel)]
                        ch = _choice_rows(ln, combo, media)
                        out.append(_form(f"ch[{a}|{b}|{combo}|m{mi}|{usage}|{ln}]", rows, ch))
    return out


def _medias_small(a, b):
    return [None, {0: [("image", None)]}, {1: [("audio", b)]}]


def _medias_one(a, b):
    return [None]


def fam_defaults(pairs):
    """Default-language marking: every configuration x language pair x where the unsuffixed text/media lives."""
    out = []
    for (a, b) in pairs:
        for ci, (st, kw) in enumerate(_default_configs(a, b)):
            for shape in range(6):
                if shape == 0:
                    rows = [_question_row("q1", {"label": (a, b)})]
                elif shape == 1:
                    rows = [_question_row("q1", {"label": (a,), "hint": (b,)})]
                elif shape == 2:
                    rows = [_question_row("q1", {"label": (None,), "image": (None,)}),
                            _question_row("q2", {"label": (a,)})]
                elif shape == 3:
                    rows = [_question_row("q1", {"label": (None, a), "hint": (None,), "guidance_hint": (b,)})]
                elif shape == 4:
                    rows = [_question_row("q1", {"label": (a,), "constraint_message": (None, b)})]
                else:
                    rows = [{"type": "select_one l", "name": "q1", _hdr("label", a): "S"}]
                ch = _choice_rows("l", [(a,), (b,), (None,)]) if shape == 5 else None
                out.append(_form(f"df[{a}|{b}|cfg{ci}|shape{shape}]", rows, ch, settings=st, kwargs=kw))
    return out


def fam_random(rnd, n):
    """Bigger random mixes: 3 languages, nested repeat > group > repeat, shared lists, search, or_other."""
    out = []
    pools = [("English", "French", "Swahili"), ("English", "english", "ENGLISH"), ("A", "B", "default"),
             ("en", "fr", "Default")]
    for i in range(n):
        langs = rnd.choice(pools)
        slots = (None, *langs)
        all_fills = list(_subsets(slots, nonempty=False))

        def fill(nonempty=False):
            f = rnd.choice(all_fills)
            while nonempty and not f:
                f = rnd.choice(all_fills)
            return f

        rows = [Q0]
        opened = []
        lists = ["la", "lb.x"]
        used_search = set()
        for j in range(rnd.randint(3, 8)):
            x = rnd.random()
            nm = f"n{j}"
            if x < 0.25 and len(opened) < 3:
                kind = rnd.choice(["group", "repeat"])
                r = {"type": f"begin {kind}", "name": nm}
                for lang in fill():
                    r[_hdr("label", lang)] = _txt(nm, "label", lang, False)
                rows.append(r)
                opened.append(kind)
                rows.append(_question_row(nm + "q", {"label": fill(True)}))
            elif x < 0.35 and opened:
                rows.append({"type": f"end {opened.pop()}"})
            elif x < 0.6:
                ln = rnd.choice(lists)
                sel = rnd.choice(["select_one", "select_multiple", "rank"])
                r = _question_row(nm, {"label": fill(True), "hint": fill()}, qtype=f"{sel} {ln}")
                y = rnd.random()
                if y < 0.15 and sel != "rank" and ln not in used_search:
                    r["type"] += " or_other"
                elif y < 0.3 and sel != "rank" and ln == "la":
                    r["appearance"] = "search('f')"
                    used_search.add(ln)
                rows.append(r)
            else:
                ks = rnd.sample(KINDS, rnd.choice([1, 2, 3]))
                fills = {k: fill() for k in ks}
                fills = {k: f for k, f in fills.items() if f}
                if not any(k in fills for k in ("label", "hint", "image", "audio", "video")):
                    fills["label"] = fill(True)
                rows.append(_question_row(nm, fills, dyn=rnd.random() < 0.25))
        while opened:
            rows.append({"type": f"end {opened.pop()}"})
        ch = []
        for ln in lists:
            n = rnd.randint(1, 4)
            media = {rnd.randrange(n): [(rnd.choice(MEDIA_KINDS[:3]), rnd.choice(slots))]} if rnd.random() < 0.3 else None
            ch += _choice_rows(ln, [fill() for _ in range(n)], media, dyn=rnd.random() < 0.15)
        st, kw = rnd.choice(_default_configs(langs[0], langs[1]))
        out.append(_form(f"rnd[{i}]", rows, ch, settings=st, kwargs=kw))
    return out


def fam_kind_words_in_names():
    """Element names that contain the words itext ids are built from (label, hint, guidance_hint, constraintMsg ...):
    ids are <path>:<kind>, so a name containing a kind word must not confuse reference and entry side."""
    out = []
    for word in ("guidance_hint", "hint", "label", "jr_constraintMsg", "guidance_hint_q", "x_guidance_hint", "image"):
        for wrap in (None, "group", "repeat"):
            rows = [f"| | text | {word} | L en | L fr | H en | H fr | G en | G fr |"]
            if wrap:
                rows = [f"| | begin {wrap} | {word}_{wrap[0]} | W en | W fr | | | | |"] + rows + [f"| | end {wrap} | | | | | | | |"]
            md = ("| survey |\n| | type | name | label::English (en) | label::French (fr) | hint::English (en) | hint::French (fr) "
                  "| guidance_hint::English (en) | guidance_hint::French (fr) |\n" + "\n".join(rows) + "\n")
            out.append(Case(f"kindword[{word}|{wrap}]", md=md, origin="C07 family: kind words in names"))
    return out


# -- several choice lists in ONE form (round 3): the quantifier speaks of "choice lists shared by several selects and
# search() selects" and "any sparse pattern ... on choices".  The families above only ever build one list per form
# (or two lists whose rows are all distinct, with search() on one of them), so nothing exercised what a list's
# references look like when ANOTHER list of the same form holds the very same rows, needs itext for a different
# reason (or not at all), and is consumed in a different way / earlier or later in document order.

COMMON_ROWS = [("yes", "Yes"), ("no", "No"), ("dk", "Don't know"), ("na", "N/A")]

# why a list needs itext (source condition on ONE extra row of the list); "none"/"plain" lists need none.
LIST_REASONS = ["none", "plain", "image", "audio", "lang-label", "dyn-label", "lang-image", "lang-only-label"]


def _reason_row(reason, lang="French"):
    """The extra row of a list; same name/label in every list, so that rows differ only by the reason cell."""
    if reason == "none":
        return None
    r = {"name": "ex", "label": "Extra"}
    if reason == "image":
        r["image"] = "ex.png"
    elif reason == "audio":
        r["audio"] = "ex.mp3"
    elif reason == "lang-label":
        r[_hdr("label", lang)] = "Extra tr"
    elif reason == "lang-only-label":
        del r["label"]
        r[_hdr("label", lang)] = "Extra tr"
    elif reason == "dyn-label":
        r["label"] = "Extra ${q0}"
    elif reason == "lang-image":
        r[_hdr("image", lang)] = "ex_tr.png"
    elif reason != "plain":
        raise ValueError(reason)
    return r


def _multi_list_rows(specs, n_common=2, lang="French"):
    """specs: [(list_name, reason, extra_first)] -> choices rows. Every list holds the same all-plain common rows
    (identical cells in identical column order) plus its reason row, before or after them (shifts the indices)."""
    rows = []
    for ln, reason, extra_first in specs:
        common = [{"list_name": ln, "name": n, "label": l} for n, l in COMMON_ROWS[:n_common]]
        ex = _reason_row(reason, lang)
        ex = [{"list_name": ln, **ex}] if ex else []
        rows += (ex + common) if extra_first else (common + ex)
    return rows


SELECT_USES = ["search", "search-multi", "plain", "plain-twice", "search-twice"]


def _select_rows(k, ln, use, qlabel):
    s1 = {"type": f"select_one {ln}", "name": f"s{k}", **qlabel}
    if use == "plain":
        return [s1]
    if use == "search":
        return [{**s1, "appearance": f"search('f{k}')"}]
    if use == "search-multi":
        return [{**s1, "type": f"select_multiple {ln}", "appearance": f"minimal search('f{k}')"}]
    if use == "plain-twice":
        return [s1, {"type": f"select_multiple {ln}", "name": f"s{k}b", **qlabel}]
    if use == "search-twice":
        return [{**s1, "appearance": f"search('f{k}')"},
                {"type": f"select_one {ln}", "name": f"s{k}b", **qlabel, "appearance": f"search('g{k}', 'matches', 'n', ${{q0}})"}]
    raise ValueError(use)


def _multi_list_form(name, specs, uses, order, n_common=2, lang="French", qlabel=None, wrap=None, settings=None):
    """specs[k] = (list_name, reason, extra_first); uses[k] in SELECT_USES; order = document order of the selects."""
    qlabel = qlabel or {"label": "S"}
    rows = [Q0]
    for pos, k in enumerate(order):
        sel = _select_rows(k, specs[k][0], uses[k], qlabel)
        if wrap and pos == wrap[1]:
            sel = [{"type": f"begin {wrap[0]}", "name": f"w{k}", **qlabel}, *sel, {"type": f"end {wrap[0]}"}]
        rows += sel
    return _form(name, rows, _multi_list_rows(specs, n_common, lang), settings=settings)


MULTI_LIST_NAMES = ("visit", "yn", "yn.b", "v")


def fam_lists_sharing_rows(reasons, uses, extra_firsts, n_lists=2, qlabels=(None,), wraps=(None,)):
    """Small-scope exhaustive: n lists with identical common rows x why each list needs itext x how each list is
    consumed x document order of the selects x index shift of the common rows."""
    out = []
    names = MULTI_LIST_NAMES[:n_lists]
    for rs in itertools.product(reasons, repeat=n_lists):
        for us in itertools.product(uses, repeat=n_lists):
            for efs in extra_firsts:
                specs = [(names[k], rs[k], efs[k % len(efs)]) for k in range(n_lists)]
                for order in itertools.permutations(range(n_lists)):
                    for qi, ql in enumerate(qlabels):
                        for wrap in wraps:
                            out.append(_multi_list_form(
                                f"ml[{'|'.join(rs)}|{'|'.join(us)}|ef{efs}|ord{order}|ql{qi}|{wrap}]",
                                specs, us, order, qlabel=ql, wrap=wrap))
    return out


def fam_random_lists_sharing_rows(rnd, n):
    """2-4 lists drawn from a pool of common rows (partly overlapping, any position), random reasons, uses, languages,
    nesting, and default-language settings."""
    out = []
    for i in range(n):
        lang = rnd.choice(["French", "English (en)", "default", "fr"])
        nl = rnd.randint(2, 4)
        names = rnd.sample(MULTI_LIST_NAMES, nl)
        ch = []
        for ln in names:
            common = [{"list_name": ln, "name": nm, "label": lb}
                      for nm, lb in rnd.sample(COMMON_ROWS, rnd.randint(1, len(COMMON_ROWS)))]
            if rnd.random() < 0.5:
                common.sort(key=lambda r: [c[0] for c in COMMON_ROWS].index(r["name"]))
            for reason in rnd.sample(LIST_REASONS[1:], rnd.choice([0, 0, 1, 1, 2])):
                ex = {"list_name": ln, **_reason_row(reason, lang)}
                ex["name"] = f"ex_{reason.replace('-', '_')}"
                common.insert(rnd.randint(0, len(common)), ex)
            ch += common
        ql = rnd.choice([{"label": "S"}, {_hdr("label", lang): "S tr"}, {"label": "S", _hdr("hint", lang): "H tr"}])
        rows = [Q0]
        order = list(range(nl))
        rnd.shuffle(order)
        opened = []
        for k in order:
            if rnd.random() < 0.25 and len(opened) < 2:
                kind = rnd.choice(["group", "repeat"])
                rows.append({"type": f"begin {kind}", "name": f"w{k}", **ql})
                opened.append(kind)
            rows += _select_rows(k, names[k], rnd.choice(SELECT_USES), ql)
            if opened and rnd.random() < 0.5:
                rows.append({"type": f"end {opened.pop()}"})
        while opened:
            rows.append({"type": f"end {opened.pop()}"})
        st = rnd.choice([None, None, {"default_language": lang}, {"default_language": "Klingon"}])
        out.append(_form(f"mlr[{i}]", rows, ch, settings=st))
    return out


def cases(tier, seed):
    rnd = random.Random(seed * 7919 + 7)
    thorough = tier == "thorough"
    out = []

    def lp_quick(a, b):
        return [(), (None,), (a, b)]

    def lp_full(a, b):
        return [(), (None,), (a,), (a, b), (None, b)]

    one_cfg = lambda a, b: [(None, None)]  # noqa: E731
    two_cfg = lambda a, b: [(None, None), ({"default_language": a}, None)]  # noqa: E731

    if thorough:
        out += fam_question_kinds(LANG_PAIRS, lp_full, (False, True), two_cfg)
    else:
        out += fam_question_kinds(LANG_PAIRS[:1], lp_quick, (False, True), one_cfg)
        out += fam_question_kinds(LANG_PAIRS[1:3], lambda a, b: [(), (a, b)], (True,), one_cfg)
    out += fam_defaults(LANG_PAIRS)
    out += fam_kind_words_in_names()
    if thorough:
        out += fam_choices(LANG_PAIRS[:2], 2, USAGES, _medias_small)
        out += fam_choices(LANG_PAIRS[:1], 3, ["one", "or_other", "search"], _medias_one, list_names=("l",))
    else:
        out += fam_choices(LANG_PAIRS[:1], 2, ["one", "shared", "or_other", "search", "unused"], _medias_small,
                           list_names=("l",))
        out += fam_choices(LANG_PAIRS[1:2], 2, ["one"], _medias_one, list_names=("l.v2",))
    for (a, b) in LANG_PAIRS:
        out += fam_kind_pairs(a, b, rnd, 150 if thorough else 25)
    out += fam_random(rnd, 3000 if thorough else 250)

    # several lists with identical rows in one form (own generator: the families above keep their exact sequence)
    rnd2 = random.Random(seed * 7919 + 11)
    tr_q = {_hdr("label", "French"): "S tr"}
    if thorough:
        out += fam_lists_sharing_rows(LIST_REASONS, ["search", "search-multi", "plain"],
                                      [(False, False), (True, False), (False, True)])
        out += fam_lists_sharing_rows(["none", "image", "lang-label", "dyn-label"], SELECT_USES, [(False, True)],
                                      qlabels=(tr_q,), wraps=(None, ("repeat", 0), ("group", 1)))
        out += fam_lists_sharing_rows(["none", "image", "lang-label"], ["search", "plain"], [(False, True, False)],
                                      n_lists=3)
    else:
        out += fam_lists_sharing_rows(["none", "image", "audio", "lang-label", "dyn-label"], ["search", "plain"],
                                      [(False, False), (True, False)])
        out += fam_lists_sharing_rows(["plain", "lang-image", "lang-only-label"], ["search", "search-twice"],
                                      [(False, True)], qlabels=(tr_q,))
        out += fam_lists_sharing_rows(["none", "image", "lang-label"], ["search"], [(False, True, False)], n_lists=3)
    out += fam_random_lists_sharing_rows(rnd2, 3000 if thorough else 300)
    return out
