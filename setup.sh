#!/bin/bash
# Builds /verif/.venv: a Python 3.12 venv layered over /venv (which has pyxform's deps) plus
# solver/contract tooling from the offline wheelhouse. Idempotent; offline.
set -e
cd "$(dirname "$0")"
VENV="$PWD/.venv"
if [ -x "$VENV/bin/python" ] && "$VENV/bin/python" -c "import z3, cvc5, deal, icontract, hypothesis, crosshair, defusedxml, openpyxl, xlrd" 2>/dev/null; then
  echo "setup: .venv already usable"; exit 0
fi
rm -rf "$VENV"
/venv/bin/python -m venv "$VENV"
SP=$("$VENV/bin/python" -c "import sysconfig; print(sysconfig.get_paths()['purelib'])")
echo "import site; site.addsitedir('/venv/lib/python3.12/site-packages')" > "$SP/_verif_overlay.pth"
PIP_NO_INDEX=1 "$VENV/bin/python" -m pip install -q --no-index --find-links /opt/veriftools/wheels \
  z3-solver cvc5 crosshair-tool deal icontract hypothesis jsonschema >/dev/null
"$VENV/bin/python" -c "import z3, cvc5, deal, icontract, hypothesis, crosshair, defusedxml, openpyxl, xlrd; print('setup: ok, z3', z3.get_version_string())"
