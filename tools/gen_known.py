#!/usr/bin/env python3
"""Regenerates /verif/known_findings.json from /verif/fixes/*: open findings (finding.json) and repaired defects
(meta.json + commit.txt, recorded as 'fixed: property=<id> <commit> <what failed>').  Development-time only:
checks read the file, they never write it."""
import glob, json, os
V = os.path.dirname(os.path.dirname(os.path.abspath(__file__)))
findings, fixed = [], []
for d in sorted(glob.glob(os.path.join(V, "fixes", "*"))):
    name = os.path.basename(d)
    fj, mj, cj = (os.path.join(d, x) for x in ("finding.json", "meta.json", "commit.txt"))
    if os.path.exists(fj):
        f = json.load(open(fj))
        # one entry per listed key (a finding with several crash sites names each of them: anything else is still reported)
        for n, key in enumerate(f.get("keys") or [f["key"]]):
            findings.append({"id": f.get("id", name) + (f"#{n + 1}" if n else ""), "properties": f["properties"], "key": key,
                             "what": f["what"] if n == 0 else f"(same finding as {f.get('id', name)}: another crash site) " + f["what"][:300],
                             "why_not_fixed": f.get("why_not_fixed", ""), "repro": f"fixes/{name}/repro.py", "status": "open"})
    elif os.path.exists(mj) and os.path.exists(cj):
        m = json.load(open(mj)); commit = open(cj).read().strip()
        what = open(os.path.join(d, "message.txt")).readline().strip()
        for p in m["properties"]:
            fixed.append(f"fixed: property={p} {commit} {what[5:] if what.startswith('fix: ') else what}")
        findings.append({"id": name, "properties": m["properties"], "keys": m.get("keys", []), "what": what,
                         "commit": commit, "status": "fixed"})
json.dump({"note": "open entries suppress exactly the violation whose key starts with 'key' (printed as KNOWN-FINDING); "
                   "fixed entries suppress nothing", "fixed": fixed, "findings": findings},
          open(os.path.join(V, "known_findings.json"), "w"), indent=1, ensure_ascii=False)
print(len([f for f in findings if f["status"] == "open"]), "open,", len(fixed), "fixed lines")
