#!/bin/bash
# tools/adhoc_mutant.sh <file-relative-to-repo> <python-regex> <replacement> <sidecar> [filter]
# Engine self-test helper: applies one textual mutation in a scratch copy and runs the prover on it.
set -u
F=$1; PAT=$2; REP=$3; SC=$4; FILT=${5:-}
S=$(mktemp -d /tmp/verif-adhoc.XXXXXX); cp -r /repo/pyxform "$S/pyxform"
python3 - "$S/$F" "$PAT" "$REP" <<'PY'
import re,sys
p,pat,rep=sys.argv[1:4]; s=open(p).read(); s2,n=re.subn(pat,rep,s,count=1)
assert n==1, "pattern not found"; open(p,'w').write(s2)
PY
cd /verif && VERIF_REPO="$S" PYTHONPATH="/verif:$S" .venv/bin/python -m pyvc.run "$SC" $FILT 2>&1 | grep -v WARNING | cut -c1-260 | tail -8
rm -rf "$S"
