#!/usr/bin/env python3
"""tools/confirm_mutant.py <Cxx> <out-dir> <new-id> — independently confirm a sub-agent's property-breaking change and
store it as /verif/seeded/<new-id>/ (patch.diff, demo.py, notes.md, meta.json).  Confirms in a fresh scratch worktree:
patch applies to HEAD, baseline 626/626 with the patch, demo exits 0 without and 1 with the patch."""
import json, os, shutil, subprocess, sys, tempfile
V = os.path.dirname(os.path.dirname(os.path.abspath(__file__)))
prop, out, new = sys.argv[1:4]
for f in ("patch.diff", "demo.py", "notes.md"):
    if not os.path.exists(os.path.join(out, f)):
        print(new, "MISSING", f); sys.exit(1)
wt = tempfile.mkdtemp(prefix="verif-confirm."); os.rmdir(wt)
subprocess.run(["git", "-C", "/repo", "worktree", "add", "-q", "--detach", wt, "HEAD"], check=True)
res = {}
try:
    env = dict(os.environ, PYTHONPATH=wt, PYTHONDONTWRITEBYTECODE="1")
    demo = os.path.join(out, "demo.py")
    src = open(demo).read().replace(f"/tmp/mut6/{prop}-m6-out", out).replace(f"/tmp/mut6/{prop}-m6", wt).replace(f"/tmp/mut4/{prop}-out", out).replace(f"/tmp/mut4/{prop}", wt).replace(f"/tmp/mut3/{prop}-out", out).replace(f"/tmp/mut3/{prop}", wt).replace(f"/tmp/mut/{prop}", wt)   # demos may hard-code their worktree path
    d2 = os.path.join(tempfile.gettempdir(), f"demo_{new}.py"); open(d2, "w").write(src)
    r0 = subprocess.run(["/venv/bin/python", d2], env=env, capture_output=True, text=True, timeout=900, cwd=wt)
    res["demo_exit_without_patch"] = r0.returncode
    a = subprocess.run(["git", "-C", wt, "apply", os.path.join(out, "patch.diff")], capture_output=True, text=True)
    res["patch_applies_to_clean_checkout"] = a.returncode == 0
    if a.returncode == 0:
        b = subprocess.run(["python3", os.path.join(V, "tools", "baseline.py"), wt], capture_output=True, text=True)
        res["stable_baseline_626_pass_with_patch"] = b.returncode == 0
        res["baseline_line"] = b.stdout.strip().splitlines()[0] if b.stdout.strip() else ""
        r1 = subprocess.run(["/venv/bin/python", d2], env=env, capture_output=True, text=True, timeout=900, cwd=wt)
        res["demo_exit_with_patch"] = r1.returncode
        res["demo_tail_with_patch"] = (r1.stdout + r1.stderr)[-400:]
    os.unlink(d2)
finally:
    subprocess.run(["git", "-C", "/repo", "worktree", "remove", "--force", wt], capture_output=True)
ok = (res.get("patch_applies_to_clean_checkout") and res.get("stable_baseline_626_pass_with_patch")
      and res.get("demo_exit_without_patch") == 0 and res.get("demo_exit_with_patch") == 1)
print(new, "CONFIRMED" if ok else "REJECTED", {k: v for k, v in res.items() if k != "demo_tail_with_patch"})
if ok:
    dst = os.path.join(V, "seeded", new); os.makedirs(dst, exist_ok=True)
    for f in ("patch.diff", "demo.py", "notes.md"):
        shutil.copy(os.path.join(out, f), os.path.join(dst, f))
    files = sorted({l[6:].strip() for l in open(os.path.join(dst, "patch.diff")) if l.startswith("+++ b/")})
    json.dump({"id": new, "property": prop, "files": files,
               "needs_to_manifest": "see notes.md (written by the independent sub-agent that produced the change)",
               "origin": "independent sub-agent given only the property text and its own scratch worktree of /repo HEAD (after the fix: commits)",
               "confirmed": {**res, "how": "tools/confirm_mutant.py run by the main session in a fresh scratch worktree"},
               "detected_by": None}, open(os.path.join(dst, "meta.json"), "w"), indent=1)
sys.exit(0 if ok else 1)
