"""tools/dump_ob.py <sidecar> <substring-of-oid>  — print the SMT text of matching obligations (development aid)."""
import sys, os
sys.path.insert(0, os.environ.get("VERIF_REPO", "/repo"))
from pyvc import contracts, extract, solve
import glob
reg = contracts.Registry()
for sc in sorted(glob.glob("/verif/contracts/*.py")):
    if not os.path.basename(sc).startswith("native_"):
        reg.load_sidecar(sc)
reg.link()
want = sys.argv[2]
for c in reg.contracts.values():
    if c.trusted or os.path.basename(sys.argv[1]).replace(".py", "") not in c.module:
        continue
    v = contracts.Verifier(c.module, vars(extract.import_module(c.module)), reg)
    try:
        v.verify(c)
    except Exception as e:
        print("skip", c.fid, e); continue
    for ob in v.obligations:
        if want in ob.oid:
            print(";;", ob.oid); print(solve.to_smt2(ob))
