#!/usr/bin/env python3
"""Regenerates MANIFEST.json from props/claims.json (one entry per claimed property)."""
import json
import os

V = os.path.dirname(os.path.dirname(os.path.abspath(__file__)))
claims = json.load(open(os.path.join(V, "props", "claims.json")))
props = [json.loads(l) for l in open(os.path.join(V, "properties.jsonl"))]
baseline = json.load(open("/root/.vp/BASELINE.json"))["cmd"] if os.path.exists("/root/.vp/BASELINE.json") else \
    "cd /repo && /venv/bin/python -m pytest -ra -q -p no:cacheprovider --timeout=900 --continue-on-collection-errors --junitxml=<file>"

checks, na = [], []
for p in props:
    pid = p["id"]
    c = claims.get(pid)
    if not c or not c.get("claimed"):
        na.append({"property_id": pid, "reason": (c or {}).get("reason", "no check built yet for this property")})
        continue
    checks.append({
        "property_id": pid,
        "quick_cmd": f"./check {pid} --tier quick",
        "thorough_cmd": f"./check {pid} --tier thorough",
        "evidence_file": f"evidence/{pid}.json",
        "replay_cmd_template": "./check --replay {path}",
        "engine": "pyvc",
        "level_claimed": {"category": c["category"], "text": c["text"], "design_ref": c.get("design_ref", f"DESIGN.md §4 {pid}")},
        "level_note": c["note"],
        "technique": c["technique"],
    })

m = {
    "version": 1,
    "setup_cmd": "./setup.sh",
    "hooks": {
        "guard": "PYXFORM_VERIF",
        "enable": "no hook is needed: contracts are sidecar files under /verif/contracts and the checks read /repo's working tree directly (PYXFORM_VERIF is unused)",
        "baseline_off_cmd": baseline,
        "source_commits": [],
        "add_only": True,
    },
    "engines": [{
        "name": "pyvc",
        "path": "pyvc/",
        "serves_properties": [c["property_id"] for c in checks],
        "kind_free_text": "contract-based deductive verifier for a Python subset written for this task: AST of the real functions "
                          "in /repo + sidecar contracts -> verification conditions (path-splitting symbolic execution, loop "
                          "invariants, modular calls) -> z3 5.1 / cvc5 1.0.3; native replay and bounded contract search as stand-ins",
    }],
    "checks": checks,
    "not_applicable": na,
    "notes": "See DESIGN.md. Exit 0 held / 1 VIOLATION / 3 checker error. Known findings in known_findings.json.",
}
json.dump(m, open(os.path.join(V, "MANIFEST.json"), "w"), indent=1)
print(f"MANIFEST.json: {len(checks)} checks, {len(na)} not_applicable")
