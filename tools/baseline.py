#!/usr/bin/env python3
"""tools/baseline.py [repo_dir]  — run the pinned baseline suite in repo_dir (default /repo) and check that every
test of BASELINE.json's stable_pass list passes.  Exit 0 iff all 626 pass."""
import json, os, subprocess, sys, tempfile
import xml.etree.ElementTree as ET

repo = os.path.abspath(sys.argv[1]) if len(sys.argv) > 1 else "/repo"
stable = set(json.load(open("/root/.vp/BASELINE.json"))["stable_pass"])
fd, jx = tempfile.mkstemp(suffix=".xml"); os.close(fd)
env = dict(os.environ, PYTHONDONTWRITEBYTECODE="1")
env.pop("PYTHONPATH", None)
subprocess.run(["/venv/bin/python", "-m", "pytest", "-q", "-p", "no:cacheprovider", "--timeout=900",
                "--continue-on-collection-errors", f"--junitxml={jx}"], cwd=repo, env=env,
               stdout=subprocess.DEVNULL, stderr=subprocess.DEVNULL)
passed = set()
for tc in ET.parse(jx).getroot().iter("testcase"):
    if not any(ch.tag in ("failure", "error", "skipped") for ch in tc):
        passed.add(f"{tc.get('classname')}::{tc.get('name')}")
os.unlink(jx)
missing = sorted(stable - passed)
print(f"baseline: {len(stable & passed)}/{len(stable)} stable tests pass in {repo}")
for m in missing[:20]:
    print("  NOT PASSING:", m)
sys.exit(1 if missing else 0)
