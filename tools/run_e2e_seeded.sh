#!/bin/bash
# tools/run_e2e_seeded.sh <seeded-id> [Cxx]  — run only the e2e oracle against a seeded change (scratch worktree)
set -u
ID=$1; V=$(cd "$(dirname "$0")/.." && pwd)
P=${2:-$(python3 -c "import json;print(json.load(open('$V/seeded/$ID/meta.json'))['property'])")}
WT=$(mktemp -d /tmp/verif-seeded.XXXXXX)
git -C /repo worktree add -q --detach "$WT" HEAD || exit 2
git -C "$WT" apply "$V/seeded/$ID/patch.diff" || { echo "patch does not apply"; git -C /repo worktree remove --force "$WT"; exit 2; }
cd "$V" && VERIF_REPO="$WT" PYTHONPATH="$V:$WT" PYTHONDONTWRITEBYTECODE=1 .venv/bin/python -m bounded.e2e $P --tier ${TIER:-quick} 2>&1 | grep -v "WARNING" | cut -c1-400 | tail -15
echo "exit=${PIPESTATUS[0]} seeded=$ID property=$P"
git -C /repo worktree remove --force "$WT"
