#!/bin/bash
# tools/run_monitor_seeded.sh <seeded-id>...  — run the runtime contract monitor against seeded changes (scratch worktree)
set -u
V=$(cd "$(dirname "$0")/.." && pwd)
for ID in "$@"; do
  WT=$(mktemp -d /tmp/verif-seeded.XXXXXX)
  git -C /repo worktree add -q --detach "$WT" HEAD || exit 2
  git -C "$WT" apply --3way "$V/seeded/$ID/patch.diff" 2>/dev/null || git -C "$WT" apply "$V/seeded/$ID/patch.diff" || { echo "$ID patch does not apply"; git -C /repo worktree remove --force "$WT"; continue; }
  n=$(cd "$V" && VERIF_REPO="$WT" PYTHONPATH="$V:$WT" PYTHONDONTWRITEBYTECODE=1 PYTHONHASHSEED=0 .venv/bin/python -m pyvc.monitor 2>&1 | grep MONITOR-FAIL | awk -F'"clause"' '{print substr($1,30,70) substr($2,1,90)}' | sort | uniq -c | sort -rn | head -3)
  echo "== $ID: ${n:-clean}"
  git -C /repo worktree remove --force "$WT"
done
