#!/bin/bash
# tools/run_seeded.sh <seeded-id> [Cxx ...]   — run checks against a seeded change in a scratch worktree
# (never touches /repo's working tree; evidence/replays of the scratch run go to a temp dir)
set -u
ID=$1; shift
V=$(cd "$(dirname "$0")/.." && pwd)
PROPS="$@"; [ -z "$PROPS" ] && PROPS=$(python3 -c "import json;print(json.load(open('$V/seeded/$ID/meta.json'))['property'])")
WT=$(mktemp -d /tmp/verif-seeded.XXXXXX); OUT=$(mktemp -d /tmp/verif-out.XXXXXX)
git -C /repo worktree add -q --detach "$WT" HEAD || exit 2
git -C "$WT" apply "$V/seeded/$ID/patch.diff" || { echo "patch does not apply"; exit 2; }
for P in $PROPS; do
  VERIF_REPO="$WT" VERIF_OUT="$OUT" "$V/check" $P --tier ${TIER:-quick} 2>&1 | grep -E "^(VIOLATION|KNOWN|UNDECIDED|SUMMARY|CHECKER)" | cut -c1-260
  echo "exit=${PIPESTATUS[0]} seeded=$ID property=$P"
done
git -C /repo worktree remove --force "$WT"; rm -rf "$OUT"
