#!/bin/bash
# tools/run_kernel_seeded.sh <seeded-id> <sidecar> [filter]  — run the prover on one sidecar against a seeded change
set -u
ID=$1; SC=$2; FILT=${3:-}; V=$(cd "$(dirname "$0")/.." && pwd)
WT=$(mktemp -d /tmp/verif-seeded.XXXXXX)
git -C /repo worktree add -q --detach "$WT" HEAD || exit 2
git -C "$WT" apply --3way "$V/seeded/$ID/patch.diff" 2>/dev/null || git -C "$WT" apply "$V/seeded/$ID/patch.diff" || { echo "patch does not apply"; git -C /repo worktree remove --force "$WT"; exit 2; }
cd "$V" && VERIF_REPO="$WT" PYTHONPATH="$V:$WT" PYTHONDONTWRITEBYTECODE=1 .venv/bin/python -m pyvc.run "$SC" $FILT 2>&1 | grep -v WARNING | grep "FAIL\|obligations\|unsupp\|mismatch" | cut -c1-200 | tail -8
git -C /repo worktree remove --force "$WT"
