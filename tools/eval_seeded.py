#!/usr/bin/env python3
"""tools/eval_seeded.py [id-substring] — run the owning property's quick check against every seeded change
(scratch worktree of /repo HEAD, evidence/replays to a temp dir) and record what caught it in seeded/<id>/meta.json
and seeded/RESULTS.json.  Never touches /repo's working tree."""
import json, os, re, shutil, subprocess, sys, tempfile
from concurrent.futures import ThreadPoolExecutor

V = os.path.dirname(os.path.dirname(os.path.abspath(__file__)))
flt = sys.argv[1] if len(sys.argv) > 1 else ""
ids = sorted(d for d in os.listdir(os.path.join(V, "seeded")) if os.path.isdir(os.path.join(V, "seeded", d)) and flt in d)


def run(i):
    meta = json.load(open(os.path.join(V, "seeded", i, "meta.json")))
    prop = meta["property"]
    wt = tempfile.mkdtemp(prefix="verif-seeded.")
    out = tempfile.mkdtemp(prefix="verif-out.")
    os.rmdir(wt)
    r = {"id": i, "property": prop}
    try:
        subprocess.run(["git", "-C", "/repo", "worktree", "add", "-q", "--detach", wt, "HEAD"], check=True, capture_output=True)
        p = os.path.join(V, "seeded", i, "patch.diff")
        a = subprocess.run(["git", "-C", wt, "apply", "--3way", p], capture_output=True, text=True)
        if a.returncode != 0:
            a = subprocess.run(["git", "-C", wt, "apply", p], capture_output=True, text=True)
        if a.returncode != 0:
            r["status"] = "patch-does-not-apply"
            return r
        env = dict(os.environ, VERIF_REPO=wt, VERIF_OUT=out)
        c = subprocess.run([os.path.join(V, "check"), prop, "--tier", "quick"], env=env, capture_output=True, text=True, timeout=3000)
        lines = [l for l in c.stdout.splitlines() if l.startswith(("VIOLATION", "UNDECIDED", "SUMMARY", "CHECKER", "KNOWN"))]
        r["exit"] = c.returncode
        r["violations"] = [l for l in lines if l.startswith("VIOLATION")][:8]
        r["undecided"] = [l[:200] for l in lines if l.startswith("UNDECIDED")][:5]
        r["summary"] = next((l for l in lines if l.startswith("SUMMARY")), "")
        kinds = set()
        for l in r["violations"]:
            m = re.search(r"replay=replays/\S+?-(e2e|pyxform|lemma)", l)
            tgt = l.split("replay=")[1]
            kinds.add("runtime-monitor" if "-monitor-" in tgt else "e2e-oracle" if "-e2e-" in tgt else ("native-contract" if tgt.rstrip().endswith("-native.json") else "deductive-obligation"))
        r["detected_by"] = sorted(kinds)
        r["status"] = "caught" if c.returncode == 1 else ("missed" if c.returncode == 0 else f"checker-exit-{c.returncode}")
    except Exception as e:  # noqa: BLE001
        r["status"] = f"error: {e}"
    finally:
        subprocess.run(["git", "-C", "/repo", "worktree", "remove", "--force", wt], capture_output=True)
        shutil.rmtree(out, ignore_errors=True)
    return r


res = []
with ThreadPoolExecutor(max_workers=3) as ex:
    for r in ex.map(run, ids):
        print(r["id"], r["status"], r.get("detected_by"), flush=True)
        res.append(r)
        mp = os.path.join(V, "seeded", r["id"], "meta.json")
        m = json.load(open(mp))
        m["detected_by"] = {"status": r["status"], "by": r.get("detected_by"), "violations": r.get("violations", [])[:4],
                            "undecided": r.get("undecided", [])}
        json.dump(m, open(mp, "w"), indent=1)
allp = os.path.join(V, "seeded", "RESULTS.json")
old = {x["id"]: x for x in (json.load(open(allp)) if os.path.exists(allp) else [])}
old.update({x["id"]: x for x in res})
json.dump(sorted(old.values(), key=lambda x: x["id"]), open(allp, "w"), indent=1)
