#!/bin/bash
# tools/apply_fix.sh <name>...  — apply /verif/fixes/<name>/patch.diff to /repo as one "fix:" commit each
set -e
for N in "$@"; do
  D=/verif/fixes/$N
  [ -f "$D/commit.txt" ] && { echo "$N: already applied ($(cat $D/commit.txt))"; continue; }
  git -C /repo apply --3way "$D/patch.diff" 2>/dev/null || git -C /repo apply "$D/patch.diff"
  git -C /repo add -A pyxform
  git -C /repo commit -q -F "$D/message.txt"
  git -C /repo rev-parse --short HEAD > "$D/commit.txt"
  echo "$N: $(cat $D/commit.txt) $(head -1 $D/message.txt)"
done
