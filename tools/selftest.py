#!/usr/bin/env python3
"""Engine self-test: textual mutations of kernel functions must make the owning check exit 1;
behaviour-preserving edits must keep it at exit 0.  Scratch copies under $TMPDIR, removed afterwards.
   tools/selftest.py [substring-filter]"""
import json, os, re, shutil, subprocess, sys, tempfile
from concurrent.futures import ThreadPoolExecutor

V = os.path.dirname(os.path.dirname(os.path.abspath(__file__)))
MUTS = json.load(open(os.path.join(V, "tools", "selftest_mutants.json")))


def run_one(m):
    s = tempfile.mkdtemp(prefix="verif-selftest.")
    out = tempfile.mkdtemp(prefix="verif-selftest-out.")
    try:
        shutil.copytree("/repo/pyxform", os.path.join(s, "pyxform"))
        p = os.path.join(s, m["file"])
        src = open(p).read()
        new, n = re.subn(m["pattern"], m["replacement"], src, count=1, flags=re.S)
        if n != 1:
            return m, None, "pattern not found"
        open(p, "w").write(new)
        env = dict(os.environ, VERIF_REPO=s, VERIF_OUT=out)
        r = subprocess.run([os.path.join(V, "check"), m["property"], "--tier", "quick"], env=env, capture_output=True, text=True, timeout=1200)
        lines = [l for l in r.stdout.splitlines() if l.startswith(("VIOLATION", "UNDECIDED", "SUMMARY", "CHECKER", "KNOWN"))]
        return m, r.returncode, "\n    ".join(l[:200] for l in lines[-4:])
    finally:
        shutil.rmtree(s, ignore_errors=True)
        shutil.rmtree(out, ignore_errors=True)


def main():
    flt = sys.argv[1] if len(sys.argv) > 1 else ""
    muts = [m for m in MUTS if flt in m["name"]]
    bad = 0
    with ThreadPoolExecutor(max_workers=4) as ex:
        for m, rc, msg in ex.map(run_one, muts):
            want = m.get("expect", 1)
            ok = rc == want
            bad += 0 if ok else 1
            print(f"{'ok  ' if ok else 'FAIL'} {m['name']}: exit={rc} want={want}\n    {msg}")
    print(f"selftest: {len(muts) - bad}/{len(muts)} as expected")
    sys.exit(1 if bad else 0)


if __name__ == "__main__":
    main()
