#!/usr/bin/env python3
"""Regenerates the seeded-change table of DESIGN.md (between the SEEDED-TABLE markers) from seeded/*/meta.json."""
import glob, json, os, re
V = os.path.dirname(os.path.dirname(os.path.abspath(__file__)))
rows = []
for mp in sorted(glob.glob(os.path.join(V, "seeded", "*", "meta.json"))):
    m = json.load(open(mp))
    d = m.get("detected_by") or {}
    st = d.get("status", "not evaluated") if isinstance(d, dict) else str(d)
    by = ", ".join(d.get("by") or []) if isinstance(d, dict) else ""
    site = ", ".join(os.path.basename(f) for f in m.get("files", []))
    first = ""
    np_ = os.path.join(os.path.dirname(mp), "notes.md")
    if os.path.exists(np_):
        for l in open(np_):
            l = l.strip().lstrip("# ").strip()
            if l:
                first = l[:90]
                break
    ob = ""
    for v in (d.get("violations") or []) if isinstance(d, dict) else []:
        if "-e2e-" not in v and "native" not in v:
            ob = v.split("replay=replays/")[1].split(".json")[0][4:90]
            break
    rows.append(f"| {m['id']} | {site} | {first} | {st} | {by} | {ob} |")
table = ("\n| id | file | change (first line of the author's notes) | quick check | caught by | first failing obligation |\n"
         "|---|---|---|---|---|---|\n" + "\n".join(rows) + "\n")
p = os.path.join(V, "DESIGN.md")
s = open(p).read()
s = re.sub(r"<!-- SEEDED-TABLE-BEGIN -->.*?<!-- SEEDED-TABLE-END -->", "<!-- SEEDED-TABLE-BEGIN -->" + table.replace("\\", "\\\\") + "<!-- SEEDED-TABLE-END -->", s, flags=re.S)
open(p, "w").write(s)
print(len(rows), "rows")
