# Sidecar contracts for the JSON dump of the element tree (C16): the to_json_dict overrides of
# pyxform/section.py, pyxform/survey.py and pyxform/question.py, proved against the contract of SurveyElement.to_json_dict.
MODULE = "pyxform.survey_element"

# a dumped slot value: text, a {language/attribute: text} dict, or a flag (values nested deeper — children, choices — are
# not described by these contracts; they are named by SlotDump and compared as a whole)
JV = Union[str, Dict[str, str], bool]
JDict = Dict[str, JV]
declare_class("Option", "pyxform.question.Option")
ElemJ = Obj("SurveyElement", name=str)
GroupJ = Obj("GroupedSection", name=str)
SurveyJ = Obj("Survey", name=str)
QuestionJ = Obj("Question", name=str, _qtd_defaults=Opt[Dict[str, JV]], _qtd_kwargs=Opt[Dict[str, JV]])
OptionJ = Obj("Option", name=str, extra_data=Opt[Dict[str, JV]])


@spec
def SlotNames(e: ElemJ) -> List[str]:
    """The slot table of the element's class (get_slot_names: a constant tuple per class)."""
    uninterpreted()


@spec
def SlotKept(e: ElemJ, k: str) -> bool:
    """Slot k exists on element e and its dumped value is not empty."""
    uninterpreted()


@spec
def SlotDump(e: ElemJ, k: str) -> JV:
    """The dumped value of slot k of element e (children and choices converted recursively)."""
    uninterpreted()


@contract("SurveyElement.get_slot_names")
def _() -> List[str]:
    trusted("returns the class's constant slot table; which class is not visible in a static call: assumed through SlotNames at "
            "the call sites below")
    ensures(True)


@contract("SurveyElement.to_json_dict")
def _(self: ElemJ, delete_keys: Opt[List[str]] = None) -> JDict:
    properties("C16")
    trusted("recursive dump over dynamically typed slot values (children, choices, translations): outside the prover's "
            "subset; checked by the e2e round-trip oracle only")
    may_raise(PyXFormError, when=True)
    # C16 "nothing that affects the XForm ... is lost": the dump holds every non-empty slot except the internal ones and
    # the ones the caller asks to leave out, each with the slot's dumped value
    ensures(forall_str(lambda k: (k in result) == (SlotKept(self, k) and k != "_survey_element_xpath"
                                                   and k != "extra_data"
                                                   and not (delete_keys is not None and k in some(delete_keys)))))
    ensures(forall_str(lambda k: implies(k in result, result[k] == SlotDump(self, k))))


@contract("GroupedSection.to_json_dict", module="pyxform.section")
def _(self: GroupJ, delete_keys: Opt[List[str]] = None) -> JDict:
    properties("C16")
    no_native("needs survey-element objects: exercised through the e2e round-trip oracle")
    may_raise(PyXFormError, when=True)
    # C16 "group logic ... is [not] lost": a group's dump is the element dump — bind, control, label, children and every other
    # non-empty slot, each with its own value — with only the type rewritten to "group"
    ensures(forall_str(lambda k: (k in result) == (k == "type" or (
        SlotKept(self, k) and k != "_survey_element_xpath" and k != "extra_data"
        and not (delete_keys is not None and k in some(delete_keys))))))
    ensures(forall_str(lambda k: implies(k in result and k != "type", result[k] == SlotDump(self, k))))
    ensures(result["type"] == "group")


@contract("Survey.to_json_dict", module="pyxform.survey")
def _(self: SurveyJ, delete_keys: Opt[List[str]] = None) -> JDict:
    properties("C16")
    no_native("needs survey-element objects: exercised through the e2e round-trip oracle")
    exact_filters()
    may_raise(PyXFormError, when=True)
    # C16 "settings ... [not] lost": only slots whose name starts with an underscore (run-time state: reference table,
    # translations cache ...) and the ones the caller names may be left out of the survey's dump; every other non-empty slot
    # — title, id, version, namespaces, children, choices ... — is dumped with its own value, and no key is invented
    ensures(forall_str(lambda k: implies(not k.startswith("_") and not (delete_keys is not None and k in some(delete_keys)),
                                         (k in result) == (SlotKept(self, k) and k != "extra_data"))))
    ensures(forall_str(lambda k: implies(k in result, SlotKept(self, k) and result[k] == SlotDump(self, k))))


@contract("Question.to_json_dict", module="pyxform.question")
def _(self: QuestionJ, delete_keys: Opt[List[str]] = None) -> JDict:
    properties("C16")
    no_native("needs survey-element objects: exercised through the e2e round-trip oracle")
    exact_filters()
    may_raise(PyXFormError, when=True)
    D = some(self._qtd_defaults)
    K = some(self._qtd_kwargs)
    from_table = bool(self._qtd_defaults)
    overridden = bool(self._qtd_kwargs)
    # C16 "parameters ... [not] lost": a question's dump leaves out only underscore slots, the slots whose value is the
    # type table's default for this type (the reload finds them in the table again) and the caller's keys ...
    ensures(forall_str(lambda k: implies(
        not k.startswith("_") and not (delete_keys is not None and k in some(delete_keys))
        and not (from_table and k in D) and not (overridden and k in K and bool(K[k])),
        (k in result) == (SlotKept(self, k) and k != "extra_data"))))
    # ... and what the row itself wrote over a table default is dumped again, with the row's value
    ensures(implies(overridden, forall(0, len(keys(K)), lambda j: implies(
        bool(K[keys(K)[j]]), keys(K)[j] in result and result[keys(K)[j]] == K[keys(K)[j]]))))
    # every other dumped key is a slot with its own value: nothing invented, nothing attached to another key
    ensures(forall_str(lambda k: implies(k in result and not (overridden and k in K and bool(K[k])),
                                         SlotKept(self, k) and result[k] == SlotDump(self, k))))

    @loop(0, index="i")
    def _():
        invariant(forall(0, i, lambda j: implies(bool(K[keys(K)[j]]), keys(K)[j] in result and result[keys(K)[j]] == K[keys(K)[j]])))
        invariant(forall_str(lambda k: implies(
            not k.startswith("_") and not (delete_keys is not None and k in some(delete_keys))
            and not (from_table and k in D) and not (k in K and bool(K[k])),
            (k in result) == (SlotKept(self, k) and k != "extra_data"))))
        invariant(forall_str(lambda k: implies(k in result and not (k in K and bool(K[k])),
                                               SlotKept(self, k) and result[k] == SlotDump(self, k))))


@contract("Option.to_json_dict", module="pyxform.question")
def _(self: OptionJ, delete_keys: Opt[List[str]] = None) -> JDict:
    properties("C16")
    no_native("needs survey-element objects: exercised through the e2e round-trip oracle")
    exact_filters()
    may_raise(PyXFormError, when=True)
    X = some(self.extra_data)
    has_extra = bool(self.extra_data)
    # C16 "extra choice columns ... [not] lost": the dump of a choice keeps every non-empty slot that is not run-time state
    # (name, label, media, sms_option ...) ...
    ensures(forall_str(lambda k: implies(
        not k.startswith("_") and not (delete_keys is not None and k in some(delete_keys)) and not (has_extra and k in X),
        (k in result) == (SlotKept(self, k) and k != "extra_data"))))
    # ... and every extra column of the choices sheet is dumped under its own name with its own cell value, unless a slot
    # of that name is already there (then the slot's value stands)
    ensures(implies(has_extra, forall(0, len(keys(X)), lambda j: keys(X)[j] in result and (
        result[keys(X)[j]] == X[keys(X)[j]]
        or (SlotKept(self, keys(X)[j]) and result[keys(X)[j]] == SlotDump(self, keys(X)[j]))))))
    ensures(forall_str(lambda k: implies(k in result, (SlotKept(self, k) and result[k] == SlotDump(self, k))
                                         or (has_extra and k in X and result[k] == X[k]))))

    @loop(0, index="i")
    def _():
        invariant(forall(0, i, lambda j: keys(X)[j] in result and (
            result[keys(X)[j]] == X[keys(X)[j]] or (SlotKept(self, keys(X)[j]) and result[keys(X)[j]] == SlotDump(self, keys(X)[j])))))
        invariant(forall_str(lambda k: implies(
            not k.startswith("_") and not (delete_keys is not None and k in some(delete_keys)) and not (k in X),
            (k in result) == (SlotKept(self, k) and k != "extra_data"))))
        invariant(forall_str(lambda k: implies(k in result, (SlotKept(self, k) and result[k] == SlotDump(self, k))
                                               or (k in X and result[k] == X[k]))))
