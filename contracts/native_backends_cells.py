"""Native helpers for contracts/backends_cells.py (C12 canonical text of typed cells): spec functions and generators."""
import decimal
import itertools
import math

# cell type codes of the xlrd library (xlrd documentation: XL_CELL_TEXT, XL_CELL_NUMBER, XL_CELL_DATE, XL_CELL_BOOLEAN)
BCL_XL_TEXT, BCL_XL_NUMBER, BCL_XL_DATE, BCL_XL_BOOLEAN = 1, 2, 3, 4


def bcl_is_number(value):
    """An int or a finite float (not a bool)."""
    return not isinstance(value, bool) and (isinstance(value, int) or (isinstance(value, float) and math.isfinite(value)))


def bcl_integer_text(n):
    """Decimal digits of an integer as a text format spells it: optional '-', no leading zeros, no exponent."""
    if n == 0:
        return "0"
    digits, m = [], abs(n)
    while m:
        digits.append("0123456789"[m % 10])
        m //= 10
    return ("-" if n < 0 else "") + "".join(reversed(digits))


def bcl_shortest_decimal(x):
    """Shortest decimal digit string that reads back as the float x (Python's repr has exactly those digits), written
    positionally: the way a CSV or Markdown cell spells a decimal."""
    return format(decimal.Decimal(repr(float(x))), "f")


# ------------------------------------------------------------------ generators

def _bcl_numbers():
    ints = [0, 1, -1, 2, 7, 10, -10, 100, 255, 1000, 65536, 10 ** 6, 2 ** 31, 2 ** 53, 10 ** 15, 10 ** 16, 10 ** 20, -(10 ** 21), 10 ** 22, 10 ** 23]
    out = list(ints) + [float(i) for i in ints] + [-0.0, 1e15, 1e16, 1e17, 1e21, 1e22, 123456789012345678.0, 1.7976931348623157e308]
    for k in range(-40, 260):
        for d in (8, 10, 100):
            out.append(k / d)
    out += [0.1 + 0.2, 1 / 3, 2 / 3, -1 / 3, 0.1 + 0.7, 1.1, 2.675, 99.99, 123456.789, 1234567890.1234567, 1e15 + 0.5, 4503599627370495.5,
            1 + 1e-10, 3 - 1e-10, 0.99999999999, 41.99999999999999, 1e9 + 1e-6, 0.001, 0.0001, 0.00015, 0.000123456789, 3.14159265358979, 1e-4 + 1e-9]
    return out


def _bcl_small_numbers():
    # decimals below 0.0001: kept for the end (see report)
    return [0.00001, 0.00005, 1.5e-07, -2.5e-05, 1e-10, 5e-324]


def _bcl_texts():
    toks = ["a", "b c", "\xa0", " ", "é", "1", "TRUE", "\t", "\n", "1.0"]
    seen = set()
    for n in range(1, 5):
        for combo in itertools.product(toks, repeat=n):
            s = "".join(combo)
            if s and s == s.strip() and s not in seen:
                seen.add(s)
                yield s


def _bcl_xlsx_cases():
    for v in (True, False):
        yield {"value": v}
    for v in _bcl_numbers():
        yield {"value": v}
    for s in _bcl_texts():
        yield {"value": s}
    for v in _bcl_small_numbers():
        yield {"value": v}


def _bcl_xls_cases():
    for dm in (0, 1):
        for v in (True, False, 1, 0):
            yield {"value": v, "value_type": BCL_XL_BOOLEAN, "datemode": dm}
        for v in _bcl_numbers():
            yield {"value": float(v), "value_type": BCL_XL_NUMBER, "datemode": dm}
    for s in _bcl_texts():
        yield {"value": s, "value_type": BCL_XL_TEXT, "datemode": 0}
    for v in _bcl_small_numbers():
        yield {"value": v, "value_type": BCL_XL_NUMBER, "datemode": 0}


EXHAUSTIVE = {
    "pyxform.xls2json_backends.xlsx_value_to_str": _bcl_xlsx_cases,
    "pyxform.xls2json_backends.xls_value_to_unicode": _bcl_xls_cases,
}
