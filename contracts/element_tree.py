# Sidecar contracts for the ancestor-chain walks of pyxform/survey_element.py  (C03: relative references inside repeats)
MODULE = "pyxform.survey_element"

# a survey element as a node of the element tree: an atom with a parent pointer and a type
ERef = Opaque("ERef")
declare_fields("ERef", parent=Opt[ERef], type=str)


@spec
def Depth(e: ERef) -> int:
    """Number of proper ancestors of e (the element tree is finite and acyclic: see TreeOk)."""
    uninterpreted()


@spec
def TreeOk() -> bool:
    """Type invariant of the element tree: parent pointers form a forest (every parent is one level closer to a root)."""
    inline()
    return forall_of("ERef", lambda x: Depth(x) >= 0 and (x.parent is None) == (Depth(x) == 0)
                     and implies(x.parent is not None, Depth(some(x.parent)) == Depth(x) - 1))


@spec
def Anc(e: ERef, k: int) -> Opt[ERef]:
    """The k-th ancestor of e (e itself for k = 0), None above the root."""
    if k <= 0:
        return e
    if Anc(e, k - 1) is None:
        return None
    return some(Anc(e, k - 1)).parent


@spec
def IsAnc(e: ERef, x: ERef) -> bool:
    """x is a proper ancestor of e."""
    return Depth(x) < Depth(e) and Anc(e, Depth(e) - Depth(x)) == x


@spec
def Dist(e: ERef, x: ERef) -> int:
    """Generations from e up to its ancestor x."""
    return Depth(e) - Depth(x)


@spec
def CRA(a: ERef, b: ERef, x: ERef) -> bool:
    """x is a repeat that encloses both a and b."""
    return IsAnc(a, x) and IsAnc(b, x) and x.type == "repeat"


@contract("SurveyElement.has_common_repeat_parent")
def _(self: ERef, other: ERef) -> Tuple[str, Opt[int], Opt[ERef]]:
    properties("C03")
    no_native("needs survey-element objects: exercised through the e2e oracles and the runtime monitor")
    locals(self_ancestors=Dict[ERef, int], other_ancestors=Dict[ERef, int], self_current=Opt[ERef], other_current=Opt[ERef])
    requires(TreeOk())
    near = not (self.parent is other) and not (other.parent is self)
    # immediate relations are reported as such
    ensures(implies(self.parent is other, result[0] == "Parent (other)" and result[1] == 1 and result[2] == other))
    ensures(implies(not (self.parent is other) and other.parent is self,
                    result[0] == "Parent (self)" and result[1] == 1 and result[2] == self))
    ensures(implies(near, result[0] == "Common Ancestor Repeat" or result[0] == "Unrelated"))
    # C03: "Common Ancestor Repeat" names the innermost repeat enclosing both elements, and the number of generations
    # up to it from the farther of the two ...
    ensures(implies(near and result[0] == "Common Ancestor Repeat",
                    result[2] is not None and CRA(self, other, some(result[2]))
                    and result[1] == max(Dist(self, some(result[2])), Dist(other, some(result[2])))
                    and forall_of("ERef", lambda x: implies(CRA(self, other, x), Depth(x) <= Depth(some(result[2]))))))
    # ... and "Unrelated" is answered only when no repeat encloses both
    ensures(implies(near and result[0] == "Unrelated", result[1] is None and result[2] is None
                    and forall_of("ERef", lambda x: not CRA(self, other, x))))

    @loop(0)
    def _():
        invariant(self_distance >= 0 and other_distance >= 0)
        invariant(self_current == Anc(self, self_distance) and other_current == Anc(other, other_distance))
        invariant(implies(self_current is not None, Depth(some(self_current)) == Depth(self) - self_distance))
        invariant(implies(other_current is not None, Depth(some(other_current)) == Depth(other) - other_distance))
        invariant(implies(self_current is None, self_distance > Depth(self)))
        invariant(implies(other_current is None, other_distance > Depth(other)))
        invariant(forall_of("ERef", lambda x: (x in self_ancestors) == (IsAnc(self, x) and Dist(self, x) <= self_distance)))
        invariant(forall_of("ERef", lambda x: implies(x in self_ancestors, self_ancestors[x] == Dist(self, x))))
        invariant(forall_of("ERef", lambda x: (x in other_ancestors) == (IsAnc(other, x) and Dist(other, x) <= other_distance)))
        invariant(forall_of("ERef", lambda x: implies(x in other_ancestors, other_ancestors[x] == Dist(other, x))))
        invariant(forall_of("ERef", lambda x: implies(CRA(self, other, x),
                                                      Dist(self, x) > self_distance or Dist(other, x) > other_distance)))
        # termination: every iteration moves each live cursor one level closer to the root (or off the tree)
        decreases((Depth(some(self_current)) + 1 if self_current is not None else 0)
                  + (Depth(some(other_current)) + 1 if other_current is not None else 0))
        # one unfolding of Anc at the current positions, and the tree invariant at the current elements
        hint(implies(self_current is not None, Anc(self, self_distance + 1) == some(self_current).parent))
        hint(implies(other_current is not None, Anc(other, other_distance + 1) == some(other_current).parent))
        # the element one step up is the ancestor at the next distance, and the only one
        hint(implies(self_current is not None and some(self_current).parent is not None,
                     IsAnc(self, some(some(self_current).parent))
                     and Dist(self, some(some(self_current).parent)) == self_distance + 1))
        hint(implies(other_current is not None and some(other_current).parent is not None,
                     IsAnc(other, some(some(other_current).parent))
                     and Dist(other, some(some(other_current).parent)) == other_distance + 1))
        hint(implies(self_current is not None, forall_of("ERef", lambda x: implies(
            IsAnc(self, x) and Dist(self, x) == self_distance + 1,
            some(self_current).parent is not None and x == some(some(self_current).parent)))))
        hint(implies(other_current is not None, forall_of("ERef", lambda x: implies(
            IsAnc(other, x) and Dist(other, x) == other_distance + 1,
            some(other_current).parent is not None and x == some(some(other_current).parent)))))

