# Sidecar contracts for pyxform/entities/entities_parsing.py  (C19, C17)
MODULE = "pyxform.entities.entities_parsing"

Row = Dict[str, str]


@contract("is_xml_tag", module="pyxform.parsing.expression")
def _(value: str) -> Union[str, bool]:
    properties("C19", "C01", "C17")
    ensures(bool(result) == (len(value) > 0 and matches(value, "pyxform.parsing.expression.RE_ONLY_NCNAME")))


@contract("validate_entities_columns")
def _(row: Row) -> None:
    properties("C19")
    trusted("dict comprehension over symbolic keys with filter: bounded native check only")
    raises(PyXFormError, when=exists(0, len(keys(row)), lambda k: keys(row)[k] not in ("dataset", "entity_id", "create_if", "update_if", "label")))


@contract("get_validated_dataset_name")
def _(entity: Row) -> str:
    properties("C19", "C17")
    d = entity["dataset"]
    # a missing or empty list_name is refused like an invalid one (never a KeyError)
    raises(PyXFormError, when=not ("dataset" in entity and len(d) > 0)
           or d.startswith("__") or "." in d or not matches(d, "pyxform.parsing.expression.RE_ONLY_NCNAME"))
    ensures(result == d)


@contract("get_entity_declaration")
def _(entities_sheet: List[Row]):
    properties("C19", "C17")
    requires(len(entities_sheet) >= 1)
    row = entities_sheet[0]
    has_id = "entity_id" in row and len(row["entity_id"]) > 0
    has_create = "create_if" in row and len(row["create_if"]) > 0
    has_update = "update_if" in row and len(row["update_if"]) > 0
    has_label = "label" in row and len(row["label"]) > 0
    bad_cols = exists(0, len(keys(row)), lambda k: keys(row)[k] not in ("dataset", "entity_id", "create_if", "update_if", "label"))
    d = row["dataset"]
    bad_name = (not ("dataset" in row and len(d) > 0)) or d.startswith("__") or "." in d or not matches(d, "pyxform.parsing.expression.RE_ONLY_NCNAME")
    # the documented decision table: rejected combinations
    raises(PyXFormError, when=len(entities_sheet) > 1 or bad_cols or bad_name
           or (has_update and not has_id)
           or (has_id and has_create and not has_update)
           or (not has_id and not has_label))
    ensures(result["name"] == "entity" and result["type"] == "entity")
    ensures(result["parameters"]["dataset"] == d)
    ensures(iff(has_id, bool(result["parameters"]["entity_id"])))
    ensures(implies(has_id, result["parameters"]["entity_id"] == row["entity_id"]))
    ensures(iff(has_create, bool(result["parameters"]["create_if"])))
    ensures(implies(has_create, result["parameters"]["create_if"] == row["create_if"]))
    ensures(iff(has_update, bool(result["parameters"]["update_if"])))
    ensures(implies(has_update, result["parameters"]["update_if"] == row["update_if"]))
    ensures(iff(has_label, bool(result["parameters"]["label"])))
    ensures(implies(has_label, result["parameters"]["label"] == row["label"]))
