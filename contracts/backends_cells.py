# Sidecar contracts for the cell stringifiers of pyxform/xls2json_backends.py  (C12) — bounded native search only
# (the other functions of that module are contracted in contracts/xls2json_backends.py)
MODULE = "pyxform.xls2json_backends"

Any = Opaque("Any")

# C12: "Typed spreadsheet cells are read as canonical text: integers and integral floats as the integer a text format
# would spell, decimals as their shortest decimal form, booleans as TRUE/FALSE, text trimmed of surrounding whitespace
# with non-breaking spaces read as plain spaces."


@contract("xlsx_value_to_str")
def _(value: Any) -> str:
    properties("C12")
    trusted("isinstance dispatch over cell value types, float formatting: outside the prover's subset — bounded native search only")
    exhaustive_only()
    # the cell reader hands over non-empty cells, text already stripped (xlsx_clean_cell)
    requires(implies(isinstance(value, str), value == value.strip() and len(value) > 0))
    ensures(type(result) is str)
    # "booleans as TRUE/FALSE"
    ensures(implies(value is True, result == "TRUE"))
    ensures(implies(value is False, result == "FALSE"))
    # "integers and integral floats as the integer a text format would spell"
    ensures(implies(bcl_is_number(value) and value == int(value), result == bcl_integer_text(int(value))))
    # "decimals as their shortest decimal form": the shortest digit string that reads back as the same number, written
    # positionally as a text format spells decimals (no exponent)
    ensures(implies(bcl_is_number(value) and value != int(value), result == bcl_shortest_decimal(value)))
    # "text trimmed of surrounding whitespace with non-breaking spaces read as plain spaces"
    ensures(implies(isinstance(value, str), result == value.replace("\xa0", " ").strip()))


@contract("xls_value_to_unicode")
def _(value: Any, value_type: int, datemode: int) -> str:
    properties("C12")
    trusted("xlrd cell types, float formatting: outside the prover's subset — bounded native search only")
    exhaustive_only()
    # the cell reader hands over non-empty cells, text already stripped (xls_clean_cell); xlrd cell types:
    # 1 text, 2 number (always a float), 4 boolean (0/1)   [3 date, 5 error: not settled by the statement, not generated]
    requires(value_type in (BCL_XL_TEXT, BCL_XL_NUMBER, BCL_XL_BOOLEAN))
    requires(implies(value_type == BCL_XL_TEXT, isinstance(value, str) and value == value.strip() and len(value) > 0))
    requires(implies(value_type == BCL_XL_NUMBER, bcl_is_number(value)))
    ensures(type(result) is str)
    # "booleans as TRUE/FALSE"
    ensures(implies(value_type == BCL_XL_BOOLEAN, result == ("TRUE" if value else "FALSE")))
    # "integers and integral floats as the integer a text format would spell"
    ensures(implies(value_type == BCL_XL_NUMBER and value == int(value), result == bcl_integer_text(int(value))))
    # "decimals as their shortest decimal form"
    ensures(implies(value_type == BCL_XL_NUMBER and value != int(value), result == bcl_shortest_decimal(value)))
    # "text trimmed of surrounding whitespace with non-breaking spaces read as plain spaces"
    ensures(implies(value_type == BCL_XL_TEXT, result == value.replace("\xa0", " ").strip()))
