# Sidecar contracts for pyxform/utils.py  (C20 levenshtein, C01/C06 escaping, C10 default_is_dynamic ...)
MODULE = "pyxform.utils"


@spec
def Lev(a: str, i: int, b: str, j: int) -> int:
    """Levenshtein distance between a[:i] and b[:j] (the textbook recursive definition)."""
    if i <= 0:
        return j
    if j <= 0:
        return i
    d = Lev(a, i - 1, b, j) + 1
    ins = Lev(a, i, b, j - 1) + 1
    sub = Lev(a, i - 1, b, j - 1) + (0 if a[i - 1] == b[j - 1] else 1)
    return min(d, ins, sub)


@contract("levenshtein_distance")
def _(a: str, b: str) -> int:
    properties("C20")
    ensures(result == Lev(a, len(a), b, len(b)))

    @loop(0, index="ii")
    def _():
        invariant(len(v0) == n + 1 and len(v1) == n + 1)
        invariant(forall(0, n + 1, lambda k: v0[k] == Lev(a, ii, b, k)))

    @loop(1, index="jj")
    def _():
        invariant(len(v1) == n + 1)
        invariant(forall(0, jj + 1, lambda k: v1[k] == Lev(a, i + 1, b, k)))


# ---------------------------------------------------------------- XML text escaping (C01, C06)

@spec
def EscChar(c: str) -> str:
    """XML 1.0 character-data escaping of one character (text channel)."""
    if c == "&":
        return "&amp;"
    if c == "<":
        return "&lt;"
    if c == ">":
        return "&gt;"
    return c


@spec
def EscT(s: str) -> str:
    if len(s) == 0:
        return ""
    return EscChar(s[0]) + EscT(s[1:])


@lemma(induct="s")
def L_translate_is_EscT(s: str):
    """The real XML_TEXT_TABLE implements exactly the XML text escaping."""
    properties("C01", "C06")
    ensures(translate_table(s, "pyxform.utils.XML_TEXT_TABLE") == EscT(s))


@lemma(induct="s")
def L_EscT_identity(s: str):
    """Text without markup characters is its own escaping (soundness of the fast path)."""
    properties("C01", "C06")
    requires(not ("&" in s) and not ("<" in s) and not (">" in s))
    ensures(EscT(s) == s)


@contract("escape_text_for_xml")
def _(text: str) -> str:
    properties("C01", "C06")
    use_lemma("L_translate_is_EscT", "L_EscT_identity")
    ensures(result == EscT(text))


# ---------------------------------------------------------------- serialisation (C01, C06, C15)

Writer = Obj("Writer", buf=str)
XNode = Opaque("XNode")
Attr = Obj("Attr", value=str)
declare_fields("XNode", nodeType=int)


@spec
def EscA(s: str) -> str:
    """minidom _write_data: attribute-value escaping (& < " >). Trusted stdlib behaviour."""
    uninterpreted()


@spec
def Ser(x: XNode, indent: str, addindent: str, newl: str) -> str:
    """Text written by x.writexml(writer, indent, addindent, newl): the family contract of writexml."""
    uninterpreted()


@contract("_write_data", module="xml.dom.minidom")
def _(writer: Writer, text: str) -> None:
    trusted("stdlib xml.dom.minidom._write_data appends the attribute-escaped text")
    mutates(writer=Writer_append(writer, EscA(text)))


@contract("XNode.writexml", module="xml.dom.minidom")
def _(self: XNode, writer: Writer, indent: str, addindent: str, newl: str) -> None:
    trusted("family contract of Node.writexml: every override appends Ser(self, layout); the two pyxform overrides are proved against it, stdlib Element/Text are assumed")
    mutates(writer=Writer_append(writer, Ser(self, indent, addindent, newl)))


@contract("PatchedText.writexml")
def _(self: Obj("PatchedText", data=str), writer: Writer, indent: str = "", addindent: str = "", newl: str = "") -> None:
    properties("C01", "C06", "C15")
    use_lemma("L_translate_is_EscT", "L_EscT_identity")
    # a text node writes its escaped data between the caller's indent and newline, nothing else
    mutates(writer=Writer_append(writer, EscT(indent + self.data + newl)))


@spec
def IsText(x: XNode) -> bool:
    return x.nodeType == 3 or x.nodeType == 4


@spec
def AttrSer(attrs: Dict[str, Attr], j: int) -> str:
    """The first j attributes, each written as  name="escaped value"  in insertion order."""
    if j <= 0:
        return ""
    k = keys(attrs)[j - 1]
    return AttrSer(attrs, j - 1) + " " + k + '="' + EscA(attrs[k].value) + '"'


@spec
def Mixed(kids: List[XNode], j: int) -> str:
    """Mixed (text-bearing) content: children written inline without layout; one boundary space
    before a leading text node and one after the last child when there are several children."""
    if j <= 0:
        return ""
    pre = " " if (1 < len(kids) and j - 1 == 0 and IsText(kids[j - 1])) else ""
    post = " " if (1 < len(kids) and j == len(kids)) else ""
    return Mixed(kids, j - 1) + pre + Ser(kids[j - 1], "", "", "") + post


@spec
def Block(kids: List[XNode], j: int, ind: str, add: str, nl: str) -> str:
    """Element-only content: each child on its own indented line."""
    if j <= 0:
        return ""
    return Block(kids, j - 1, ind, add, nl) + Ser(kids[j - 1], ind, add, nl)


@spec
def SerElem(tag: str, attrs: Dict[str, Attr], kids: List[XNode], ind: str, add: str, nl: str) -> str:
    """The serialisation the property prescribes for an element (DESIGN.md §3, Ser)."""
    head = ind + "<" + tag + AttrSer(attrs, len(keys(attrs)))
    if len(kids) == 0:
        return head + "/>" + nl
    if exists(0, len(kids), lambda k: IsText(kids[k])):
        return head + ">" + Mixed(kids, len(kids)) + "</" + tag + ">" + nl
    return head + ">" + nl + Block(kids, len(kids), ind + add, add, nl) + ind + "</" + tag + ">" + nl


@contract("DetachableElement.writexml")
def _(self: Obj("DetachableElement", tagName=str, _attrs=Dict[str, Attr], childNodes=List[XNode]),
      writer: Writer, indent: str = "", addindent: str = "", newl: str = "") -> None:
    properties("C01", "C06", "C15")
    no_native("needs a DOM builder: exercised through the e2e oracles")
    head = writer.buf + indent + "<" + self.tagName
    mutates(writer=Writer_append(writer, SerElem(self.tagName, self._attrs, self.childNodes, indent, addindent, newl)))

    @loop(0, index="j", header="self._attrs.items()")
    def _():
        invariant(writer.buf == head + AttrSer(self._attrs, j))

    @loop(1, index="m", header="enumerate(self.childNodes)")
    def _():
        invariant(writer.buf == head + AttrSer(self._attrs, len(keys(self._attrs))) + ">" + Mixed(self.childNodes, m))

    @loop(2, index="b", header="self.childNodes")
    def _():
        invariant(writer.buf == head + AttrSer(self._attrs, len(keys(self._attrs))) + ">" + newl
                  + Block(self.childNodes, b, indent + addindent, addindent, newl))


@lemma
def L_layout_text_bearing(tag: str, attrs: Dict[str, Attr], kids: List[XNode], i1: str, a1: str, n1: str):
    """C15: an element with text-bearing (mixed) content, or without children, is written identically under
    every layout, except for the caller's indent before it and newline after it."""
    properties("C15")
    requires(len(kids) == 0 or exists(0, len(kids), lambda k: IsText(kids[k])))
    ensures(SerElem(tag, attrs, kids, i1, a1, n1) == i1 + SerElem(tag, attrs, kids, "", "", "") + n1)


@lemma
def L_layout_element_only(tag: str, attrs: Dict[str, Attr], kids: List[XNode], i1: str, a1: str, n1: str):
    """C15: element-only content — layout strings occur only directly after '>' and directly before '<'."""
    properties("C15")
    requires(len(kids) > 0 and not exists(0, len(kids), lambda k: IsText(kids[k])))
    ensures(SerElem(tag, attrs, kids, i1, a1, n1)
            == i1 + "<" + tag + AttrSer(attrs, len(keys(attrs))) + ">" + n1
            + Block(kids, len(kids), i1 + a1, a1, n1) + i1 + "</" + tag + ">" + n1)
