# Sidecar contracts for pyxform/utils.py  (C20 levenshtein, C01/C06 escaping, C10 default_is_dynamic ...)
MODULE = "pyxform.utils"


@spec
def Lev(a: str, i: int, b: str, j: int) -> int:
    """Levenshtein distance between a[:i] and b[:j] (the textbook recursive definition)."""
    if i <= 0:
        return j
    if j <= 0:
        return i
    d = Lev(a, i - 1, b, j) + 1
    ins = Lev(a, i, b, j - 1) + 1
    sub = Lev(a, i - 1, b, j - 1) + (0 if a[i - 1] == b[j - 1] else 1)
    return min(d, ins, sub)


@contract("levenshtein_distance")
def _(a: str, b: str) -> int:
    properties("C20")
    ensures(result == Lev(a, len(a), b, len(b)))

    @loop(0, index="ii")
    def _():
        invariant(len(v0) == n + 1 and len(v1) == n + 1)
        invariant(forall(0, n + 1, lambda k: v0[k] == Lev(a, ii, b, k)))

    @loop(1, index="jj")
    def _():
        invariant(len(v1) == n + 1)
        invariant(forall(0, jj + 1, lambda k: v1[k] == Lev(a, i + 1, b, k)))
