"""Native helpers for contracts/validators_choices.py: spec functions written from C17/C20/C09 and small-scope generators.

Nothing here calls pyxform: the expectations are computed from the property statements only."""
import itertools
import re
import sys

_vch_start = ("A-Z_a-z\\u00C0-\\u00D6\\u00D8-\\u00F6\\u00F8-\\u02FF\\u0370-\\u037D\\u037F-\\u1FFF\\u200C-\\u200D\\u2070-\\u218F"
              "\\u2C00-\\u2FEF\\u3001-\\uD7FF\\uF900-\\uFDCF\\uFDF0-\\uFFFD\\U00010000-\\U000EFFFF")
_vch_nc = f"[{_vch_start}][{_vch_start}\\-.0-9\\u00B7\\u0300-\\u036F\\u203F-\\u2040]*"     # XML Namespaces 1.0 NCName
_vch_qname = re.compile(f"{_vch_nc}(:{_vch_nc})?")          # XML Namespaces 1.0 QName
_vch_row = re.compile(r"\[row : (\d+)\]")


def vch_raised():
    """Exception raised by the function under test in the check in progress (None if it returned, or before the call).
    pyvc.native.NativeContract.check does not expose it to `when=` expressions; it is read from that frame."""
    f = sys._getframe(1)
    while f is not None:
        if f.f_code.co_name == "check" and "call_args" in f.f_locals and "self" in f.f_locals:
            return f.f_locals.get("exc")
        f = f.f_back
    return None


def vch_rows_cited(message):
    """Row numbers cited as `[row : N]` in a message, in order of appearance."""
    return [int(n) for n in _vch_row.findall(message)]


def vch_bad_header(h):
    """A choices column that cannot be written as an XML element; the list_name column is the grouping key."""
    return h != "list name" and not _vch_qname.fullmatch(h)


def vch_row_of(option):
    """[row] when the row dict carries its spreadsheet row number, [] when no row number was passed in."""
    return [option["__row"]] if "__row" in option else []


def vch_unlabeled(options):
    return [o for o in options if "label" not in o]


def vch_offending(options, allow_duplicates):
    """Choices that make the list invalid: no name; or (duplicates not allowed) a name already used earlier in the list."""
    out, seen = [], set()
    for o in options:
        if "name" not in o:
            out.append(o)
        elif not allow_duplicates:
            if o["name"] in seen:
                out.append(o)
            seen.add(o["name"])
    return out


def vch_offending_sheet(choices, allow_duplicates):
    return [o for k in choices for o in vch_offending(choices[k], allow_duplicates)]


def vch_error_cites(offending):
    """True when nothing was raised; otherwise the raised message cites at least one offending row (when any offending
    row dict carries a row number) and cites no row that is not offending."""
    exc = vch_raised()
    if exc is None:
        return True
    rows = [r for o in offending for r in vch_row_of(o)]
    cited = vch_rows_cited(str(exc))
    if any(c not in rows for c in cited):
        return False
    return len(cited) > 0 or len(rows) < len(offending)


def vch_clean_option(option, headers):
    """(column, cell) pairs of a choice after cleaning, in column order: drops the columns that cannot be XML elements and
    the row-number bookkeeping; everything else is kept as is."""
    bad = {h[0] for h in headers if vch_bad_header(h[0])}
    return [(k, v) for k, v in option.items() if k not in bad and k != "__row"]


# ------------------------------------------------------------------ generators

def _vch_header_cases():
    pool = [("list name",), ("name",), ("label",), ("label", "en"), ("2nd",), ("a b",), ("ok",), ("p:q",), ("a:b:c",),
            ("",), ("-x",), ("x-1.y",), ("é",), ("media", "image", "fr"), ("label", "English (en)"), ("2nd", "en"), ("$x",), ("list_name",), ("LIST NAME",), ("x:",)]
    for n in range(0, 4):
        for combo in itertools.permutations(pool, n):
            for w in ([], ["w0"]):
                yield {"headers": tuple(combo), "warnings": list(w)}


def _vch_option_variants(rowless=False):
    out = []
    for name in (None, "a", "b"):
        for label in (None, "x", {"en": "x"}):
            for extra in (None, "e"):
                o = {}
                if label is not None:          # column order differs between workbooks: label before name here
                    o["label"] = label
                if name is not None:
                    o["name"] = name
                if extra is not None:
                    o["ok"] = extra
                out.append(o)
    return out


def _vch_with_rows(opts, rows):
    out = []
    for o, r in zip(opts, rows):
        o = dict(o)
        if r is not None:
            o["__row"] = r
        out.append(o)
    return out


def _vch_list_cases():
    variants = _vch_option_variants()
    rows = [3, 5, 4, 9]            # not contiguous, not sorted: lists are grouped out of interleaved sheet rows
    for n in range(0, 4):
        for combo in itertools.product(variants, repeat=n):
            for dup in (False, True):
                for w in ([], ["w0 [row : 7]"]):
                    yield {"options": _vch_with_rows(combo, rows), "warnings": list(w), "allow_duplicates": dup}
    # case variants and longer lists: names are compared exactly; a third occurrence is also a duplicate
    extra = [{"name": "a", "label": "x"}, {"name": "A", "label": "x"}, {"name": "a"}, {"label": "y"}, {"name": "a ", "label": "x"}]
    for combo in itertools.product(extra, repeat=4):
        for dup in (False, True):
            yield {"options": _vch_with_rows(combo, rows), "warnings": [], "allow_duplicates": dup}
    # row dicts without a row number (settings clean_text_values=no): still no internal exception
    for n in range(1, 3):
        for combo in itertools.product(variants, repeat=n):
            for dup in (False, True):
                yield {"options": _vch_with_rows(combo, [None, None]), "warnings": [], "allow_duplicates": dup}


def _vch_sheet_cases():
    cols = ["label", "name", "2nd", "ok"]
    variants = []
    for name in (None, "a", "b"):
        for label in (None, "x"):
            for bad in (None, "n"):
                for ok in (None, "e"):
                    o = {}
                    for k, v in zip(cols, (label, name, bad, ok)):
                        if v is not None:
                            o[k] = v
                    variants.append(o)
    header_sets = [
        (("list name",), ("label",), ("name",), ("2nd",), ("ok",)),
        (("a b",), ("list name",), ("name",), ("label", "English (en)"), ("label",), ("ok", "x y"), ("2nd",), ("1",)),
        (("list name",), ("name",)),           # headers that do not flag the '2nd' column: it stays
    ]
    for hs_i, hs in enumerate(header_sets):
        for n1 in range(1, 3):
            for l1 in itertools.product(variants, repeat=n1):
                for l2 in [None] + [(v,) for v in variants]:
                    if hs_i > 0 and (n1 > 1 and l2 is not None):
                        continue
                    for dup in (False, True):
                        choices = {"l1": _vch_with_rows(l1, [2, 4])}
                        if l2 is not None:
                            choices["L0"] = _vch_with_rows(l2, [3])     # second list sorts before the first: order must stay
                        yield {"choices": choices, "warnings": ["w0"], "headers": hs, "allow_duplicates": dup}
    # no row numbers passed in
    for l1 in itertools.product(variants, repeat=2):
        yield {"choices": {"l1": _vch_with_rows(l1, [None, None])}, "warnings": [], "headers": header_sets[0], "allow_duplicates": False}


EXHAUSTIVE = {
    "pyxform.validators.pyxform.choices.validate_headers": _vch_header_cases,
    "pyxform.validators.pyxform.choices.validate_choice_list": _vch_list_cases,
    "pyxform.validators.pyxform.choices.validate_and_clean_choices": _vch_sheet_cases,
}
