# Sidecar contracts for pyxform/survey_element.py  (C05 binds, C10 dynamic defaults, C06/C07 labels and hints)
MODULE = "pyxform.survey_element"

XNode = Opaque("XNode")
StrMap = Dict[str, str]
BindVal = Union[str, StrMap]            # a bind cell: text, or {language: text} for translated messages
LabelVal = Union[str, StrMap]
declare_class("SurveyElement", "pyxform.survey_element.SurveyElement")

# the slots of a survey element that the contracted methods read
ElemK = Obj("SurveyElement", name=str, type=str, bind=Opt[Dict[str, BindVal]], flat=Opt[bool], trigger=Opt[str],
            default=Opt[str], label=Opt[LabelVal], hint=Opt[LabelVal], guidance_hint=Opt[LabelVal],
            media=Opt[Dict[str, LabelVal]])
SurveyS = Obj("Survey", name=str)


@spec
def XPathOf(e: ElemK) -> str:
    """Absolute path of the element's instance node (get_xpath; C02 kernel)."""
    uninterpreted()


Ctx = Opaque("Ctx")


@spec
def Subst(survey: Ctx, text: BindVal, ctx: Ctx) -> str:
    """The cell text with every ${name} replaced by the XPath of the named node as seen from ctx (insert_xpaths; C03)."""
    uninterpreted()


@spec
def SubstF(survey: Ctx, text: BindVal, ctx: Ctx, use_current: bool, reference_parent: bool) -> str:
    """insert_xpaths with its flags: relative paths anchored with current() (secondary-instance predicates), and the
    parent of the referenced node (select from repeat)."""
    uninterpreted()


@spec
def TruthNorm(k: str, v: str) -> str:
    """XLSForm truth spellings in a logic column become XPath booleans; anything else is left alone (C05)."""
    if k == "readonly" or k == "required" or k == "relevant" or k == "constraint" or k == "calculate":
        if v == "yes" or v == "Yes" or v == "YES" or v == "true" or v == "True" or v == "TRUE":
            return "true()"
        if v == "no" or v == "No" or v == "NO" or v == "false" or v == "False" or v == "FALSE":
            return "false()"
    return v


@spec
def HasRef(s: str) -> bool:
    return matches(s, "pyxform.utils.BRACKETED_TAG_REGEX", "search")


@spec
def BindAttr(survey: Ctx, e: ElemK, k: str, v: BindVal) -> str:
    """The value the bind attribute k must carry for the cell value v of element e (C05, C07)."""
    if isinstance(v, str):
        if (k == "jr:constraintMsg" or k == "jr:requiredMsg") and HasRef(v):
            return Subst(survey, "jr:itext('" + XPathOf(e) + ":" + k + "')", ctx_of(e))
        return Subst(survey, TruthNorm(k, v), ctx_of(e))
    if k == "jr:constraintMsg" or k == "jr:requiredMsg" or k == "jr:noAppErrorString":
        return Subst(survey, "jr:itext('" + XPathOf(e) + ":" + k + "')", ctx_of(e))
    return Subst(survey, v, ctx_of(e))


@contract("SurveyElement.get_xpath")
def _(self: ElemK) -> str:
    trusted("ancestor-chain path (C02 kernel); cached in _survey_element_xpath")
    ensures(result == XPathOf(self))


@contract("Survey.insert_xpaths", module="pyxform.survey")
def _(self: SV, text: BindVal, context: CV, use_current: bool = False, reference_parent: bool = False) -> str:
    trusted("reference substitution (C03 kernels / bounded family); survey and context may be any record/reference view")
    ensures(implies(not use_current and not reference_parent, result == Subst(ctx_of(self), text, ctx_of(context))))
    ensures(result == SubstF(ctx_of(self), text, ctx_of(context), use_current, reference_parent))
    may_raise(PyXFormError, when=True)


@contract("hashable")
def _(v: BindVal) -> bool:
    trusted("hash() succeeds on str and fails on dict")
    ensures(result == isinstance(v, str))


@contract("SurveyElement._translation_path")
def _(self: ElemK, display_element: str) -> str:
    properties("C07")
    no_native("needs survey-element objects")
    ensures(result == XPathOf(self) + ":" + display_element)


@contract("SurveyElement.xml_bindings")
def _(self: ElemK, survey: SurveyS) -> List[XNode]:
    properties("C05", "C07", "C02", "C19")
    no_native("needs survey-element objects: exercised through the e2e oracles")
    locals(bind_dict=StrMap)
    may_raise(PyXFormError, when=True)
    # "the text contains a ${reference}" is the same (uninterpreted) predicate in code and specification
    abstract_regex("pyxform.utils.BRACKETED_TAG_REGEX")
    B = some(self.bind)
    skip_calc = bool(self.trigger)
    # type invariant of the sheet stage: no `bind::nodeset` column (it would collide with the generated nodeset)
    requires(implies(self.bind is not None, "nodeset" not in B))
    # an element without bind information, or a flat group, has no bind
    ensures(implies(self.bind is None or bool(self.flat), len(result) == 0))
    # otherwise exactly one bind, on the element's own node
    ensures(implies(self.bind is not None and not bool(self.flat),
                    len(result) == 1 and result[0].tagName == "bind" and len(result[0].kids) == 0
                    and keys(result[0].attrs)[0] == "nodeset" and result[0].attrs["nodeset"] == XPathOf(self)))
    # C05: every logic cell of the row is an attribute of that bind, with exactly the prescribed value
    # (a triggered calculation is emitted as a setvalue instead: C10)
    ensures(implies(self.bind is not None and not bool(self.flat), forall(0, len(keys(B)), lambda j:
            (keys(B)[j] == "calculate" and skip_calc)
            or (keys(B)[j] in result[0].attrs and implies(keys(B)[j] != "nodeset",
                result[0].attrs[keys(B)[j]] == BindAttr(ctx_of(survey), self, keys(B)[j], B[keys(B)[j]]))))))
    # ... and the bind carries nothing else
    ensures(implies(self.bind is not None and not bool(self.flat), forall_str(lambda a: implies(
            a in result[0].attrs, a == "nodeset" or (a in B and not (a == "calculate" and skip_calc))))))

    @loop(0, index="j")
    def _():
        # every processed key is present (unless it is the triggered calculation) ...
        invariant(forall(0, j, lambda q: (keys(B)[q] == "calculate" and skip_calc) or keys(B)[q] in bind_dict))
        # ... and, keyed by attribute name, every entry is the prescribed value of that row's own cell
        invariant(forall_str(lambda a: implies(a in bind_dict, a in B and not (a == "calculate" and skip_calc)
                                               and bind_dict[a] == BindAttr(ctx_of(survey), self, a, B[a]))))


# ---------------------------------------------------------------- dynamic defaults (C10)

@spec
def IsDynamic(default: str, qtype: str) -> bool:
    """default_is_dynamic: the default is an expression (bounded contract in contracts/utils_bounded.py)."""
    uninterpreted()


# (default_is_dynamic itself: bounded native contract in contracts/utils_bounded.py, linked through IsDynamic)


@contract("SurveyElement.get_setvalue_node_for_dynamic_default")
def _(self: ElemK, survey: SurveyS, in_repeat: bool = False) -> Opt[XNode]:
    properties("C10", "C02")
    no_native("needs survey-element objects: exercised through the e2e oracles")
    may_raise(PyXFormError, when=True)
    dyn = bool(self.default) and IsDynamic(some(self.default), self.type)
    # C10: a dynamic default produces exactly this setvalue; a static or absent default produces none
    ensures((result is None) == (not dyn))
    ensures(implies(dyn, some(result).tagName == "setvalue" and len(some(result).kids) == 0
                    and len(keys(some(result).attrs)) == 3
                    and keys(some(result).attrs)[0] == "ref" and some(result).attrs["ref"] == XPathOf(self)
                    and keys(some(result).attrs)[1] == "value" and some(result).attrs["value"] == Subst(ctx_of(survey), some(self.default), ctx_of(self))
                    and keys(some(result).attrs)[2] == "event"))
    # fired on first load; inside a repeat also for every new repeat instance
    ensures(implies(dyn and not in_repeat, some(result).attrs["event"] == "odk-instance-first-load"))
    ensures(implies(dyn and in_repeat, some(result).attrs["event"] == "odk-instance-first-load odk-new-repeat"))


# ---------------------------------------------------------------- labels and hints (C06 flag discipline, C07 references)

@spec
def IovText(survey: SurveyS, text: LabelVal, ctx: ElemK) -> str:
    """First component of Survey.insert_output_values (C06 kernel in contracts/survey.py)."""
    uninterpreted()


@spec
def IovFlag(survey: SurveyS, text: LabelVal, ctx: ElemK) -> bool:
    """Second component: True iff references were replaced by <output/> elements (then the text is escaped markup)."""
    uninterpreted()


@contract("Survey.insert_output_values", module="pyxform.survey")
def _(self: SurveyS, text: LabelVal, context: ElemK) -> Tuple[str, bool]:
    trusted("reference -> <output/> substitution with escaping before substitution: C06 kernel / bounded e2e")
    ensures(result[0] == IovText(self, text, context) and result[1] == IovFlag(self, text, context))
    may_raise(PyXFormError, when=True)


@spec
def NeedsItext(e: ElemK) -> bool:
    """A translated label, or any media, is shown through an itext reference (C07)."""
    return isinstance(e.label, dict) or (e.media is not None and len(some(e.media)) > 0)


@contract("SurveyElement.needs_itext_ref")
def _(self: ElemK) -> Union[bool, Dict[str, LabelVal]]:
    properties("C07", "C08")
    no_native("needs survey-element objects")
    ensures(bool(result) == NeedsItext(self))


@contract("SurveyElement.xml_label")
def _(self: ElemK, survey: SurveyS) -> XNode:
    properties("C06", "C07")
    no_native("needs survey-element objects: exercised through the e2e oracles")
    functional("LabelNode")
    may_raise(PyXFormError, when=True)
    L = some(self.label)
    ensures(result.tagName == "label" and result.nodeType == 1)
    # C07: a translated label (or media) is referenced by the id under which its itext entry is filed
    ensures(implies(NeedsItext(self), len(result.kids) == 0 and len(keys(result.attrs)) == 1
                    and result.attrs["ref"] == "jr:itext('" + XPathOf(self) + ":label')"))
    # C06: plain label text is a text node holding exactly the author's text; it is re-parsed as markup only when
    # insert_output_values says it replaced references (and then it is the escaped text it returned)
    ensures(implies(not NeedsItext(self) and bool(self.label), len(keys(result.attrs)) == 0
                    and implies(IovFlag(survey, L, self), result.kids == ParsedKids("label", IovText(survey, L, self)))
                    and implies(not IovFlag(survey, L, self), len(result.kids) == 1 and result.kids[0].nodeType == 3
                                and result.kids[0].data == IovText(survey, L, self))))
    ensures(implies(not NeedsItext(self) and not bool(self.label), len(result.kids) == 0 and len(keys(result.attrs)) == 0))


@contract("SurveyElement.xml_hint")
def _(self: ElemK, survey: SurveyS) -> XNode:
    properties("C06", "C07")
    no_native("needs survey-element objects: exercised through the e2e oracles")
    functional("HintNode")
    may_raise(PyXFormError, when=True)
    H = some(self.hint)
    via_itext = isinstance(self.hint, dict) or bool(self.guidance_hint)
    ensures(result.tagName == "hint" and result.nodeType == 1)
    ensures(implies(via_itext, len(result.kids) == 0 and len(keys(result.attrs)) == 1
                    and result.attrs["ref"] == "jr:itext('" + XPathOf(self) + ":hint')"))
    ensures(implies(not via_itext and bool(self.hint), len(keys(result.attrs)) == 0
                    and implies(IovFlag(survey, H, self), result.kids == ParsedKids("hint", IovText(survey, H, self)))
                    and implies(not IovFlag(survey, H, self), len(result.kids) == 1 and result.kids[0].nodeType == 3
                                and result.kids[0].data == IovText(survey, H, self))))
    ensures(implies(not via_itext and not bool(self.hint), len(result.kids) == 0 and len(keys(result.attrs)) == 0))


@spec
def LabelNode(e: ElemK, survey: SurveyS) -> XNode:
    uninterpreted()


@spec
def HintNode(e: ElemK, survey: SurveyS) -> XNode:
    uninterpreted()


@contract("SurveyElement.xml_label_and_hint")
def _(self: ElemK, survey: SurveyS) -> List[XNode]:
    properties("C04", "C06", "C07", "C17")
    no_native("needs survey-element objects: exercised through the e2e oracles and the runtime monitor")
    may_raise(PyXFormError, when=True)
    has_label = bool(self.label) or bool(self.media)
    has_hint = bool(self.hint) or bool(self.guidance_hint)
    M = some(self.media)
    # C17: a visible row needs something to show: no label, media or hint at all, or a guidance hint alone (hidden by
    # default in clients), is refused naming the row; big-image without an image is refused
    raises(PyXFormError, when=(not has_label and not has_hint)
           or (not bool(self.label) and not bool(self.media) and not bool(self.hint) and bool(self.guidance_hint))
           or (self.media is not None and "image" not in M and "big-image" in M))
    # C04: the label element first — also when only a hint was written — then the hint element when the row has a hint
    # or a guidance hint; each built by the proved xml_label / xml_hint, nothing else
    ensures(len(result) == (2 if has_hint else 1))
    ensures(result[0] == LabelNode(self, survey))
    ensures(implies(has_hint, result[1] == HintNode(self, survey)))


# ---------------------------------------------------------------- the translations one row contributes (C08, C07)

# One entry of SurveyElement.get_translations as the itext builder reads it (`_setup_translations` uses exactly these four
# keys; the entries for label/hint/guidance carry two more keys, commented "Not used" in the source, which this view
# does not observe).
TrItem = Obj("TrItem", path=str, lang=str, text=str, output_context=ElemK)


@spec
def TrSeg(e: ElemK, kind: str, d: StrMap, n: int) -> List[TrItem]:
    """C08: "the label, hint, guidance hint, constraint message, required message ... that a user of that language is shown
    ... equal the content of that row's matching language column": the first n language columns of one translatable cell
    group of row e contribute, in column order, one entry each — filed under the row's own text id for that kind, under
    exactly that column's language, holding exactly that column's text."""
    if n <= 0:
        return []
    return TrSeg(e, kind, d, n - 1) + [{"path": XPathOf(e) + ":" + kind, "lang": keys(d)[n - 1],
                                        "text": d[keys(d)[n - 1]], "output_context": e}]


@spec
def TrMsg(e: ElemK, kind: str, v: Opt[BindVal], dl: str, plain: bool) -> List[TrItem]:
    """A bind message: one entry per language column; an unsuffixed message is shown through itext (under the default
    language — "the unsuffixed column for the default language") only when it contains a reference."""
    if v is None:
        return []
    if isinstance(some(v), dict):
        return TrSeg(e, kind, some(v), len(keys(some(v))))
    if plain and len(some(v)) > 0 and HasRef(some(v)):
        return TrSeg(e, kind, {dl: some(v)}, 1)
    return []


@spec
def TrShown(e: ElemK, kind: str, v: Opt[LabelVal], dl: str, plain: bool) -> List[TrItem]:
    """A label / hint / guidance hint: one entry per language column; an unsuffixed cell "of itext-bearing elements counts
    as the default language" (plain = the cell has to be shown through itext)."""
    if v is None:
        return []
    if isinstance(some(v), dict):
        return TrSeg(e, kind, some(v), len(keys(some(v))))
    if plain and len(some(v)) > 0:
        return TrSeg(e, kind, {dl: some(v)}, 1)
    return []


@contract("SurveyElement.get_translations")
def _(self: ElemK, default_language: str) -> List[TrItem]:
    properties("C08", "C07")
    no_native("needs survey-element objects: exercised through the e2e oracles")
    abstract_regex("pyxform.utils.BRACKETED_TAG_REGEX")
    merge_paths()
    B = some(self.bind)
    has_bind = self.bind is not None and len(keys(B)) > 0
    gh = self.guidance_hint is not None and len(some(self.guidance_hint)) > 0
    # C08: every language column of every translatable cell of this row yields exactly one itext entry — under the row's
    # own id for that kind, that language, that text — in the order constraint message, required message,
    # noAppErrorString, label, hint, guidance hint; an unsuffixed label of an itext-bearing row, an unsuffixed guidance
    # hint, and an unsuffixed hint next to a guidance hint are filed under the default language; and *nothing else* is
    # yielded: no entry for a language the row's columns do not name, none with another row's id or text.
    seg_cm = TrMsg(self, "jr:constraintMsg", B.get("jr:constraintMsg"), default_language, True) if has_bind else []
    seg_rm = TrMsg(self, "jr:requiredMsg", B.get("jr:requiredMsg"), default_language, True) if has_bind else []
    seg_nae = TrMsg(self, "jr:noAppErrorString", B.get("jr:noAppErrorString"), default_language, False) if has_bind else []
    seg_label = TrShown(self, "label", self.label, default_language, NeedsItext(self))
    seg_hint = TrShown(self, "hint", self.hint, default_language, gh)
    seg_guidance = TrShown(self, "guidance_hint", self.guidance_hint, default_language, True)
    ensures(result == seg_cm + seg_rm + seg_nae + seg_label + seg_hint + seg_guidance)
    # proof structure: the sequence yielded so far is pinned to the specification at every segment boundary
    cut_before_assign("required_msg", _yield == seg_cm)
    cut_before_assign("no_app_error_string", _yield == seg_cm + seg_rm)
    cut_before_assign("label_or_hint", _yield == seg_cm + seg_rm + seg_nae
                      + ([] if display_element == "label" else seg_label)
                      + (seg_hint if display_element == "guidance_hint" else []))

    @loop(0, index="i")
    def _():
        invariant(_yield == _yield_at_entry + TrSeg(self, "jr:constraintMsg", constraint_msg, i))

    @loop(1, index="i")
    def _():
        invariant(_yield == _yield_at_entry + TrSeg(self, "jr:requiredMsg", required_msg, i))

    @loop(2, index="i")
    def _():
        invariant(_yield == _yield_at_entry + TrSeg(self, "jr:noAppErrorString", no_app_error_string, i))

    @loop(4, index="i")
    def _():
        invariant(_yield == _yield_at_entry + TrSeg(self, display_element, label_or_hint, i))
