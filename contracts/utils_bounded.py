# Bounded native contracts for pyxform/utils.py functions the prover cannot reach (C09, C10): string classification through
# the expression lexer, csv writing, recursive search in nested dicts.  Spec helpers + generators: native_utils_bounded.py.
# (The deductive contracts of this module are in contracts/utils.py.)
MODULE = "pyxform.utils"

Any = Opaque("Any")


# ---------------------------------------------------------------- static or dynamic default (C10)

@spec
def UB_default_decided(default: str, qtype: str) -> bool:
    """C10 decides whether this default text is static or dynamic for this question type (native definition, from the
    statement's own classes of default text: contracts/native_utils_bounded.py; uninterpreted for the prover)."""
    uninterpreted()


@spec
def UB_default_value(default: str, qtype: str) -> bool:
    """... and then this is the answer: True = dynamic (an expression), False = static (a literal)."""
    uninterpreted()


@contract("default_is_dynamic")
def _(element_default: str, element_type: str) -> bool:
    properties("C10", "C03")
    trusted("token-level classification of the default text (regex lexer): bounded native search only; callers refer to the "
            "value through the uninterpreted symbol IsDynamic (contracts/survey_element.py)")
    exhaustive_only()
    # link for the callers' contracts (SurveyElement.get_setvalue_node_for_dynamic_default ...): the result IS IsDynamic(..)
    ensures(result == IsDynamic(element_default, element_type))
    ensures(result is True or result is False)
    # C10: "A static default value appears as the literal content of the question's instance node ...; a dynamic default (an
    # expression) leaves the node empty and instead produces exactly one setvalue"; quantifier: "default text over literals,
    # dates, numbers, negative numbers, function calls, arithmetic, references": literals (plain words, numbers, negative
    # numbers, ISO dates / times / date-times, geo literals; no default at all) are static for every question type; a text whose
    # first expression-making token is a ${reference}, a function call or an operator + * div mod | is dynamic for every
    # question type (today() - 7 is an expression also on a date question); ' - ' between operands is arithmetic, except on
    # date / dateTime / geo questions where '-' is documented to be left alone.  Other texts: undecided, not constrained.
    ensures(implies(UB_default_decided(element_default, element_type),
                    result == UB_default_value(element_default, element_type)))


# ---------------------------------------------------------------- itemsets.csv (C09)

@contract("external_choices_to_csv")
def _(workbook_dict: Any, warnings: Any = None) -> Opt[str]:
    properties("C09", "C14")
    trusted("csv writer over dict rows: bounded native search only")
    exhaustive_only()
    requires(UB_csv_all_cells_have_header(workbook_dict))
    # without an external_choices sheet there is no CSV, and the caller is told why (one message, nothing else touched)
    ensures(iff(result is None, not workbook_dict.external_choices))
    ensures(implies(result is None and warnings is not None,
                    len(final_warnings) == len(warnings) + 1 and final_warnings[:-1] == warnings and "external_choices" in final_warnings[-1]))
    ensures(implies(result is not None, final_warnings == warnings))
    # C09: "when external choices are used the itemsets CSV reproduces the external_choices sheet cell-for-cell under the right
    # column headers": read back with a CSV parser it is the header row followed by the sheet's rows, each cell under its own
    # header (commas, quotes and line breaks inside cells included), an empty field where the sheet cell is empty
    ensures(implies(result is not None, UB_csv_parse(result) == UB_csv_expected(workbook_dict)))
    # the sheet itself is not modified
    ensures(final_workbook_dict.external_choices == workbook_dict.external_choices)


@contract("has_external_choices")
def _(json_struct: Any) -> bool:
    properties("C09")
    trusted("recursive search in nested dicts/lists: bounded native search only")
    exhaustive_only()
    # C09: "when external choices are used ...": they are used exactly when some question, at any nesting depth, has the type
    # `select one external`
    ensures(result == UB_uses_external_select(json_struct))
    ensures(final_json_struct == json_struct)
