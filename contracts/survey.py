# Sidecar contracts for pyxform/survey.py
MODULE = "pyxform.survey"

Elem = Opaque("Elem")
declare_fields("Elem", name=str, type=str)
XPathMap = Dict[str, Opt[Elem]]
XNode = Opaque("XNode")
StrMap = Dict[str, str]
LangT = Opaque("LangT")      # one language's itext entries (path -> forms), abstract here
TrigL = Opaque("TrigL")      # list of (target name, calculation) pairs of one trigger, abstract here
BindVal = Union[str, StrMap]
LabelVal = Union[str, StrMap]
declare_class("Survey", "pyxform.survey.Survey")
declare_class("Section", "pyxform.section.Section")

# the slots of a Survey object that the contracted methods read (a record; methods that need fewer fields accept it)
SurveyK = Obj("Survey", name=str, _xpath=Opt[XPathMap], attribute=Opt[StrMap], id_string=str, instance_xmlns=Opt[str],
              version=Opt[str], prefix=Opt[str], delimiter=Opt[str], title=str, style=Opt[str],
              submission_url=Opt[str], public_key=Opt[str], auto_send=Opt[str], auto_delete=Opt[str],
              entity_features=Opt[List[str]], namespaces=Opt[str], default_language=str,
              _translations=Dict[str, LangT], setvalues_by_triggering_ref=Dict[str, TrigL],
              setgeopoint_by_triggering_ref=Dict[str, TrigL],
              children=List[Elem], instance=Opt[StrMap],
              type=str, bind=Opt[Dict[str, BindVal]], flat=Opt[bool], trigger=Opt[str], default=Opt[str],
              label=Opt[LabelVal], hint=Opt[LabelVal], guidance_hint=Opt[LabelVal], media=Opt[Dict[str, LabelVal]])


@spec
def Descendants(root: SurveyK, which: str) -> List[Elem]:
    """The elements yielded by iter_descendants for the given filter, in document order (trusted traversal)."""
    uninterpreted()


@spec
def CountName(d: List[Elem], i: int, s: str) -> int:
    """How many of the first i elements are called s."""
    if i <= 0:
        return 0
    return CountName(d, i - 1, s) + (1 if d[i - 1].name == s else 0)


@spec
def LastNamed(d: List[Elem], i: int, s: str) -> Elem:
    """The last element called s among the first i (meaningful when CountName >= 1)."""
    if i <= 1:
        return d[0]
    if d[i - 1].name == s:
        return d[i - 1]
    return LastNamed(d, i - 1, s)


SurveyX = SurveyK


@contract("Survey.iter_descendants")
def _(self: SurveyX, condition: Fn(Elem, ret=bool)) -> List[Elem]:
    trusted("tree traversal (Section.iter_descendants): its result is the quantified input; order = document order")
    ensures(result == Descendants(self, condition_src))


@contract("Survey._setup_xpath_dictionary")
def _(self: SurveyX) -> None:
    properties("C03", "C02", "C14", "C17")
    no_native("needs survey-element objects: exercised through the e2e oracles")
    locals(xpaths=XPathMap)
    modifies_fields(self=("_xpath",))
    fresh_needed = not bool(self._xpath)
    d = Descendants(self, "lambda i: isinstance(i, Question | Section)")
    n = len(d)
    # C03: the reference table maps every element name to its element when the name is unique, and to None
    # (= ambiguous: a reference to it is an error) when two or more elements carry it; other names are absent
    ensures(implies(not fresh_needed, final_self._xpath == self._xpath))      # idempotent once built (C14)
    ensures(implies(fresh_needed, final_self._xpath is not None))
    ensures(implies(fresh_needed, forall_str(lambda s: (s in some(final_self._xpath)) == (CountName(d, n, s) >= 1))))
    ensures(implies(fresh_needed, forall_str(lambda s: implies(CountName(d, n, s) == 1, some(final_self._xpath)[s] is LastNamed(d, n, s)))))
    ensures(implies(fresh_needed, forall_str(lambda s: implies(CountName(d, n, s) >= 2, some(final_self._xpath)[s] is None))))

    @loop(0, index="i")
    def _():
        invariant(forall_str(lambda s: CountName(d, i, s) >= 0))
        invariant(forall_str(lambda s: (s in xpaths) == (CountName(d, i, s) >= 1)))
        invariant(forall_str(lambda s: implies(CountName(d, i, s) == 1, xpaths[s] is LastNamed(d, i, s))))
        invariant(forall_str(lambda s: implies(CountName(d, i, s) >= 2, xpaths[s] is None)))
        hint(LastNamed(d, i + 1, d[i].name) is d[i])


# ---------------------------------------------------------------- primary instance root (C11, C01)

SectionK = Obj("Section", name=str, children=List[Elem], instance=Opt[Dict[str, str]])
S2 = Obj("SurveyS2", name=str)


@spec
def SectionInstance(s: SectionK, survey: S2) -> XNode:
    """The instance subtree Section.xml_instance builds for the survey root (proved in contracts/section.py: InstShape)."""
    uninterpreted()


@contract("Survey.xml_instance")
def _(self: SurveyK, **kwargs: StrMap) -> XNode:
    properties("C11", "C01")
    no_native("needs survey-element objects: exercised through the e2e oracles")
    kwargs_shapes({})          # xml_model calls it without keywords
    may_raise(PyXFormError, when=True)
    inst = SectionInstance(self, self)
    A = some(self.attribute)
    # the root element keeps the name and children of the section instance
    ensures(result.nodeType == 1 and result.tagName == self.name and result.kids == inst.kids)
    # C11: form id and version reach the root verbatim; custom attribute:: columns cannot override them
    ensures("id" in result.attrs and result.attrs["id"] == self.id_string)
    ensures(implies(bool(self.version), "version" in result.attrs and result.attrs["version"] == self.version))
    ensures(implies(bool(self.instance_xmlns), "xmlns" in result.attrs and result.attrs["xmlns"] == self.instance_xmlns))
    ensures(implies(bool(self.prefix), result.attrs["odk:prefix"] == self.prefix))
    ensures(implies(bool(self.delimiter), result.attrs["odk:delimiter"] == self.delimiter))
    # every custom attribute is present; it keeps its value unless it is one of the reserved names set afterwards
    ensures(implies(bool(self.attribute), forall(0, len(keys(A)), lambda j:
            keys(A)[j] in result.attrs
            and implies(keys(A)[j] not in ("id", "xmlns", "version", "odk:prefix", "odk:delimiter"),
                        result.attrs[keys(A)[j]] == A[keys(A)[j]]))))
    # no setting leaks: without a version setting the root has no version attribute unless the author added one
    ensures(implies(not bool(self.version) and not (bool(self.attribute) and "version" in A)
                    and "version" not in inst.attrs, "version" not in result.attrs))

    @loop(0, index="j")
    def _():
        invariant(result.nodeType == 1 and result.tagName == self.name and result.kids == inst.kids)
        invariant(forall(0, j, lambda q: keys(A)[q] in result.attrs and result.attrs[keys(A)[q]] == A[keys(A)[q]]))
        invariant(forall_str(lambda s: implies(s in result.attrs, s in inst.attrs or s in A)))


# ---------------------------------------------------------------- model (C01 skeleton, C11 submission, C19 version)

@spec
def TransSetup(s: SurveyK, stage: int) -> Dict[str, LangT]:
    """_translations after _setup_translations (1), _setup_media (2), _add_empty_translations (3): C07/C08 kernels."""
    uninterpreted()


@spec
def ItextNode(s: SurveyK) -> XNode:
    uninterpreted()


@spec
def InstanceNodes(s: SurveyK) -> List[XNode]:
    """Secondary instances (C09 kernel _generate_instances)."""
    uninterpreted()


@spec
def BindingNodes(s: SurveyK) -> List[XNode]:
    uninterpreted()


@spec
def ActionNodes(s: SurveyK) -> List[XNode]:
    uninterpreted()


@contract("Survey._setup_translations")
def _(self: SurveyK) -> None:
    trusted("builds _translations from labels/hints/media of all elements: contracted in the C07/C08 kernels")
    mutates(self=replace(self, _translations=TransSetup(self, 1)))
    may_raise(PyXFormError, when=True)


@contract("Survey._setup_media")
def _(self: SurveyK) -> None:
    trusted("adds media entries to _translations: contracted in the C07/C08 kernels")
    mutates(self=replace(self, _translations=TransSetup(self, 2)))
    may_raise(PyXFormError, when=True)


@contract("Survey._add_empty_translations")
def _(self: SurveyK) -> None:
    properties("C07", "C08")
    trusted("nested dicts mutated in place through subscripts: outside the prover's subset — bounded native search only")
    native_only()
    exhaustive_only()
    mutates(self=replace(self, _translations=TransSetup(self, 3)))
    # C07 "All translations contain the same set of text ids" and, per id, the same forms; C08 "Where nothing was written
    # for that language the entry is the explicit placeholder '-' ... never another language's or another row's text":
    # padding adds '-' only, never changes or removes what was written, invents no language
    ensures(SVB_pad_problems(self, final_self) == [])




@contract("Survey.itext")
def _(self: SurveyK) -> XNode:
    properties("C07", "C08", "C06")
    trusted("nested dict iteration building DOM nodes: bounded native search only (the real function builds a real minidom tree)")
    native_only()
    exhaustive_only()
    functional("ItextNode")
    may_raise(PyXFormError, when=True)
    # C07 "no language or id appears twice, and when the form's default language is one of the translations it is the only
    # one marked default"; one <text> per id with the values written for that language; C06 flag discipline: a value is
    # re-parsed as markup exactly when insert_output_values says it inserted outputs
    ensures(SVB_itext_problems(self, result) == [])


# ---------------------------------------------------------------- secondary instances (C09): declared once per id

Inst = Obj("InstanceInfo", type=str, context=Opt[str], name=str, src=Opt[str], instance=XNode)


@spec
def CollectedInstances(s: SurveyK) -> List[Inst]:
    """All instance declarations gathered from the form, in document order, choice lists last (the nested
    get_element_instances: pulldata / select-from-file / external / last-saved / static choice instances)."""
    uninterpreted()


@contract("Survey._generate_instances.<locals>.get_element_instances")
def _() -> List[Inst]:
    trusted("gathers one InstanceInfo per declaring site (C09 bounded e2e oracle: URIs and ids per source kind)")
    ensures(result == CollectedInstances(self))
    may_raise(PyXFormError, when=True)


@contract("Survey._validate_external_instances")
def _(instances: List[Inst]) -> None:
    trusted("xml-external/csv-external names must be unique across the form (raises ValidationError)")
    may_raise(ValidationError, when=True)


@spec
def NameSeen(L: List[Inst], i: int, s: str) -> bool:
    """Some declaration among the first i has id s."""
    if i <= 0:
        return False
    if L[i - 1].name == s:
        return True
    return NameSeen(L, i - 1, s)


@spec
def FirstNamed(L: List[Inst], i: int, s: str) -> Inst:
    """The first declaration with id s among the first i (meaningful when NameSeen)."""
    if i <= 1:
        return L[0]
    if NameSeen(L, i - 1, s):
        return FirstNamed(L, i - 1, s)
    return L[i - 1]


@spec
def FirstOccurrences(L: List[Inst], i: int) -> List[XNode]:
    """C09: each instance id is declared exactly once — by its first declaration, in order."""
    if i <= 0:
        return []
    if NameSeen(L, i - 1, L[i - 1].name):
        return FirstOccurrences(L, i - 1)
    return FirstOccurrences(L, i - 1) + [L[i - 1].instance]


@contract("Survey._generate_instances")
def _(self: SurveyK) -> List[XNode]:
    properties("C09", "C17")
    no_native("needs survey-element objects: exercised through the e2e oracles")
    functional("InstanceNodes")
    locals(seen=Dict[str, Inst])
    may_raise(ValidationError, when=True)
    L = CollectedInstances(self)
    n = len(L)
    # the same id with a different source URI is refused (never silently overwritten); the same id with the same URI is
    # declared once
    may_raise(PyXFormError, when=True)       # (gathering the declarations may itself refuse the form)
    ensures(not exists(0, n, lambda j: NameSeen(L, j, L[j].name) and FirstNamed(L, j, L[j].name).src != L[j].src))
    ensures(result == FirstOccurrences(L, n))

    @loop(2, index="i", header="instances")   # loops 0 and 1 are inside the nested get_element_instances
    def _():
        invariant(forall_str(lambda s: (s in seen) == NameSeen(L, i, s)))
        invariant(forall_str(lambda s: implies(s in seen, seen[s] == FirstNamed(L, i, s))))
        invariant(forall(0, i, lambda j: not (NameSeen(L, j, L[j].name) and FirstNamed(L, j, L[j].name).src != L[j].src)))
        invariant(_yield == FirstOccurrences(L, i))


@contract("Survey.xml_actions")
def _(self: SurveyK) -> List[XNode]:
    trusted("model-level actions (setgeopoint, recordaudio): C02 kernel")
    ensures(result == ActionNodes(self))


@contract("Survey.xml_model")
def _(self: SurveyK) -> XNode:
    properties("C01", "C11", "C19")
    functional("SurveyModel")
    no_native("needs survey-element objects: exercised through the e2e oracles")
    may_raise(PyXFormError, when=True)
    s1 = replace(self, _translations=TransSetup(self, 1))
    s2 = replace(s1, _translations=TransSetup(s1, 2))
    s3 = replace(s2, _translations=TransSetup(s2, 3))
    has_itext = len(s3._translations) > 0
    has_sub = bool(self.submission_url) or bool(self.public_key) or bool(self.auto_send) or bool(self.auto_delete)
    o_itext = 1 if has_sub else 0
    o_prim = o_itext + (1 if has_itext else 0)
    insts = InstanceNodes(s3)
    dd = Descendants(s3, "lambda i: not isinstance(i, Option | Tag)")
    binds = ModelNodes(dd, len(dd))
    acts = ActionNodes(s3)
    ensures(result.nodeType == 1 and result.tagName == "model")
    # C19: the entities version is declared exactly when the form declares an entity
    ensures(result.attrs["odk:xforms-version"] == "1.0.0" and "odk:xforms-version" in result.attrs)
    ensures(("entities:entities-version" in result.attrs) == bool(self.entity_features))
    # C01: children order — submission?, itext?, primary instance, secondary instances, binds, actions
    ensures(len(result.kids) == o_prim + 1 + len(insts) + len(binds) + len(acts))
    ensures(implies(has_itext, result.kids[o_itext] == ItextNode(s3)))
    ensures(result.kids[o_prim].tagName == "instance" and result.kids[o_prim].nodeType == 1 and len(result.kids[o_prim].attrs) == 0)
    ensures(len(result.kids[o_prim].kids) == 1 and result.kids[o_prim].kids[0].tagName == self.name
            and result.kids[o_prim].kids[0].attrs["id"] == self.id_string and "id" in result.kids[o_prim].kids[0].attrs)
    ensures(forall(0, len(insts), lambda i: result.kids[o_prim + 1 + i] == insts[i]))
    ensures(forall(0, len(binds), lambda i: result.kids[o_prim + 1 + len(insts) + i] == binds[i]))
    ensures(forall(0, len(acts), lambda i: result.kids[o_prim + 1 + len(insts) + len(binds) + i] == acts[i]))
    # C11: the submission element exists iff a submission setting is given, and carries exactly those settings
    ensures(implies(has_sub, result.kids[0].tagName == "submission" and len(result.kids[0].kids) == 0))
    ensures(implies(has_sub, ("action" in result.kids[0].attrs) == bool(self.submission_url)
                    and ("method" in result.kids[0].attrs) == bool(self.submission_url)
                    and ("base64RsaPublicKey" in result.kids[0].attrs) == bool(self.public_key)
                    and ("orx:auto-send" in result.kids[0].attrs) == bool(self.auto_send)
                    and ("orx:auto-delete" in result.kids[0].attrs) == bool(self.auto_delete)))
    ensures(implies(bool(self.submission_url), result.kids[0].attrs["action"] == self.submission_url and result.kids[0].attrs["method"] == "post"))
    ensures(implies(bool(self.public_key), result.kids[0].attrs["base64RsaPublicKey"] == self.public_key))
    ensures(implies(bool(self.auto_send), result.kids[0].attrs["orx:auto-send"] == self.auto_send))
    ensures(implies(bool(self.auto_delete), result.kids[0].attrs["orx:auto-delete"] == self.auto_delete))
    ensures(implies(has_sub, len(result.kids[0].attrs) == (2 if bool(self.submission_url) else 0) + (1 if bool(self.public_key) else 0)
                    + (1 if bool(self.auto_send) else 0) + (1 if bool(self.auto_delete) else 0)))


# ---------------------------------------------------------------- namespaces (C01, C19) — bounded: string tokenisation

@contract("Survey.get_nsmap")
def _(self: Obj("Survey", entity_features=Opt[List[str]], namespaces=Opt[str])) -> Dict[str, str]:
    properties("C01", "C19", "C11")
    trusted("str.split / replace chains over the namespaces setting are outside the solvers' reach: the contract is "
            "checked by bounded native search (small-scope exhaustive token strings), never counted as proved")
    native_only()
    functional("NsMapOf")
    # C01: a declaration that cannot be written as a namespace declaration is refused, never emitted
    raises(PyXFormError, when=InvalidNsToken(self.namespaces))
    ensures(all(k == "xmlns" or (k.startswith("xmlns:") and matches(k[6:], "NCName")) for k in result))
    # C01: every standard prefix stays declared with its own URI (a custom declaration cannot redefine it)
    ensures(all(k in result and result[k] == v for k, v in STD_NSMAP.items()))
    # C19: the entities namespace is declared whenever the form declares an entity ...
    ensures(implies(bool(self.entity_features),
                    result.get("xmlns:entities") == "http://www.opendatakit.org/xforms/entities"
                    or DeclaresPrefix(self.namespaces, "entities")))
    # ... and only then (unless the author declares that prefix in the namespaces setting)
    ensures(implies(not bool(self.entity_features) and not DeclaresPrefix(self.namespaces, "entities"),
                    "xmlns:entities" not in result))
    # C11: each `prefix=uri` token of the namespaces setting is declared with its URI (quotes removed); nothing else is added
    # (when a prefix is declared twice the property does not say which wins: any of its declarations is accepted)
    # (on an entity form the converter's own declaration of `entities` counts as one of them: it used to be appended to the
    # setting itself, since the fix c16-entities-namespace-dump it is appended to a local copy)
    ensures(all(implies(("xmlns:" + p) not in STD_NSMAP,
                        result.get("xmlns:" + p) in DeclaredUris(final_self.namespaces, p)
                        or (p == "entities" and bool(self.entity_features)
                            and result.get("xmlns:" + p) == "http://www.opendatakit.org/xforms/entities"))
                for p, u in FirstDeclarations(self.namespaces)))
    ensures(all(k in STD_NSMAP or k == "xmlns:entities" or DeclaresPrefix(self.namespaces, k[6:]) for k in result))


# ---------------------------------------------------------------- binds and model-level setvalues (C10, C05)

@spec
def ElemBinds(e: Elem) -> List[XNode]:
    """The bind(s) of one element (SurveyElement.xml_bindings: proved in contracts/survey_element.py)."""
    uninterpreted()


@spec
def ElemDynDefault(e: Elem) -> Opt[XNode]:
    """The first-load setvalue of one element, if its default is dynamic (get_setvalue_node_for_dynamic_default)."""
    uninterpreted()


@spec
def RepeatAncestors(e: Elem) -> List[Tuple[Elem, int]]:
    """Ancestors of type repeat, nearest first (iter_ancestors with the repeat filter)."""
    uninterpreted()


@contract("Elem.xml_bindings", module="pyxform.survey_element")
def _(self: Elem, survey: SurveyK) -> List[XNode]:
    trusted("family view of SurveyElement.xml_bindings on an element reference; the method itself is proved on its record view")
    ensures(result == ElemBinds(self))
    may_raise(PyXFormError, when=True)


@contract("Elem.get_setvalue_node_for_dynamic_default", module="pyxform.survey_element")
def _(self: Elem, survey: SurveyK, in_repeat: bool = False) -> Opt[XNode]:
    trusted("family view of get_setvalue_node_for_dynamic_default (proved on its record view); as called from the model: in_repeat=False")
    ensures(result == ElemDynDefault(self))
    may_raise(PyXFormError, when=True)


@contract("Elem.iter_ancestors", module="pyxform.survey_element")
def _(self: Elem, condition: Fn(Elem, ret=bool)) -> List[Tuple[Elem, int]]:
    trusted("parent-chain traversal; the filter passed here selects ancestors of type repeat")
    ensures(result == RepeatAncestors(self))


@spec
def ModelNodes(d: List[Elem], i: int) -> List[XNode]:
    """C10/C05: per element in document order its bind(s), then its first-load setvalue iff it has a dynamic default
    and no repeat ancestor (defaults inside repeats are emitted in the repeat's body instead)."""
    if i <= 0:
        return []
    e = d[i - 1]
    if len(RepeatAncestors(e)) == 0 and ElemDynDefault(e) is not None:
        return ModelNodes(d, i - 1) + ElemBinds(e) + [some(ElemDynDefault(e))]
    return ModelNodes(d, i - 1) + ElemBinds(e)


@contract("Survey.xml_descendent_bindings")
def _(self: SurveyK) -> List[XNode]:
    properties("C10", "C05", "C02")
    no_native("needs survey-element objects: exercised through the e2e oracles")
    may_raise(PyXFormError, when=True)
    d = Descendants(self, "lambda i: not isinstance(i, Option | Tag)")
    ensures(result == ModelNodes(d, len(d)))

    @loop(0, index="i")
    def _():
        invariant(_yield == ModelNodes(d, i))


# ---------------------------------------------------------------- output text (C15: both layouts serialise the same tree)

@spec
def Ser(x: XNode, indent: str, addindent: str, newl: str) -> str:
    """Text written by x.writexml (proved against the serialisation spec in contracts/utils.py)."""
    uninterpreted()


@spec
def SurveyXml(s: SurveyK) -> XNode:
    """The h:html tree built by Survey.xml()."""
    uninterpreted()


@spec
def NsMapOf(s: Obj("Survey", entity_features=Opt[List[str]], namespaces=Opt[str])) -> Dict[str, str]:
    """Namespace declarations of the form (Survey.get_nsmap: bounded contract above)."""
    uninterpreted()


@spec
def SurveyModel(s: SurveyK) -> XNode:
    """The model element (Survey.xml_model, proved above)."""
    uninterpreted()


@spec
def BodyControls(s: SurveyK) -> List[XNode]:
    """Body controls of the top-level rows in order (Section.xml_control; C04 kernel)."""
    uninterpreted()


@contract("Survey.validate")
def _(self: SurveyK) -> None:
    trusted("name validation of every element (C17/C02 kernels: is_xml_tag, sibling and section name uniqueness)")
    may_raise(PyXFormError, when=True)


@contract("Survey._validate_namespace_prefixes")
def _(self: SurveyK, nsmap: Dict[str, str]) -> None:
    trusted("refuses names/attributes with an undeclared prefix (bounded e2e C01 oracle)")
    may_raise(PyXFormError, when=True)


@contract("Survey.xml_control")
def _(self: SurveyK, survey: SurveyK) -> List[XNode]:
    trusted("Section.xml_control: controls of the children in order, None skipped (C04 kernel)")
    ensures(result == BodyControls(self))
    may_raise(PyXFormError, when=True)


@contract("Survey.xml")
def _(self: SurveyK) -> XNode:
    properties("C01", "C11")
    no_native("needs survey-element objects: exercised through the e2e oracles")
    functional("SurveyXml")
    abstract_regex("pyxform.utils.BRACKETED_TAG_REGEX")
    modifies_fields(self=("_xpath",))          # the reference table is (re)built; nothing else of the survey changes
    may_raise(PyXFormError, when=True)
    # C01: the ODK XForm skeleton — html root carrying the namespace declarations, one head with exactly one title and
    # one model, one body
    ensures(result.nodeType == 1 and result.tagName == "h:html" and result.attrs == NsMapOf(self))
    ensures(len(result.kids) == 2 and result.kids[0].tagName == "h:head" and result.kids[1].tagName == "h:body")
    ensures(len(result.kids[0].attrs) == 0 and len(result.kids[0].kids) == 2
            and result.kids[0].kids[0].tagName == "h:title" and result.kids[0].kids[1] == SurveyModel(final_self))
    # C11: the title is the form_title setting, as character data
    ensures(len(result.kids[0].kids[0].attrs) == 0 and len(result.kids[0].kids[0].kids) == 1
            and result.kids[0].kids[0].kids[0].nodeType == 3 and result.kids[0].kids[0].kids[0].data == self.title)
    # C11: style is the body class, and nothing else is
    ensures(result.kids[1].kids == BodyControls(final_self))
    ensures(implies(bool(self.style), len(keys(result.kids[1].attrs)) == 1 and result.kids[1].attrs["class"] == self.style))
    ensures(implies(not bool(self.style), len(keys(result.kids[1].attrs)) == 0))

    @loop(0, index="t")
    def _():
        invariant(True)


@contract("Survey._to_ugly_xml")
def _(self: SurveyK) -> str:
    properties("C15", "C01")
    no_native("needs survey-element objects: exercised through the e2e oracles")
    may_raise(PyXFormError, when=True)
    # compact output: the XML declaration followed by the tree written with empty layout strings
    ensures(result == '<?xml version="1.0"?>' + Ser(SurveyXml(self), "", "", ""))


@contract("Survey._to_pretty_xml")
def _(self: SurveyK) -> str:
    properties("C15", "C01")
    no_native("needs survey-element objects: exercised through the e2e oracles")
    may_raise(PyXFormError, when=True)
    # pretty output: the same tree, written with two-space indentation and newlines — and nothing else done to it
    ensures(result == '<?xml version="1.0"?>' + "\n" + Ser(SurveyXml(self), "", "  ", "\n"))


# ---------------------------------------------------------------- choice lists as secondary instances (C09)

OptionK = Obj("Option", name=str, label=Opt[LabelVal], extra_data=Opt[Dict[str, str]], sms_option=Opt[str])
ItemsetK = Obj("Itemset", name=str, options=List[OptionK], requires_itext=bool)


@contract("InstanceInfo")
def _(type: str, context: Opt[str], name: str, src: Opt[str], instance: XNode) -> Inst:
    trusted("InstanceInfo.__init__ stores its five arguments in the slots of the same name")
    ensures(result.type == type and result.context == context and result.name == name and result.src == src
            and result.instance == instance)


@spec
def IsTextElem(n: XNode, tag: str, text: str) -> bool:
    """An element without attributes holding exactly one text node."""
    return (n.nodeType == 1 and n.tagName == tag and len(keys(n.attrs)) == 0 and len(n.kids) == 1
            and n.kids[0].nodeType == 3 and n.kids[0].data == text)


@spec
def ChoiceOk(ks: List[XNode], list_name: str, itext: bool, idx: int, c: OptionK) -> bool:
    """C09: the children of one <item>: the itext id of the choice (lists shown through itext only), its name, its plain
    label (lists not shown through itext), every extra column of the row in column order, its sms option — nothing else."""
    inline()
    X = some(c.extra_data)
    n0 = 1 if itext else 0
    nl = 1 if (not itext and isinstance(c.label, str)) else 0
    nx = len(keys(X)) if bool(c.extra_data) else 0
    ns = 1 if bool(c.sms_option) else 0
    return (len(ks) == n0 + 1 + nl + nx + ns
            and implies(itext, IsTextElem(ks[0], "itextId", list_name + "-" + str(idx)))
            and IsTextElem(ks[n0], "name", c.name)
            and implies(nl == 1, IsTextElem(ks[n0 + 1], "label", some(c.label)))
            and forall(0, nx, lambda j: IsTextElem(ks[n0 + 1 + nl + j], keys(X)[j], X[keys(X)[j]]))
            and implies(ns == 1, IsTextElem(ks[n0 + 1 + nl + nx], "sms_option", some(c.sms_option))))


@contract("Survey._generate_static_instances.<locals>.choice_nodes")
def _(idx: int, choice: OptionK) -> List[XNode]:
    properties("C09")
    no_native("nested generator: exercised through the e2e oracle")
    closure(list_name=str, itemset=ItemsetK)
    requires(idx >= 0)
    # type invariant of the choices sheet stage: extra columns are named by valid XML names other than the fixed ones
    ensures(ChoiceOk(result, list_name, itemset.requires_itext, idx, choice))

    @loop(0, index="q")
    def _():
        invariant(len(_yield) == (1 if itemset.requires_itext else 0) + 1
                  + (1 if (not itemset.requires_itext and isinstance(choice.label, str)) else 0) + q)
        invariant(implies(itemset.requires_itext, IsTextElem(_yield[0], "itextId", list_name + "-" + str(idx))))
        invariant(IsTextElem(_yield[1 if itemset.requires_itext else 0], "name", choice.name))
        invariant(implies(not itemset.requires_itext and isinstance(choice.label, str),
                          IsTextElem(_yield[1], "label", some(choice.label))))
        invariant(forall(0, q, lambda j: IsTextElem(
            _yield[(1 if itemset.requires_itext else 0) + 1
                   + (1 if (not itemset.requires_itext and isinstance(choice.label, str)) else 0) + j],
            keys(some(choice.extra_data))[j], some(choice.extra_data)[keys(some(choice.extra_data))[j]])))


@contract("Survey._generate_static_instances.<locals>.instance_nodes")
def _(choices: List[OptionK]) -> List[XNode]:
    properties("C09")
    no_native("nested generator: exercised through the e2e oracle")
    closure(list_name=str, itemset=ItemsetK)
    # one <item> per choice, in sheet order
    ensures(len(result) == len(choices))
    ensures(forall(0, len(choices), lambda k: result[k].nodeType == 1 and result[k].tagName == "item"
                   and len(keys(result[k].attrs)) == 0
                   and ChoiceOk(result[k].kids, list_name, itemset.requires_itext, k, choices[k])))

    @loop(0, index="i")
    def _():
        invariant(len(_yield) == i)
        invariant(forall(0, i, lambda k: _yield[k].nodeType == 1 and _yield[k].tagName == "item"
                         and len(keys(_yield[k].attrs)) == 0
                         and ChoiceOk(_yield[k].kids, list_name, itemset.requires_itext, k, choices[k])))


@contract("Survey._generate_static_instances")
def _(self: SurveyK, list_name: str, itemset: ItemsetK) -> Inst:
    properties("C09")
    no_native("needs Itemset objects: exercised through the e2e oracle and the runtime monitor")
    O = itemset.options
    # C09: the list yields one secondary instance carrying its own id ...
    ensures(result.type == "choice" and result.name == list_name and result.src is None)
    ensures(result.instance.nodeType == 1 and result.instance.tagName == "instance"
            and len(keys(result.instance.attrs)) == 1 and result.instance.attrs["id"] == list_name)
    ensures(len(result.instance.kids) == 1 and result.instance.kids[0].tagName == "root"
            and len(keys(result.instance.kids[0].attrs)) == 0)
    # ... whose items are that list's choices in sheet order: never merged, truncated or reordered
    ensures(len(result.instance.kids[0].kids) == len(O))
    ensures(forall(0, len(O), lambda k: result.instance.kids[0].kids[k].tagName == "item"
                   and len(keys(result.instance.kids[0].kids[k].attrs)) == 0
                   and ChoiceOk(result.instance.kids[0].kids[k].kids, list_name, itemset.requires_itext, k, O[k])))


# ---------------------------------------------------------------- external data sources: conventional URIs (C09)

ParentK = Obj("Section", name=str, type=str)
ExtK = Obj("ExternalInstance", name=str, type=str, parent=ParentK)
FileSelK = Obj("MultipleChoiceQuestion", name=str, type=str, itemset=Opt[str], parent=ParentK)


@spec
def SrcInstanceOk(n: XNode, ident: str, src: str) -> bool:
    """<instance id=ident src=src/> and nothing else."""
    return (n.nodeType == 1 and n.tagName == "instance" and len(n.kids) == 0 and len(keys(n.attrs)) == 2
            and n.attrs["id"] == ident and n.attrs["src"] == src)


@contract("Survey._generate_external_instances")
def _(element: ExtK) -> Inst:
    properties("C09")
    no_native("needs survey-element objects: exercised through the e2e oracle and the runtime monitor")
    # type invariant: the two external-instance row types of the type table
    requires(element.type == "csv-external" or element.type == "xml-external")
    # C09: a csv-external / xml-external row is declared under its own name with the conventional URI
    ensures(result.type == "external" and result.name == element.name)
    ensures(implies(element.type == "csv-external", result.src == "jr://file-csv/" + element.name + ".csv"))
    ensures(implies(element.type == "xml-external", result.src == "jr://file/" + element.name + ".xml"))
    ensures(SrcInstanceOk(result.instance, element.name, some(result.src)))


@contract("Survey._get_last_saved_instance")
def _() -> Inst:
    properties("C09")
    no_native("no arguments: exercised through the e2e oracle and the runtime monitor")
    ensures(result.type == "instance" and result.name == "__last-saved" and result.src == "jr://instance/last-saved"
            and result.context is None)
    ensures(SrcInstanceOk(result.instance, "__last-saved", "jr://instance/last-saved"))


@spec
def SplitExt(p: str) -> Tuple[str, str]:
    """os.path.splitext(p): (root, extension)."""
    uninterpreted()


@contract("splitext", module="posixpath")
def _(p: str) -> Tuple[str, str]:
    trusted("os.path.splitext (stdlib): the two parts concatenate to the argument; the extension is empty or a dot "
            "followed by characters other than '.' and '/'")
    ensures(result == SplitExt(p))
    ensures(result[0] + result[1] == p)
    ensures(result[1] == "" or (result[1].startswith(".") and "/" not in result[1] and "." not in result[1][1:]))


@contract("Survey._generate_from_file_instances")
def _(element: FileSelK) -> Opt[Inst]:
    properties("C09")
    no_native("needs survey-element objects: exercised through the e2e oracle and the runtime monitor")
    it = some(element.itemset)
    root = SplitExt(it)[0]
    ext = SplitExt(it)[1]
    known = ext == ".csv" or ext == ".xml" or ext == ".geojson"
    # C09: a select from a csv / xml / geojson file is declared under the file's base name with the conventional URI;
    # any other itemset (a choice list, a reference) declares no file instance
    ensures((result is None) == (not bool(element.itemset) or not known))
    ensures(implies(result is not None, some(result).type == "file" and some(result).name == root))
    ensures(implies(result is not None and ext == ".csv", some(result).src == "jr://file-csv/" + it))
    ensures(implies(result is not None and ext != ".csv", some(result).src == "jr://file/" + it))
    ensures(implies(result is not None, SrcInstanceOk(some(result).instance, root, some(some(result).src))))


# ---------------------------------------------------------------- itext entries of one choice (C08, C07)

ChLabelVal = Union[str, Dict[str, str]]
ChoiceTrK = Obj("Option", name=str, label=Opt[Union[str, Dict[str, ChLabelVal]]], media=Opt[Dict[str, ChLabelVal]])
SurveyDL = Obj("Survey", name=str, default_language=str)
ChItem = Tuple[List[str], str]      # ([language, text id, form], text) as _add_to_nested_dict files it


@spec
def ChInner(tid: str, form: str, d: Dict[str, str], n: int) -> List[ChItem]:
    """The first n language columns of one form (long, image, audio ...) of a choice: one entry per column, under the
    choice's own text id, that column's language, that column's text (C08)."""
    if n <= 0:
        return []
    return ChInner(tid, form, d, n - 1) + [([keys(d)[n - 1], tid, form], d[keys(d)[n - 1]])]


@spec
def ChLabel(tid: str, L: Dict[str, ChLabelVal], n: int) -> List[ChItem]:
    """The first n label columns of a choice: `label::lang` holds the text for lang (form "long"); a nested dict holds one
    form with its own language columns."""
    if n <= 0:
        return []
    if isinstance(L[keys(L)[n - 1]], dict):
        return ChLabel(tid, L, n - 1) + ChInner(tid, keys(L)[n - 1], as_dict(L[keys(L)[n - 1]]), len(keys(L[keys(L)[n - 1]])))
    return ChLabel(tid, L, n - 1) + [([keys(L)[n - 1], tid, "long"], as_str(L[keys(L)[n - 1]]))]


@spec
def ChMedia(tid: str, dl: str, M: Dict[str, ChLabelVal], n: int) -> List[ChItem]:
    """The first n media columns of a choice: a translated medium contributes one entry per language column; an
    unsuffixed one is filed under the default language ("the unsuffixed column for the default language")."""
    if n <= 0:
        return []
    if isinstance(M[keys(M)[n - 1]], dict):
        return ChMedia(tid, dl, M, n - 1) + ChInner(tid, keys(M)[n - 1], as_dict(M[keys(M)[n - 1]]), len(keys(M[keys(M)[n - 1]])))
    return ChMedia(tid, dl, M, n - 1) + [([dl, tid, keys(M)[n - 1]], as_str(M[keys(M)[n - 1]]))]


@spec
def ChoiceEntries(name: str, idx: int, c: ChoiceTrK, dl: str) -> List[ChItem]:
    """C08 for one choice: under its own text id `<list>-<index>`, the label entries then the media entries."""
    return ((ChLabel(name + "-" + str(idx), some(c.label), len(keys(some(c.label)))) if isinstance(c.label, dict)
             else ([([dl, name + "-" + str(idx), "long"], as_str(some(c.label)))]
                   if c.label is not None and len(some(c.label)) > 0 else []))
            + (ChMedia(name + "-" + str(idx), dl, some(c.media), len(keys(some(c.media)))) if c.media is not None else []))


ItemsetTrK = Obj("Itemset", name=str, options=List[ChoiceTrK], requires_itext=bool)
SurveyChK = Obj("Survey", name=str, default_language=str, choices=Opt[Dict[str, ItemsetTrK]])


@spec
def ChOpts(name: str, dl: str, opts: List[ChoiceTrK], n: int) -> List[ChItem]:
    """The entries of the first n choices of one list, in sheet order, each under its own index."""
    if n <= 0:
        return []
    return ChOpts(name, dl, opts, n - 1) + ChoiceEntries(name, n - 1, opts[n - 1], dl)


@spec
def ChLists(dl: str, C: Dict[str, ItemsetTrK], n: int) -> List[ChItem]:
    """The entries of the first n choice lists: a list shown through itext contributes every choice, another list none."""
    if n <= 0:
        return []
    if C[keys(C)[n - 1]].requires_itext:
        return ChLists(dl, C, n - 1) + ChOpts(keys(C)[n - 1], dl, C[keys(C)[n - 1]].options, len(C[keys(C)[n - 1]].options))
    return ChLists(dl, C, n - 1)


@contract("Survey._setup_translations.<locals>.get_choices")
def _() -> List[ChItem]:
    properties("C08", "C07")
    no_native("nested generator: exercised through the e2e oracle")
    closure(self=SurveyChK)
    # call-site fact (`if self.choices:` guards the only call; _setup_translations itself is not under contract: assumed)
    requires(self.choices is not None)
    # C08/C07: every choice of every list that is shown through itext contributes its entries under `<list name>-<its own
    # index in the list>`, lists in sheet order, choices in sheet order — no choice skipped, none filed under another
    # choice's index or another list's name
    ensures(result == ChLists(self.default_language, some(self.choices), len(keys(some(self.choices)))))

    @loop(0, index="i")
    def _():
        invariant(_yield == _yield_at_entry + ChLists(self.default_language, some(self.choices), i))

    @loop(1, index="j")
    def _():
        invariant(_yield == _yield_at_entry + ChOpts(name, self.default_language, itemset.options, j))


@contract("Survey._setup_translations.<locals>.get_choice_content")
def _(name: str, idx: int, choice: ChoiceTrK) -> List[ChItem]:
    properties("C08", "C07")
    no_native("nested generator: exercised through the e2e oracle")
    closure(self=SurveyDL)
    merge_paths()
    ensures(result == ChoiceEntries(name, idx, choice, self.default_language))
    tid = name + "-" + str(idx)
    lab = (ChLabel(tid, some(choice.label), len(keys(some(choice.label)))) if isinstance(choice.label, dict)
           else ([([self.default_language, tid, "long"], as_str(some(choice.label)))]
                 if choice.label is not None and len(some(choice.label)) > 0 else []))
    med = (ChMedia(tid, self.default_language, some(choice.media), len(keys(some(choice.media))))
           if choice.media is not None else [])
    # C08 for choices: under the choice's own text id `<list>-<index>` (the id its itextId carries: C07), one entry per
    # language column of its label and of each medium, that language, that text; an unsuffixed label / medium under the
    # default language; nothing else — no other language, no other choice's id or text
    ensures(result == lab + med)
    cut_before_assign("choice_media", _yield == lab)

    @loop(0, index="i")
    def _():
        invariant(_yield == _yield_at_entry + ChLabel(tid, choice_label, i))

    @loop(1, index="j")
    def _():
        invariant(_yield == _yield_at_entry + ChInner(tid, lang, value, j))

    @loop(2, index="i")
    def _():
        invariant(_yield == _yield_at_entry + ChMedia(tid, self.default_language, choice_media, i))

    @loop(3, index="j")
    def _():
        invariant(_yield == _yield_at_entry + ChInner(tid, media, value, j))
