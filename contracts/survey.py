# Sidecar contracts for pyxform/survey.py
MODULE = "pyxform.survey"

Elem = Opaque("Elem")
declare_fields("Elem", name=str, type=str)
XPathMap = Dict[str, Opt[Elem]]


@spec
def Descendants(root: Obj("Survey", _xpath=Opt[XPathMap]), which: str) -> List[Elem]:
    """The elements yielded by iter_descendants for the given filter, in document order (trusted traversal)."""
    uninterpreted()


@spec
def CountName(d: List[Elem], i: int, s: str) -> int:
    """How many of the first i elements are called s."""
    if i <= 0:
        return 0
    return CountName(d, i - 1, s) + (1 if d[i - 1].name == s else 0)


@spec
def LastNamed(d: List[Elem], i: int, s: str) -> Elem:
    """The last element called s among the first i (meaningful when CountName >= 1)."""
    if i <= 1:
        return d[0]
    if d[i - 1].name == s:
        return d[i - 1]
    return LastNamed(d, i - 1, s)


SurveyX = Obj("Survey", _xpath=Opt[XPathMap])


@contract("Survey.iter_descendants")
def _(self: SurveyX, condition: Fn(Elem, ret=bool)) -> List[Elem]:
    trusted("tree traversal (Section.iter_descendants): its result is the quantified input; order = document order")
    ensures(result == Descendants(self, condition_src))


@contract("Survey._setup_xpath_dictionary")
def _(self: SurveyX) -> None:
    properties("C03", "C14", "C17")
    no_native("needs survey-element objects: exercised through the e2e oracles")
    locals(xpaths=XPathMap)
    fresh_needed = not bool(self._xpath)
    d = Descendants(self, "lambda i: isinstance(i, Question | Section)")
    n = len(d)
    # C03: the reference table maps every element name to its element when the name is unique, and to None
    # (= ambiguous: a reference to it is an error) when two or more elements carry it; other names are absent
    ensures(implies(not fresh_needed, final_self._xpath == self._xpath))      # idempotent once built (C14)
    ensures(implies(fresh_needed, final_self._xpath is not None))
    ensures(implies(fresh_needed, forall_str(lambda s: (s in final_self._xpath) == (CountName(d, n, s) >= 1))))
    ensures(implies(fresh_needed, forall_str(lambda s: implies(CountName(d, n, s) == 1, final_self._xpath[s] is LastNamed(d, n, s)))))
    ensures(implies(fresh_needed, forall_str(lambda s: implies(CountName(d, n, s) >= 2, final_self._xpath[s] is None))))

    @loop(0, index="i")
    def _():
        invariant(forall_str(lambda s: CountName(d, i, s) >= 0))
        invariant(forall_str(lambda s: (s in xpaths) == (CountName(d, i, s) >= 1)))
        invariant(forall_str(lambda s: implies(CountName(d, i, s) == 1, xpaths[s] is LastNamed(d, i, s))))
        invariant(forall_str(lambda s: implies(CountName(d, i, s) >= 2, xpaths[s] is None)))
        hint(LastNamed(d, i + 1, d[i].name) is d[i])
