# Sidecar contracts for pyxform/validators/odk_validate/__init__.py  (C18)
MODULE = "pyxform.validators.odk_validate"

PopenResult = Obj("PopenResult", return_code=int, timeout=bool, stdout=str, stderr=str)


@spec
def JavaOnPath() -> bool:
    uninterpreted()


@spec
def ValidatorResult(path: str) -> PopenResult:
    """Outcome of the external validator process: the quantified input of check_xform."""
    uninterpreted()


@spec
def Cleaned(stderr: str) -> str:
    """ErrorCleaner.odk_validate, contracted separately."""
    uninterpreted()


@contract("which", module="shutil")
def _(cmd: str) -> Opt[str]:
    trusted("stdlib shutil.which: returns a path iff the command is on PATH")
    ensures((result is not None) == JavaOnPath())


@contract("_call_validator")
def _(path_to_xform: str) -> PopenResult:
    trusted("subprocess + watchdog thread (run_popen_with_timeout) are outside the family; the result triple is the quantified input")
    no_native("prover-side abstraction over an uninterpreted outcome")
    ensures(result == ValidatorResult(path_to_xform))


@contract("ErrorCleaner.odk_validate", module="pyxform.validators.error_cleaner")
def _(error_message: str) -> str:
    trusted("regex based cleaner, contracted at string level in contracts/error_cleaner.py (bounded)")
    no_native("prover-side abstraction; the executable contract is in contracts/error_cleaner.py")
    ensures(result == Cleaned(error_message))


@contract("check_java_available")
def _() -> None:
    properties("C18")
    no_native("depends on PATH of the checking process")
    raises(OSError, when=not JavaOnPath())


@contract("check_xform")
def _(path_to_xform: str) -> List[str]:
    properties("C18")
    no_native("needs a process-level stand-in for java: covered by the e2e oracle with a scripted validator")
    r = ValidatorResult(path_to_xform)
    raises(OSError, when=not JavaOnPath())
    # the validator rejected the form: conversion fails with the cleaned diagnostics
    raises(ODKValidateError, when=JavaOnPath() and not r.timeout and r.return_code > 0,
           message=message == "ODK Validate Errors:\n" + Cleaned(r.stderr))
    ensures(implies(r.timeout, result == ["XForm took to long to completely validate."]))
    ensures(implies(not r.timeout and r.return_code == 0 and len(r.stderr) > 0,
                    result == ["ODK Validate Warnings:\n" + r.stderr]))
    ensures(implies(not r.timeout and r.return_code == 0 and len(r.stderr) == 0, result == []))
    ensures(implies(not r.timeout and r.return_code < 0, result == ["Bad return code from ODK Validate."]))
