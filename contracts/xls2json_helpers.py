# Sidecar contracts for the sheet-layer helpers of pyxform/xls2json.py (C05, C06, C09, C10, C13).
# All `trusted(...)`: nested dicts / regex substitution are outside the prover's subset; the contracts are checked by bounded
# native search only (spec helpers + generators: contracts/native_xls2json_helpers.py).
MODULE = "pyxform.xls2json"

Any = Opaque("Any")


# ---------------------------------------------------------------- choice lists (C09)

@contract("group_dictionaries_by_key")
def _(list_of_dicts: Any, key: str, remove_key: bool = True) -> Any:
    properties("C09")
    trusted("list of dicts grouped into a dict of lists: bounded native search only")
    exhaustive_only()
    # C09: "Every list on the choices sheet yields exactly one secondary instance whose items are that list's choices in sheet
    # order, each with its name, its label (or itext id) and all extra columns in column order; lists are never merged,
    # truncated or reordered": one entry per list name (names that differ in case or spacing are different lists), in order of
    # first appearance; each holds exactly its own rows, in sheet order, every other cell kept, in column order
    ensures(XH_group_observed(result) == XH_group_expected(list_of_dicts, key, remove_key))
    ensures(sum(len(v) for v in result.values()) == len([r for r in list_of_dicts if key in r]))


# ---------------------------------------------------------------- cell text (C13, C06)

@contract("clean_text_values")
def _(sheet_name: str, data: Any, strip_whitespace: bool = False, add_row_number: bool = False) -> Any:
    properties("C13", "C06")
    trusted("regex substitution over dict rows: bounded native search only")
    exhaustive_only()
    # only cells that open a ${reference} can be refused; a reference that is never closed is refused
    may_raise(PyXFormError, when=XH_has_ref_start(data))
    raises(PyXFormError, when=XH_unclosed_reference(sheet_name, data))
    # C13: "smart or straight quotes; extra whitespace around or inside survey cell text"; C06: "recovered character-for-
    # character, modulo the documented whitespace collapsing": each text cell becomes its cleaned spelling (ends trimmed and
    # runs of spaces collapsed only when asked to, curly quotes straightened, every other character kept); other cells, keys,
    # row order untouched; C13 "row numbers quoted in messages": __row = spreadsheet row (first data row is 2)
    ensures(len(result) == len(data))
    ensures([list(r.items()) for r in result] == XH_clean_rows_expected(data, strip_whitespace, add_row_number))
    # cleaning is idempotent
    ensures(XH_clean_idempotent(sheet_name, result, strip_whitespace, add_row_number))
    # C13 as 2-safety: the sheet typed with curly quotes / extra white space cleans to the same rows
    ensures(XH_clean_respelling_stable(sheet_name, data, strip_whitespace, add_row_number, result))


# ---------------------------------------------------------------- range parameters (C05)

@contract("process_range_question_type")
def _(row: Any, parameters: Any) -> Any:
    properties("C05", "C04")
    trusted("dict rows: bounded native search only")
    exhaustive_only()
    requires(XH_range_unknown_parameter(parameters) or XH_range_not_a_number(parameters) or XH_range_all_plain_numbers(parameters))
    # invalid parameters are refused: a name other than start/end/step, a value that is not a number
    raises(PyXFormError, when=XH_range_unknown_parameter(parameters) or XH_range_not_a_number(parameters))
    # start / end / step as written, the documented defaults 1 / 10 / 1 for those left out, nothing else
    ensures(result["parameters"] == XH_range_final(parameters))
    # C05: "parameter-derived bind attributes ... The bind's data type [is that] the XLSForm type table prescribes": decimal
    # exactly when one of start/end/step is written as a decimal number, otherwise the row's bind is left as it was;
    # "No attribute is dropped, duplicated": the row's own logic attributes (relevant, required, ...) all stay on its bind
    ensures(XH_range_bind_ok(row, parameters, result))
    # every other cell of the row is passed on unchanged, in the same order
    ensures(XH_frame(row, result, ("bind", "parameters")))


# ---------------------------------------------------------------- image defaults (C10)

@contract("process_image_default")
def _(default_value: str) -> str:
    properties("C10", "C06")
    trusted("string classification through the expression lexer: bounded native search only")
    exhaustive_only()
    # C10/C06: the author's text is never altered, at most the media URI prefix is put in front of it
    ensures(result == default_value or result == XH_IMAGE_PREFIX + default_value)
    # C10: "A static default value appears as the literal content of the question's instance node": a file name becomes the
    # jr://images/ URI of that file (once); "a dynamic default (an expression) ... with the expression": left exactly as written
    ensures(implies(XH_image_class(default_value) == "file", result == XH_IMAGE_PREFIX + default_value))
    ensures(implies(XH_image_class(default_value) in ("prefixed", "dynamic"), result == default_value))
    ensures(implies(XH_image_class(default_value) is not None, XH_image_idempotent(result)))


# ---------------------------------------------------------------- select questions and their list (C09)

@contract("add_choices_info_to_question")
def _(question: Any, list_name: str, choices: Any, choice_filter: Opt[str], file_extension: Opt[str]) -> Any:
    properties("C09")
    trusted("dict rows: bounded native search only")
    exhaustive_only()
    requires(implies(XH_plain_select(question, list_name, choice_filter, file_extension), list_name in choices))
    ensures(result is None)
    # C09: "Each select question's itemset reads from the instance of the list or external file named in its type cell"
    ensures(final_question["itemset"] == list_name)
    # ... and whenever choices are attached they are that list's choices, never another list's
    ensures(implies("choices" in final_question, list_name in choices and final_question["choices"] == choices[list_name]
                    and final_question.get("list_name") == list_name))
    ensures(implies("list_name" in final_question, final_question["list_name"] == list_name))
    # a select reading an internal list as is carries that list
    ensures(implies(XH_plain_select(question, list_name, choice_filter, file_extension), "choices" in final_question))
    # the external-choices query is set exactly for filtered select_one_external questions, and names the list
    ensures(iff("query" in final_question, bool(choice_filter) and question["type"] == "select one external"))
    ensures(implies("query" in final_question, final_question["query"] == list_name))
    # nothing else of the row changes; the lists are not modified
    ensures(XH_frame(question, final_question, XH_CHOICE_KEYS))
    ensures(final_choices == choices)
