"""Native helpers for contracts/survey.py: executable spec functions and small-scope generators (bounded stand-in)."""
import itertools
import types

STD_NSMAP = {
    "xmlns": "http://www.w3.org/2002/xforms",
    "xmlns:h": "http://www.w3.org/1999/xhtml",
    "xmlns:ev": "http://www.w3.org/2001/xml-events",
    "xmlns:xsd": "http://www.w3.org/2001/XMLSchema",
    "xmlns:jr": "http://openrosa.org/javarosa",
    "xmlns:orx": "http://openrosa.org/xforms",
    "xmlns:odk": "http://www.opendatakit.org/xforms",
}   # the namespace table of the ODK XForms specification (written down here, not read from pyxform)


def _tokens(ns):
    """`prefix=uri` declarations of a namespaces setting: whitespace separated, exactly one '=', non-empty prefix."""
    out = []
    for tok in (ns or "").split():
        parts = tok.split("=", 1)   # the URI may itself contain '=' (query string)
        if len(parts) == 2 and parts[0] != "":
            out.append((parts[0], parts[1].replace('"', "").replace("'", "")))
    return out


def InvalidNsToken(ns):
    """Some declaration cannot be written as xmlns:prefix="uri": prefix not an NCName, reserved, or empty URI."""
    import re

    nc = re.compile("[A-Z_a-z\u00C0-\u00D6\u00D8-\u00F6\u00F8-\u02FF\u0370-\u037D\u037F-\u1FFF\u200C-\u200D\u2070-\u218F"
                    "\u2C00-\u2FEF\u3001-\uD7FF\uF900-\uFDCF\uFDF0-\uFFFD\U00010000-\U000EFFFF]"
                    "[-.0-9A-Z_a-z\u00B7\u00C0-\u00D6\u00D8-\u00F6\u00F8-\u037D\u037F-\u1FFF\u200C-\u200D\u203F-\u2040"
                    "\u2070-\u218F\u2C00-\u2FEF\u3001-\uD7FF\uF900-\uFDCF\uFDF0-\uFFFD\U00010000-\U000EFFFF]*")
    for p, u in _tokens(ns):
        if not nc.fullmatch(p) or p == "xmlns" or (p == "xml") != (u == "http://www.w3.org/XML/1998/namespace") or not u:
            return True
    return False


def DeclaresPrefix(ns, prefix):
    return any(p == prefix for p, _ in _tokens(ns))


def DeclaredUris(ns, prefix):
    return [u for p, u in _tokens(ns) if p == prefix]


def FirstDeclarations(ns):
    seen, out = set(), []
    for p, u in _tokens(ns):
        if p not in seen:
            seen.add(p)
            out.append((p, u))
    return out


def _nsmap_cases():
    toks = ["entities", "=", " ", "x", "http://e/entities", '"', "orx=http://mine", "a=b", "entities=http://other", "=u",
            "1a", "xml", "xmlns", "p:q", "u?a=b"]
    strings = {None, ""}
    for n in range(1, 4):
        for combo in itertools.product(toks, repeat=n):
            strings.add("".join(combo))
    for ns in sorted(strings, key=lambda s: (s is not None, s or "")):
        for ef in (None, [], ["create"]):
            yield {"self": types.SimpleNamespace(entity_features=ef, namespaces=ns)}


EXHAUSTIVE = {"pyxform.survey.Survey.get_nsmap": _nsmap_cases}


# ------------------------------------------------------------------ itext block and padding (C07 / C08 / C06), bounded

def _svb_forms(content):
    return [k for k in content if k != "type"]


def SVB_pad_problems(before, after):
    """_add_empty_translations: same ids and forms in every language, '-' only where nothing was written, nothing else touched."""
    out = []
    t0, t1 = before._translations, after._translations
    if list(t1) != list(t0):
        out.append(f"languages changed: {list(t0)} -> {list(t1)}")
    # what was written stays exactly as written
    for lang, tr in t0.items():
        for path, content in tr.items():
            for form, val in content.items():
                if t1.get(lang, {}).get(path, {}).get(form, "<missing>") != val:
                    out.append(f"written entry changed: [{lang}][{path}][{form}]")
    ids = {}
    for tr in t0.values():
        for path, content in tr.items():
            ids.setdefault(path, [])
            for f in _svb_forms(content):
                if f not in ids[path]:
                    ids[path].append(f)
    # choices of itext lists always have an entry
    for name, itemset in (getattr(before, "choices", None) or {}).items():
        if itemset.requires_itext and t0:
            for idx in range(len(itemset.options)):
                ids.setdefault(f"{name}-{idx}", ["long"] if f"{name}-{idx}" not in ids else ids[f"{name}-{idx}"])
    for lang, tr in t1.items():
        if set(tr) != set(ids):
            out.append(f"[{lang}] ids {sorted(tr)} != {sorted(ids)}")
            continue
        for path, forms in ids.items():
            have = set(_svb_forms(tr[path]))
            if have != set(forms):
                out.append(f"[{lang}][{path}] forms {sorted(have)} != {sorted(forms)}")
            for f in forms:
                was = t0.get(lang, {}).get(path, {}).get(f, None)
                now = tr[path].get(f)
                if was is None and now != "-":
                    out.append(f"[{lang}][{path}][{f}] padded with {now!r}, not '-'")
    return out[:5]


def _svb_pad_cases():
    langs_sets = [[], ["en"], ["en", "fr"], ["default", "fr", "sw"]]
    paths = ["/d/a:label", "/d/a:hint", "l-0", "l-1"]
    forms = ["long", "guidance", "image", "audio"]
    import random

    rnd = random.Random(7)
    for langs in langs_sets:
        for _ in range(400 if langs else 1):
            tr = {}
            for lang in langs:
                tr[lang] = {}
                for p in paths:
                    if rnd.random() < 0.55:
                        c = {f: (f"{lang}:{p}:{f}" if rnd.random() < 0.8 else {"text": f"{lang} ${{a}}", "output_context": None})
                             for f in forms if rnd.random() < 0.4}
                        if c or rnd.random() < 0.2:
                            c["type"] = "choice" if p.startswith("l-") else "question"
                            tr[lang][p] = c
            choices = None
            if rnd.random() < 0.6:
                opts = [types.SimpleNamespace(name=f"o{i}") for i in range(rnd.choice([1, 2, 3]))]
                choices = {"l": types.SimpleNamespace(requires_itext=rnd.random() < 0.7, options=opts, name="l")}
            yield {"self": types.SimpleNamespace(_translations=tr, choices=choices)}


def SVB_itext_problems(self, result):
    """Survey.itext: structure of the itext block against self._translations (real minidom nodes inspected)."""
    out = []
    if result.tagName != "itext":
        return [f"root is {result.tagName}"]
    trs = [n for n in result.childNodes if n.nodeType == 1]
    langs = list(self._translations)
    if [t.getAttribute("lang") for t in trs] != langs or any(t.tagName != "translation" for t in trs):
        return [f"translations {[t.getAttribute('lang') for t in trs]} != languages {langs}"]
    for t, lang in zip(trs, langs):
        is_default = lang == self.default_language
        if t.hasAttribute("default") != is_default or (is_default and t.getAttribute("default") != "true()"):
            out.append(f"default marking of {lang!r} wrong (default language {self.default_language!r})")
        texts = [n for n in t.childNodes if n.nodeType == 1]
        want_ids = list(self._translations[lang])
        if [x.getAttribute("id") for x in texts] != want_ids or any(x.tagName != "text" for x in texts):
            out.append(f"[{lang}] text ids {[x.getAttribute('id') for x in texts]} != {want_ids}")
            continue
        for x, path in zip(texts, want_ids):
            content = self._translations[lang][path]
            kind = path.partition(":")[-1]
            expected = []
            for form, val in content.items():
                if form == "type":
                    continue
                text = val["text"] if isinstance(val, dict) else val
                shown, parsed = _svb_iov(text)
                if kind == "hint":
                    expected.append(("guidance" if form == "guidance" else None, shown, parsed))
                elif form == "long":
                    expected.append((None, shown, parsed))
                elif form in ("image", "big-image"):
                    if shown != "-":
                        expected.append((form, "jr://images/" + shown, parsed))
                elif shown != "-":
                    expected.append((form, f"jr://{form}/" + shown, parsed))
            values = [n for n in x.childNodes if n.nodeType == 1]
            got = []
            for v in values:
                form = v.getAttribute("form") if v.hasAttribute("form") else None
                got.append((form, "".join(_svb_flat(c) for c in v.childNodes)))
            want = [(f, _svb_rendered(s_, p_)) for f, s_, p_ in expected]
            if got != want or any(v.tagName != "value" for v in values):
                out.append(f"[{lang}][{path}] values {got} != {want}")
    return out[:5]


def _svb_iov(text):
    """The stub insert_output_values used by the generator: references become <output/> and the rest is escaped."""
    if text == "-" or "${" not in text:
        return text, False
    esc = text.replace("&", "&amp;").replace("<", "&lt;").replace(">", "&gt;")
    return esc.replace("${a}", '<output value=" /d/a "/>'), True


def _svb_rendered(shown, parsed):
    """What a value node must contain: the text itself as character data, or (when parsed) text pieces and outputs."""
    if not parsed:
        return shown
    return shown.replace("&lt;", "<").replace("&gt;", ">").replace("&amp;", "&").replace('<output value=" /d/a "/>', "{output: /d/a }")


def _svb_flat(n):
    if n.nodeType in (3, 4):
        return n.data
    if n.nodeType == 1 and n.tagName == "output":
        return "{output:" + n.getAttribute("value") + "}"
    return "<" + getattr(n, "tagName", "?") + ">"


def _svb_itext_cases():
    import random

    rnd = random.Random(11)
    texts = ["plain", "a < b & c", "<b>bold</b>", "x ${a} y", "${a}", "-", "a &amp; ${a} <i>", "]]>", ""]
    paths = ["/d/a:label", "/d/a:hint", "/d/b:jr:constraintMsg", "l-0", "/d/g:label"]
    forms = ["long", "guidance", "image", "audio", "big-image", "video"]
    for langs, default in ((["en"], "en"), (["en", "fr"], "fr"), (["default", "fr"], "default"), (["en", "fr", "sw"], "xx"),
                           (["fr", "en"], "en"), (["English", "english", "ENGLISH "], "English"), (["en ", "en"], "en"),
                           (["default", "Default"], "default")):
        for _ in range(300):
            tr = {}
            ids = [p for p in paths if rnd.random() < 0.7]
            for lang in langs:
                tr[lang] = {}
                for p in ids:
                    c = {}
                    for f in forms:
                        if rnd.random() < 0.35:
                            t = rnd.choice(texts)
                            c[f] = {"text": t, "output_context": None} if rnd.random() < 0.5 else t
                    c["type"] = "question"
                    tr[lang][p] = c

            def iov(text, context=None):
                return _svb_iov(text)

            yield {"self": types.SimpleNamespace(_translations=tr, default_language=default, insert_output_values=iov)}


EXHAUSTIVE.update({
    "pyxform.survey.Survey._add_empty_translations": _svb_pad_cases,
    "pyxform.survey.Survey.itext": _svb_itext_cases,
})
