"""Native helpers for contracts/survey.py: executable spec functions and small-scope generators (bounded stand-in)."""
import itertools
import types

STD_NSMAP = {
    "xmlns": "http://www.w3.org/2002/xforms",
    "xmlns:h": "http://www.w3.org/1999/xhtml",
    "xmlns:ev": "http://www.w3.org/2001/xml-events",
    "xmlns:xsd": "http://www.w3.org/2001/XMLSchema",
    "xmlns:jr": "http://openrosa.org/javarosa",
    "xmlns:orx": "http://openrosa.org/xforms",
    "xmlns:odk": "http://www.opendatakit.org/xforms",
}   # the namespace table of the ODK XForms specification (written down here, not read from pyxform)


def _tokens(ns):
    """`prefix=uri` declarations of a namespaces setting: whitespace separated, exactly one '=', non-empty prefix."""
    out = []
    for tok in (ns or "").split():
        parts = tok.split("=", 1)   # the URI may itself contain '=' (query string)
        if len(parts) == 2 and parts[0] != "":
            out.append((parts[0], parts[1].replace('"', "").replace("'", "")))
    return out


def InvalidNsToken(ns):
    """Some declaration cannot be written as xmlns:prefix="uri": prefix not an NCName, reserved, or empty URI."""
    import re

    nc = re.compile("[A-Z_a-z\u00C0-\u00D6\u00D8-\u00F6\u00F8-\u02FF\u0370-\u037D\u037F-\u1FFF\u200C-\u200D\u2070-\u218F"
                    "\u2C00-\u2FEF\u3001-\uD7FF\uF900-\uFDCF\uFDF0-\uFFFD\U00010000-\U000EFFFF]"
                    "[-.0-9A-Z_a-z\u00B7\u00C0-\u00D6\u00D8-\u00F6\u00F8-\u037D\u037F-\u1FFF\u200C-\u200D\u203F-\u2040"
                    "\u2070-\u218F\u2C00-\u2FEF\u3001-\uD7FF\uF900-\uFDCF\uFDF0-\uFFFD\U00010000-\U000EFFFF]*")
    for p, u in _tokens(ns):
        if not nc.fullmatch(p) or p == "xmlns" or (p == "xml") != (u == "http://www.w3.org/XML/1998/namespace") or not u:
            return True
    return False


def DeclaresPrefix(ns, prefix):
    return any(p == prefix for p, _ in _tokens(ns))


def DeclaredUris(ns, prefix):
    return [u for p, u in _tokens(ns) if p == prefix]


def FirstDeclarations(ns):
    seen, out = set(), []
    for p, u in _tokens(ns):
        if p not in seen:
            seen.add(p)
            out.append((p, u))
    return out


def _nsmap_cases():
    toks = ["entities", "=", " ", "x", "http://e/entities", '"', "orx=http://mine", "a=b", "entities=http://other", "=u",
            "1a", "xml", "xmlns", "p:q", "u?a=b"]
    strings = {None, ""}
    for n in range(1, 4):
        for combo in itertools.product(toks, repeat=n):
            strings.add("".join(combo))
    for ns in sorted(strings, key=lambda s: (s is not None, s or "")):
        for ef in (None, [], ["create"]):
            yield {"self": types.SimpleNamespace(entity_features=ef, namespaces=ns)}


EXHAUSTIVE = {"pyxform.survey.Survey.get_nsmap": _nsmap_cases}
