# Sidecar contracts for pyxform/xls2json_backends.py  (C12, C17)
MODULE = "pyxform.xls2json_backends"

Cell = Opt[str]


@contract("trim_trailing_empty")
def _(a_list: List[T], n_empty: int) -> List[T]:
    properties("C12")
    requires(0 <= n_empty <= len(a_list))
    ensures(result == a_list[: len(a_list) - n_empty])
    ensures(len(result) == len(a_list) - n_empty)


@contract("is_empty")
def _(value: Opt[str]) -> bool:
    properties("C12")
    ensures(result == IsEmpty(value))


@spec
def IsEmpty(value: Opt[str]) -> bool:
    if value is None:
        return True
    return len(value) == 0 or value.isspace()


@spec
def Run(row: List[Opt[str]], i: int) -> int:
    """Number of consecutive empty cells ending just before index i."""
    if i <= 0:
        return 0
    if IsEmpty(row[i - 1]):
        return Run(row, i - 1) + 1
    return 0


@spec
def CleanHeader(h: str) -> str:
    return re_sub("( )+", " ", strip(h.replace("\xa0", " ")))


@contract("get_excel_column_headers")
def _(first_row: List[Opt[str]]) -> List[Opt[str]]:
    properties("C12", "C17")
    locals(column_header_list=List[Opt[str]])
    n = len(first_row)
    may_raise(PyXFormError, when=True)
    # every kept position holds None for an empty header, else the cleaned header
    ensures(len(result) <= n)
    ensures(forall(0, len(result), lambda k: implies(IsEmpty(first_row[k]), result[k] is None)))
    ensures(forall(0, len(result), lambda k: implies(not IsEmpty(first_row[k]),
                                                     result[k] == CleanHeader(first_row[k]))))
    # C12: runs of up to 20 empty columns never truncate; only trailing empties are trimmed
    ensures(implies(forall(0, n + 1, lambda k: Run(first_row, k) <= 20),
                    len(result) == n - Run(first_row, n)))

    @loop(0, index="i")
    def _():
        invariant(0 <= adjacent_empty_cols <= 20)
        invariant(adjacent_empty_cols == Run(first_row, i))
        invariant(len(column_header_list) == i)
        invariant(forall(0, i, lambda k: implies(IsEmpty(first_row[k]), column_header_list[k] is None)))
        invariant(forall(0, i, lambda k: implies(not IsEmpty(first_row[k]),
                                                 column_header_list[k] == CleanHeader(first_row[k]))))
        hint(Run(first_row, i + 1) >= 0)


XCell = Obj("Cell", value=Opt[str])
CV = Opaque("CellValue")


@spec
def RowEmptyPrefix(headers: List[Opt[str]], row: List[XCell], c: int) -> bool:
    """No non-empty cell under a named header among the first c columns."""
    if c <= 0:
        return True
    if not RowEmptyPrefix(headers, row, c - 1):
        return False
    return headers[c - 1] is None or c - 1 >= len(row) or IsEmpty(row[c - 1].value)


@spec
def RunRows(headers: List[Opt[str]], rows: List[List[XCell]], r: int) -> int:
    """Number of consecutive empty rows ending just before row r."""
    if r <= 0:
        return 0
    if RowEmptyPrefix(headers, rows[r - 1], len(headers)):
        return RunRows(headers, rows, r - 1) + 1
    return 0


@contract("get_excel_rows")
def _(headers: List[Opt[str]], rows: List[List[XCell]], cell_func: Fn(XCell, int, str, ret=CV)) -> List[Dict[str, CV]]:
    properties("C12", "C13")
    locals(result_rows=List[Dict[str, CV]], row_dict=Dict[str, CV])
    n = len(rows)
    ensures(len(result) <= n)
    # header names are distinct (get_excel_column_headers refuses duplicates)
    requires(forall2(len(headers), lambda a, b: headers[a] is None or headers[a] != headers[b]))
    # C12: every non-empty cell under a named header is read by the reader's own cell function of *that* cell —
    # never a value computed for another cell
    ensures(forall(0, len(result), lambda k: forall(0, len(headers), lambda c: implies(
        headers[c] is not None and c < len(rows[k]) and not IsEmpty(rows[k][c].value),
        some(headers[c]) in result[k] and result[k][some(headers[c])] == cell_func(rows[k][c], k, some(headers[c]))))))
    # a kept row is the empty dict exactly when the sheet row is empty (row numbering preserved)
    ensures(forall(0, len(result), lambda k: (len(result[k]) == 0) == RowEmptyPrefix(headers, rows[k], len(headers))))
    # C12: runs of up to 60 empty rows never truncate; only trailing empty rows are trimmed
    ensures(implies(forall(0, n + 1, lambda k: RunRows(headers, rows, k) <= 60),
                    len(result) == n - RunRows(headers, rows, n)))

    @loop(0, index="r")
    def _():
        invariant(0 <= adjacent_empty_rows <= 60)
        invariant(adjacent_empty_rows == RunRows(headers, rows, r))
        invariant(len(result_rows) == r)
        invariant(forall(0, r, lambda k: (len(result_rows[k]) == 0) == RowEmptyPrefix(headers, rows[k], len(headers))))
        invariant(forall(0, r, lambda k: forall(0, len(headers), lambda c: implies(
            headers[c] is not None and c < len(rows[k]) and not IsEmpty(rows[k][c].value),
            some(headers[c]) in result_rows[k] and result_rows[k][some(headers[c])] == cell_func(rows[k][c], k, some(headers[c]))))))
        hint(RunRows(headers, rows, r + 1) >= 0)

    @loop(1, index="c")
    def _():
        invariant((len(row_dict) == 0) == RowEmptyPrefix(headers, row, c))
        invariant(forall(0, c, lambda d: implies(
            headers[d] is not None and d < len(row) and not IsEmpty(row[d].value),
            some(headers[d]) in row_dict and row_dict[some(headers[d])] == cell_func(row[d], row_n, some(headers[d])))))
        hint(RowEmptyPrefix(headers, row, c + 1) or True)
        hint(forall(0, c, lambda d: headers[d] is None or headers[d] != headers[c]))
