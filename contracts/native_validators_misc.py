"""Native helpers for contracts/validators_misc.py: spec functions written from C17/C20 and small-scope generators.

Spec functions do not call pyxform.  The only pyxform data read is the IANA subtag registry shipped in
pyxform/validators/pyxform/iana_subtags/*.txt, which C20 ("a valid IANA code") names as the oracle."""
import itertools
import os
import re
import sys

_vmi_start = ("A-Z_a-z\\u00C0-\\u00D6\\u00D8-\\u00F6\\u00F8-\\u02FF\\u0370-\\u037D\\u037F-\\u1FFF\\u200C-\\u200D\\u2070-\\u218F"
              "\\u2C00-\\u2FEF\\u3001-\\uD7FF\\uF900-\\uFDCF\\uFDF0-\\uFFFD\\U00010000-\\U000EFFFF")
_vmi_nc = f"[{_vmi_start}][{_vmi_start}\\-.0-9\\u00B7\\u0300-\\u036F\\u203F-\\u2040]*"     # XML Namespaces 1.0 NCName
_vmi_ref = re.compile(rf"\$\{{(last-saved#)?{_vmi_nc}(:{_vmi_nc})?\}}")                    # ${name} or ${last-saved#name}
_vmi_plain_ref = re.compile(rf"\$\{{{_vmi_nc}(:{_vmi_nc})?\}}")
_vmi_row = re.compile(r"\[row : (\d+)\]")

# the supported sheet names of an XLSForm workbook (XLSForm documentation), written down here
VMI_SHEETS = ("survey", "choices", "settings", "external_choices", "entities", "osm")
VMI_SELECT_FROM_FILE = ("select_one_from_file", "select_multiple_from_file", "select one from file", "select multiple from file")


def vmi_raised():
    """Exception raised by the function under test in the check in progress (None if it returned, or before the call).
    pyvc.native.NativeContract.check does not expose it to `when=` expressions; it is read from that frame."""
    f = sys._getframe(1)
    while f is not None:
        if f.f_code.co_name == "check" and "call_args" in f.f_locals and "self" in f.f_locals:
            return f.f_locals.get("exc")
        f = f.f_back
    return None


def vmi_q(name):
    return "'" + name + "'"


def vmi_error_cites(row, *names):
    """True when nothing was raised; otherwise the raised message cites exactly this spreadsheet row and contains each of
    `names` (quoted sheet, column, parameter ...)."""
    exc = vmi_raised()
    if exc is None:
        return True
    msg = str(exc)
    return [int(n) for n in _vmi_row.findall(msg)] == [row] and all(n in msg for n in names)


def vmi_error_cites_one_of(rows):
    exc = vmi_raised()
    if exc is None:
        return True
    cited = [int(n) for n in _vmi_row.findall(str(exc))]
    return len(cited) == 1 and cited[0] in rows


def vmi_error_names(names):
    exc = vmi_raised()
    if exc is None:
        return True
    return all(n in str(exc) for n in names)


# ------------------------------------------------------------------ sheet names

def vmi_lev(a, b):
    """Levenshtein distance (insertions, deletions, substitutions), full matrix."""
    d = [[0] * (len(b) + 1) for _ in range(len(a) + 1)]
    for i in range(len(a) + 1):
        d[i][0] = i
    for j in range(len(b) + 1):
        d[0][j] = j
    for i in range(1, len(a) + 1):
        for j in range(1, len(b) + 1):
            d[i][j] = min(d[i - 1][j] + 1, d[i][j - 1] + 1, d[i - 1][j - 1] + (0 if a[i - 1] == b[j - 1] else 1))
    return d[len(a)][len(b)]


def vmi_similar_sheets(key, keys):
    """Sheet names that look like a misspelling of the missing sheet `key`: within edit distance 2 (sheet names are not
    case sensitive), not prefixed with an underscore, and not themselves the name of a supported sheet (a workbook reader
    accepts those whatever their case or surrounding blanks)."""
    return [k for k in (keys or ()) if not k.startswith("_") and k.strip().lower() not in VMI_SHEETS and vmi_lev(k.lower(), key) <= 2]


def vmi_quoted(message):
    return re.findall(r"'([^']*)'", message)


# ------------------------------------------------------------------ language codes

_vmi_tags = None


def vmi_iana_codes():
    global _vmi_tags
    if _vmi_tags is None:
        # the registry as shipped with the unchanged library (a scratch copy under test is not the oracle)
        root = "/repo/pyxform/validators/pyxform/iana_subtags"
        if not os.path.isdir(root):
            root = os.path.join(os.environ.get("VERIF_REPO", "/repo"), "pyxform", "validators", "pyxform", "iana_subtags")
        tags = set()
        for fn in ("iana_subtags_2_characters.txt", "iana_subtags_3_or_more_characters.txt"):
            with open(os.path.join(root, fn), encoding="utf-8") as f:
                tags.update(line.strip() for line in f if line.strip())
        _vmi_tags = tags
    return _vmi_tags


def vmi_lang_lacks_code(label):
    """Not the default language, and no trailing "(code)" whose code is in the IANA registry."""
    if label == "default":
        return False
    if not label.endswith(")") or "(" not in label:
        return True
    code = label[label.rindex("(") + 1: -1]
    return code not in vmi_iana_codes()


# ------------------------------------------------------------------ references

def vmi_malformed_reference(value):
    """Some "${" does not begin a well-formed ${name} / ${last-saved#name}."""
    i = value.find("${")
    while i != -1:
        if not _vmi_ref.match(value, i):
            return True
        i = value.find("${", i + 2)
    return False


def vmi_is_one_reference(value, last_saved_ok=False):
    return isinstance(value, str) and (_vmi_ref if last_saved_ok else _vmi_plain_ref).fullmatch(value) is not None


def vmi_unknown_trigger_rows(referrers, questions):
    out = []
    for row, n in referrers:
        t = row["trigger"]
        if t.startswith("${") and "}" in t and t[2: t.index("}")] not in questions:
            out.append(n)
    return out


# ------------------------------------------------------------------ parameters

def vmi_param_items(raw):
    if ";" in raw:
        return raw.split(";")
    if "," in raw:
        return raw.split(",")
    return raw.split()


def vmi_param_dict(raw):
    out = {}
    for item in vmi_param_items(raw):
        name, _, val = item.partition("=")
        name = name.strip().lower()
        out[name] = val.strip() if name in ("label", "value", "seed") else val.strip().lower()
    return out


def vmi_value_or_label_ok(value):
    return len(value) > 0 and (value[0] in "_" or ("a" <= value[0].lower() <= "z" and value[0].isascii())) and all(
        c.isascii() and (c.isalnum() or c in "-_.") for c in value)


def vmi_has_supported_extension(list_name):
    return any(list_name.endswith(e) and len(list_name) > len(e) and not list_name[: -len(e)].endswith("/") for e in (".csv", ".xml", ".geojson"))


def vmi_android_package_ok(name):
    segs = name.split(".")
    return len(segs) >= 2 and all(
        len(s) > 0 and s[0].isascii() and s[0].isalpha() and all(c.isascii() and (c.isalnum() or c == "_") for c in s) for s in segs)


# ------------------------------------------------------------------ generators

def _vmi_edits(s, alphabet="xs_"):
    """Strings at edit distance 1 from s (deletions, substitutions, insertions over a small alphabet)."""
    out = set()
    for i in range(len(s)):
        out.add(s[:i] + s[i + 1:])
        for c in alphabet:
            out.add(s[:i] + c + s[i + 1:])
    for i in range(len(s) + 1):
        for c in alphabet:
            out.add(s[:i] + c + s[i:])
    out.discard(s)
    return out


def _vmi_sheet_name_pool():
    pool = {}
    for s in VMI_SHEETS:
        e1 = _vmi_edits(s)
        names = set(e1)
        for t in sorted(e1)[::3]:
            e2 = _vmi_edits(t, "x")
            names.update(sorted(e2)[::2])
            for u in sorted(e2)[::7]:
                names.update(sorted(_vmi_edits(u, "x"))[::5])        # distance up to 3: beyond the radius
        names.discard(s)
        pool[s] = sorted(names)
    return pool


def _vmi_misspelling_cases():
    pool = _vmi_sheet_name_pool()
    yield {"key": "settings", "keys": None}
    yield {"key": "settings", "keys": []}
    tail = []
    for key in VMI_SHEETS:
        for near in VMI_SHEETS:
            for name in pool[near]:
                if near != key and vmi_lev(name, key) > 4:
                    continue
                for variant in (name, name.upper(), "_" + name, name.capitalize()):
                    yield {"key": key, "keys": [variant]}
        # several sheets: order kept, supported names never reported
        others = [s for s in VMI_SHEETS if s != key]
        yield {"key": key, "keys": list(others)}
        sample = pool[key][::40]
        for a, b in itertools.permutations(sample[:6], 2):
            yield {"key": key, "keys": ["survey", a, "_" + b, b, "data", a.upper()]}
        # a sheet with a supported name (however written) is not a misspelling of itself, even if it has no rows
        tail.append({"key": key, "keys": [key]})
        tail.append({"key": key, "keys": [key.capitalize(), " " + key + " ", key.upper()]})
    yield from tail


def _vmi_language_cases():
    codes = sorted(vmi_iana_codes())
    two = [c for c in codes if len(c) == 2]
    names = ["French", "a", "ab", "abc", "", "default", "Default", "français", "x (y)"]
    suffixes = ["", "(fr)", " (fr)", " (zz)", " (zzzz)", " (fr", " fr)", " ()", " (fil)", " (fr) ", " (fr)x", "()", "(f)", " [fr]", "(default)"]
    labels = []
    for n in names:
        for s in suffixes:
            labels.append(n + s)
    # kept for the end (see report): 1-2 character labels, and labels with an earlier bracket before the trailing (code)
    def is_tail(l):
        return len(l) < 3 or (l.startswith("x (y)") and l.endswith(")") and l != "x (y)")

    body = [l for l in labels if not is_tail(l)]
    for l in body:
        yield {"languages": [l]}
    for a, b in itertools.permutations(body[::5], 2):
        yield {"languages": ["default", a, b, a]}
    # every registry code is accepted, near misses are not
    for c in codes:
        yield {"languages": ["L (" + c + ")"]}
    for c in two:
        yield {"languages": ["L (" + c + "q)", "L(" + c + ")", "(" + c + ")", "L (" + c + ") "]}
    # (triage: 1-2 character labels and labels with an earlier bracket before the trailing "(code)" are outside what
    # the statement decides — not generated)


def _vmi_reference_strings(tail):
    toks = ["${", "}", "a", "b1", " ", "last-saved#", "$", "{", ":", "-", "1", "/", "${a}", "é", "}}", "."]
    seen = set()
    for n in range(0, 5):
        for combo in itertools.product(toks, repeat=n):
            s = "".join(combo)
            if s in seen:
                continue
            seen.add(s)
            is_tail = s == "${" or "${}" in s
            if is_tail == tail:
                yield s


def _vmi_reference_cases():
    for tail in (False,):   # triage: a bare "${" / "${}" is literal text as far as the statement goes — not generated
        for s in _vmi_reference_strings(tail):
            yield {"value": s, "sheet_name": "survey", "row_number": 7, "key": "label"}
    for sheet, key in (("survey", "type"), ("survey", "name"), ("choices", "name"), ("choices", "label"), ("entities", "label"),
                       ("entities", "list_name"), ("settings", "name"), ("osm", "name"), ("survey", "list_name")):
        for s in ("${a", "${a}", "x ${a b}", "${a}${"):
            yield {"value": s, "sheet_name": sheet, "row_number": 12, "key": key}


def _vmi_parse_cases():
    toks = ["a", "=", "1", " ", ";", ",", "Seed", "${Q}", "label"]
    seen = set()
    for n in range(0, 6):
        for combo in itertools.product(toks, repeat=n):
            s = "".join(combo)
            if s in seen or any(item.count("=") > 1 for item in vmi_param_items(s)):
                continue
            seen.add(s)
            yield {"raw_parameters": s}
    for s in ("randomize=true, seed=${Q}", "value=Id;label=Name", "start=0 end=10 step=2", "Value = V", "capture-accuracy=10 warning-accuracy=10",
              "seed=${Q} randomize=TRUE", "a=X y;B= Z ", "a=1,b=2 ,c=3", "LABEL=Ab", "max-pixels=640", "app=com.Example.App"):
        yield {"raw_parameters": s}


def _vmi_validate_cases():
    names = ["rows", "quality", "seed", "Rows", "", "x"]
    for n in range(0, 4):
        for ks in itertools.permutations(names, n):
            for allowed in ((), ("rows",), ("quality", "rows"), ["seed", "rows", "x"], ("",)):
                yield {"parameters": {k: "v" + k for k in ks}, "allowed": allowed}


def _vmi_small_strings(alphabet, n):
    for k in range(n + 1):
        for t in itertools.product(alphabet, repeat=k):
            yield "".join(t)


def _vmi_value_or_label_cases():
    for s in _vmi_small_strings(["a", "Z", "_", "-", ".", "1", " ", "*", "é", "\n", "/"], 4):
        yield {"name": "value", "value": s, "row_number": 5}
    for s in ("name", "geometry", "id-1", "a b", "val*", "١", "aé", "a\n"):
        yield {"name": "label", "value": s, "row_number": 31}


def _vmi_value_or_label_test_cases():
    for c in _vmi_value_or_label_cases():
        yield {"value": c["value"]}


def _vmi_list_name_cases():
    stems = ["", "a", "my file", "A-1", "csv", "xml", "dir/a", "a.", ".hidden"]
    exts = ["", ".csv", ".xml", ".geojson", ".CSV", ".json", ".xlsx", ".csvx", ".geo", "csv", ".xml ", ".txt"]
    cmds = list(VMI_SELECT_FROM_FILE) + ["select_one", "select_multiple", "select_one_external", "rank", "select_one_from_files", "SELECT_ONE_FROM_FILE"]
    for st in stems:
        for e in exts:
            name = st + e
            if name.count(".") > 1 or name.startswith("."):       # several dots / dot-files: not settled by the statement
                continue
            for c in cmds:
                yield {"select_command": c, "list_name": name, "row_number": 9}


def _vmi_trigger_values():
    toks = ["${", "}", "a", "b", " ", ",", "last-saved#", "${a}", "1", ":"]
    seen = set()
    for n in range(0, 5):
        for combo in itertools.product(toks, repeat=n):
            s = "".join(combo)
            if s not in seen:
                seen.add(s)
                yield s


def _vmi_trigger_cases():
    yield {"row": {"type": "calculate", "name": "c"}, "row_num": 4}
    yield {"row": {"type": "calculate", "name": "c", "trigger": None}, "row_num": 4}
    for t in _vmi_trigger_values():
        yield {"row": {"type": "calculate", "name": "c", "trigger": t}, "row_num": 4}


def _vmi_bg_calc_cases():
    for bind in (None, {}, {"calculate": "1"}, {"calculate": ""}, {"relevant": "1"}, {"relevant": "1", "calculate": "${a}"}, {"Calculate": "1"}):
        for extra in ({}, {"calculate": "1"}, {"trigger": "${a}"}):
            row = {"type": "background-geopoint", "name": "g", **extra}
            if bind is not None:
                row["bind"] = bind
            yield {"row": row, "row_num": 6}


def _vmi_bg_trigger_cases():
    yield {"row": {"type": "background-geopoint", "name": "g"}, "row_num": 8}
    for t in _vmi_trigger_values():
        if t == t.strip() and "${last-saved#" not in t:
            for ty in ("background-geopoint", "background geopoint"):
                yield {"row": {"type": ty, "name": "g", "trigger": t}, "row_num": 8}


def _vmi_references_cases():
    trigs = ["${a}", "${b}", "${ab}", "${A}", "${a-b}"]
    qsets = [set(), {"a"}, {"b", "ab"}, {"a", "b", "ab", "A", "a-b"}, {"a}", "${a}"}]
    for n in range(0, 3):
        for ts in itertools.product(trigs, repeat=n):
            refs = [({"type": "background-geopoint", "name": f"g{i}", "trigger": t}, 10 + 3 * i) for i, t in enumerate(ts)]
            for qs in qsets:
                yield {"referrers": refs, "questions": set(qs)}


def _vmi_package_cases():
    for s in _vmi_small_strings(["a", "B", ".", "_", "1", " ", "-", "é"], 5):
        yield {"name": s}
    for s in ("com.example.app", "org.odk.collect.android", "com.Example_1.app2", "com..app", ".com.app", "com.app.", "com.1app", "com._app",
              "com.app$", "com", "", "  ", "com.١a", "a.b\n"):
        yield {"name": s}


EXHAUSTIVE = {
    "pyxform.validators.pyxform.sheet_misspellings.find_sheet_misspellings": _vmi_misspelling_cases,
    "pyxform.validators.pyxform.iana_subtags.validation.get_languages_with_bad_tags": _vmi_language_cases,
    "pyxform.validators.pyxform.pyxform_reference.validate_pyxform_reference_syntax": _vmi_reference_cases,
    "pyxform.validators.pyxform.parameters_generic.parse": _vmi_parse_cases,
    "pyxform.validators.pyxform.parameters_generic.validate": _vmi_validate_cases,
    "pyxform.validators.pyxform.select_from_file.value_or_label_check": _vmi_value_or_label_cases,
    "pyxform.validators.pyxform.select_from_file.value_or_label_test": _vmi_value_or_label_test_cases,
    "pyxform.validators.pyxform.select_from_file.validate_list_name_extension": _vmi_list_name_cases,
    "pyxform.validators.pyxform.question_types.validate_trigger": _vmi_trigger_cases,
    "pyxform.validators.pyxform.question_types.validate_background_geopoint_calculation": _vmi_bg_calc_cases,
    "pyxform.validators.pyxform.question_types.validate_background_geopoint_trigger": _vmi_bg_trigger_cases,
    "pyxform.validators.pyxform.question_types.validate_references": _vmi_references_cases,
    "pyxform.validators.pyxform.android_package_name.validate_android_package_name": _vmi_package_cases,
}
