# Sidecar contracts (bounded native search only) for pyxform/entities/entities_parsing.py  (C19, C17)
# (get_entity_declaration, get_validated_dataset_name and validate_entities_columns are contracted in contracts/entities_parsing.py)
MODULE = "pyxform.entities.entities_parsing"

Any = Opaque("Any")


@contract("validate_entity_saveto")
def _(row: Any, row_number: int, in_repeat: bool, entity_declaration: Any = None) -> None:
    properties("C19", "C17")
    trusted("regex on the type cell, nested dict lookups: outside the prover's subset — bounded native search only")
    exhaustive_only()
    # every survey row reaching this check has a type cell
    requires("type" in row)
    # C19 "Every save_to cell becomes an entities:saveto attribute on that question's bind ... and invalid dataset or
    # property names, unknown entities columns, multiple entity rows, or save_to inside a repeat or on a group are
    # rejected": a row with a save_to cell is refused exactly when no entity is declared, or the row opens a group or
    # repeat, or it sits inside a repeat, or the property name is not a valid one (reserved name/label, reserved __
    # prefix, not an XML name); a row without save_to is never refused here.
    # C17 "citing the spreadsheet row when the error belongs to a row": every refusal about the row cites it.
    # (a refusal for the name also shows the name)
    raises(PyXFormError, when=ent_saveto(row) != "" and (
        (not entity_declaration and ent_error_cites([]))
        or (bool(entity_declaration) and (ent_opens_group_or_repeat(row["type"]) or in_repeat) and ent_error_cites([row_number]))
        or (bool(entity_declaration) and not ent_opens_group_or_repeat(row["type"]) and not in_repeat
            and not ent_valid_property_name(ent_saveto(row)) and ent_error_cites([row_number]) and ent_error_shows(ent_saveto(row)))))
    ensures(result is None and final_row == row)
