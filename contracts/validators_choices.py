# Sidecar contracts for pyxform/validators/pyxform/choices.py  (C17, C20, C09, C01) — bounded native search only
MODULE = "pyxform.validators.pyxform.choices"

Any = Opaque("Any")


@contract("validate_headers")
def _(headers: Any, warnings: List[str]) -> Any:
    properties("C09", "C01", "C20")
    trusted("generator over header tuples and an XML-name regex: outside the prover's subset — bounded native search only")
    exhaustive_only()
    # C09 "each with its name, its label (or itext id) and all extra columns in column order": a column is only
    # set aside when it cannot be written as an XML element (C01), the list_name column is the grouping key, not a column
    # of the choice; the columns set aside are reported in column order, once each
    ensures(list(result) == [h[0] for h in headers if vch_bad_header(h[0])])
    # C20 "each documented warning is emitted if and only if its trigger occurs, and names the right subject":
    # one warning per column set aside, in order, naming that column; the warnings already collected stay in front
    ensures(final_warnings[: len(warnings)] == warnings)
    ensures(len(final_warnings) == len(warnings) + len(result))
    ensures(all(("'" + result[i] + "'") in final_warnings[len(warnings) + i] and "choices" in final_warnings[len(warnings) + i]
                for i in range(len(result))))
    # every header warning is located on the header row
    ensures(all(vch_rows_cited(w) == [1] for w in final_warnings[len(warnings):]))


@contract("validate_choice_list")
def _(options: Any, warnings: List[str], allow_duplicates: bool = False) -> None:
    properties("C17", "C20", "C09")
    trusted("loops over row dicts with a set of seen names: outside the prover's subset — bounded native search only")
    exhaustive_only()
    # C17 "missing or invalid choice list or choice ... duplicate ... names ... is refused: conversion raises the library's
    # own error type with a message identifying the problem, citing the spreadsheet row when the error belongs to a row"
    # — refused exactly when a choice has no name, or (duplicates not allowed) a name is used twice in the list;
    #   the message cites offending rows and no other row; never KeyError & co (any other exception is a violation)
    raises(PyXFormError, when=len(vch_offending(options, allow_duplicates)) > 0
           and vch_error_cites(vch_offending(options, allow_duplicates)))
    # C20 "unlabeled ... choices (with their row numbers)": iff — exactly one warning per choice without a label, in sheet
    # order, each citing exactly that choice's row; earlier warnings are kept
    ensures(final_warnings[: len(warnings)] == warnings)
    ensures(len(final_warnings) == len(warnings) + len(vch_unlabeled(options)))
    ensures(all(vch_rows_cited(final_warnings[len(warnings) + i]) == vch_row_of(vch_unlabeled(options)[i])
                and "label" in final_warnings[len(warnings) + i]
                for i in range(len(vch_unlabeled(options)))))
    # C09 "lists are never merged, truncated or reordered": validation does not touch the list
    ensures(final_options == options and [list(o.items()) for o in final_options] == [list(o.items()) for o in options])


@contract("validate_and_clean_choices")
def _(choices: Any, warnings: List[str], headers: Any, allow_duplicates: bool = False) -> Any:
    properties("C17", "C20", "C09", "C01")
    trusted("nested dict/list mutation: outside the prover's subset — bounded native search only")
    exhaustive_only()
    # C17 (as above) for every list of the sheet
    raises(PyXFormError, when=len(vch_offending_sheet(choices, allow_duplicates)) > 0
           and vch_error_cites(vch_offending_sheet(choices, allow_duplicates)))
    # C09 "Every list on the choices sheet yields ... that list's choices in sheet order, each with its name, its label
    # (or itext id) and all extra columns in column order; lists are never merged, truncated or reordered":
    # same lists in the same order, same choices in the same order, each keeping every cell (in column order) except the
    # columns that cannot be XML elements (C01) and the internal row-number bookkeeping
    ensures(list(result.keys()) == list(choices.keys()))
    ensures(all([list(o.items()) for o in result[k]] == [vch_clean_option(o, headers) for o in choices[k]] for k in choices))
    # C20: one warning per column set aside (naming it), then one per unlabeled choice (citing its row), nothing else
    ensures(final_warnings[: len(warnings)] == warnings)
    ensures([vch_rows_cited(w) for w in final_warnings[len(warnings):]]
            == [[1] for h in headers if vch_bad_header(h[0])]
            + [vch_row_of(o) for k in choices for o in vch_unlabeled(choices[k])])
    ensures(all(("'" + h + "'") in w for h, w in zip([h[0] for h in headers if vch_bad_header(h[0])], final_warnings[len(warnings):])))
