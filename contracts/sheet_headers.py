# Sidecar contracts for pyxform/parsing/sheet_headers.py — the sheet layer (C05, C08, C09, C13).
# Everything here is `trusted(...)`: nested dicts / string tokenisation are outside the prover's subset; the contracts are
# checked by bounded native search only (spec helpers + generators: contracts/native_sheet_headers.py).
MODULE = "pyxform.parsing.sheet_headers"

Any = Opaque("Any")


# ---------------------------------------------------------------- names: case and spacing (C13)

@contract("to_snake_case")
def _(value: str) -> str:
    properties("C13")
    trusted("str.split/join/lower: bounded native search only")
    # C13: "equivalent spellings (column and sheet-name case and spacing ...)": the canonical spelling has no upper case, no
    # white space, words joined by exactly one underscore, nothing at the ends ...
    ensures(result == SH_snake(value))
    ensures(result == result.lower() and not any(ch.isspace() for ch in result))
    # ... no character other than the separators is lost or invented
    ensures(result.replace("_", "") == "".join(value.split()).lower().replace("_", ""))
    # ... and every case/spacing re-spelling of the name has the same canonical spelling, which is its own (2-safety)
    ensures(SH_snake_stable(value))


# ---------------------------------------------------------------- one header -> the column it denotes (C13, C08)

@contract("process_header")
def _(header: str, use_double_colon: bool, header_aliases: Any, header_columns: Any) -> Any:
    properties("C13", "C08", "C05")
    trusted("string tokenisation with alias tables: bounded native search only")
    exhaustive_only()
    # C13: "column ... case and spacing, column aliases such as relevance/relevant, calculate/calculation, caption/label,
    # image/media::image, list name/list_name ...; ':' or '::' language delimiters with optional spaces": the header denotes
    # the (de-aliased, canonical) column followed by the parts after the delimiter exactly as written, minus the spaces.
    # C08: "name::language": the language is the text after the delimiter — never altered beyond the optional spaces.
    # C13: "adding unknown plain columns": an unknown column keeps its own name, unchanged.
    ensures(isinstance(result, tuple) and len(result) == 2 and isinstance(result[1], tuple))
    ensures(result[1] == SH_expected_tokens(header, use_double_colon, header_aliases, header_columns))
    # C13 as a 2-safety clause: every catalogued re-spelling of this header denotes the same column
    ensures(SH_header_stable(header, use_double_colon, header_aliases, header_columns, result))
    # the tables are inputs, not outputs
    ensures(final_header_aliases == header_aliases and final_header_columns == header_columns)


# ---------------------------------------------------------------- token path -> nested dict

@contract("list_to_nested_dict")
def _(lst: Any) -> Any:
    properties("C05", "C08")
    trusted("recursive nested dicts: bounded native search only")
    exhaustive_only()
    requires(len(lst) >= 1)
    # C05 "No attribute is dropped, duplicated, or attached to another": [bind, relevant, v] -> {bind: {relevant: v}} — one key
    # per level, in the order of the list, the cell text at the end and nowhere else
    ensures(SH_nested_ok(lst, result))
    ensures(len(SH_leaves(result)) == 1 or isinstance(lst[-1], dict))


# ---------------------------------------------------------------- merging the cells of one row (C08, C05)

@contract("merge_dicts")
def _(dict_a: Any, dict_b: Any, default_key: str = "default") -> Any:
    properties("C08", "C05", "C13")
    trusted("recursive nested dicts: outside the prover's subset — bounded native search only")
    exhaustive_only()
    # C05: "No attribute is dropped, duplicated, or attached to another row's bind" — the result holds every leaf of both
    # inputs under the same path and nothing else (no leaf invented, none filed under another key).
    # C08: "name::language, or the unsuffixed column for the default language ... unsuffixed cells of itext-bearing elements
    # count as the default language": a plain text meeting a {language: text} dict is filed under default_key (the form's
    # default language — not a language the sheets never mention).
    ensures(SH_matches_expected(result, SH_merge_expected(dict_a, dict_b, default_key)))
    # C13 "permuting columns": where no two cells compete for the same place, the order of the arguments is irrelevant
    ensures(implies(SH_merge_conflict_free(dict_a, dict_b, default_key), SH_merge_commutes(dict_a, dict_b, default_key, result)))
    # the argument on the right (the new cell) is never modified
    ensures(final_dict_b == dict_b)


@contract("process_row")
def _(sheet_name: str, row: Any, header_key: Any, default_language: str = "default") -> Any:
    properties("C05", "C08", "C09", "C13")
    trusted("recursive nested dicts: bounded native search only")
    exhaustive_only()
    requires(SH_row_unmapped(row, header_key) or SH_row_consistent(row, header_key, default_language))
    # C05 "No attribute is dropped": a cell whose column has no mapping cannot be placed — refused, never dropped silently
    raises(PyXFormError, when=SH_row_unmapped(row, header_key))
    # C05: "No attribute is dropped, duplicated, or attached to another row's bind": each cell lands under exactly its own
    # header's token path; C08: "the unsuffixed column for the default language" next to name::language columns
    ensures(SH_matches_expected(result, SH_row_expected(row, header_key, default_language)))
    # C09 "all extra columns in column order": keys appear in the order of the sheet's columns
    ensures(list(result) == SH_row_key_order(row, header_key))
    # C05 "in any column order" / C13 "permuting columns"
    ensures(implies(SH_row_no_duplicate_columns(row, header_key),
                    SH_row_permutation_stable(sheet_name, row, header_key, default_language, result)))
    # inputs are shared between rows: never modified
    ensures(final_row == row and final_header_key == header_key)


# ---------------------------------------------------------------- a whole sheet (C05, C08, C13)

@contract("dealias_and_group_headers")
def _(sheet_name: str, sheet_data: Any, sheet_header: Any, header_aliases: Any, header_columns: Any,
      headers_required: Any = None, default_language: str = "default", headers_xml_name: Any = None) -> Any:
    properties("C13", "C05", "C08", "C09")
    trusted("nested dicts, alias tables, header tokenisation: bounded native search only")
    exhaustive_only()
    # C05 "No attribute is dropped, duplicated": two headers naming the same column (relevant + relevance, label + caption)
    # would make one cell overwrite the other — refused; likewise a cell under a column the header row does not have
    raises(PyXFormError, when=SH_sheet_duplicates(sheet_data, sheet_header, header_aliases, header_columns))
    raises(PyXFormError, when=SH_sheet_unmapped(sheet_data, sheet_header, header_aliases, header_columns))
    # C01/C05 "bind:: columns": the part after bind:: / body:: is written as an XML attribute name
    raises(PyXFormError, when=SH_sheet_bad_xml_name(sheet_data, sheet_header, header_aliases, header_columns, headers_xml_name,
                                                    lambda s: matches(s, "QName")))
    raises(PyXFormError, when=len(sheet_data) > 0
           and SH_sheet_missing_required(sheet_data, sheet_header, header_aliases, header_columns, headers_required))
    may_raise(PyXFormError, when=SH_sheet_missing_required(sheet_data, sheet_header, header_aliases, header_columns, headers_required))
    # C05/C08: "never another language's or another row's text": row i of the result is built from row i of the sheet only,
    # each cell under its own column (aliases resolved, case/spacing ignored), language = text after the delimiter, the
    # unsuffixed cell of a translated column under the default language
    ensures(SH_sheet_rows_ok(result, sheet_data, sheet_header, header_aliases, header_columns, default_language))
    ensures(result.headers == SH_sheet_header_tokens(sheet_data, sheet_header, header_aliases, header_columns))
    # C13: "Rewriting a form using only documented equivalent spellings (column ... case and spacing, column aliases ...;
    # ':' or '::' language delimiters with optional spaces ...) yields a semantically identical XForm ... So does permuting
    # columns": same rows for the re-spelled / permuted sheet
    ensures(SH_sheet_stable(result, sheet_name, sheet_data, sheet_header, header_aliases, header_columns, headers_required,
                            default_language, headers_xml_name))
    # C13: "... or adding unknown plain columns"
    ensures(SH_sheet_unknown_column_neutral(result, sheet_name, sheet_data, sheet_header, header_aliases, header_columns,
                                            headers_required, default_language, headers_xml_name))
    # the sheet and the tables are not modified
    ensures(final_sheet_data == sheet_data and final_header_aliases == header_aliases and final_header_columns == header_columns)
