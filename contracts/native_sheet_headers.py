"""Native helpers for contracts/sheet_headers.py: executable spec functions and small-scope generators (bounded stand-in).

Spec helpers (prefix SH_) are written from the property statements C05/C08/C09/C13 (quoted at the clauses in the sidecar),
never by calling the function under test to obtain an expected value.  The only calls of the real functions from here are
the *metamorphic* ones (SH_call_*): the function under test is run a second time on a re-spelled / permuted copy of the
input and the two results are compared (2-safety clauses of C13).
"""
import itertools

# ------------------------------------------------------------------------------------------------ input tables
# A small alias table / column set in the shape of pyxform.aliases.survey_header + question slot names.  They are *inputs*
# (arguments header_aliases / header_columns), the expectations below are parametric in them.
SH_ALIASES = {
    "relevance": ("bind", "relevant"), "relevant": ("bind", "relevant"),
    "calculate": ("bind", "calculate"), "calculation": ("bind", "calculate"),
    "caption": "label",
    "image": ("media", "image"),
    "list_name": "list name",
    "constraint_message": ("bind", "jr:constraintMsg"),
    "read_only": ("bind", "readonly"),
    "jr:count": ("control", "jr:count"),
    "body": "control",
}
SH_COLUMNS = frozenset({"label", "hint", "guidance_hint", "name", "type", "bind", "media", "control", "choice_filter"})


def _sh_real_tables():
    """The tables pyxform really passes (survey sheet, choices sheet): used as arguments only."""
    from pyxform import aliases
    from pyxform.question import MultipleChoiceQuestion, Option

    return [
        (dict(aliases.survey_header), frozenset(MultipleChoiceQuestion.get_slot_names())),
        (dict(aliases.list_header), frozenset(Option.get_slot_names())),
    ]


def _sh_mod():
    import importlib

    return importlib.import_module("pyxform.parsing.sheet_headers")


# ------------------------------------------------------------------------------------------------ to_snake_case

def SH_snake(value):
    """C13 'column and sheet-name case and spacing': the canonical spelling of a name — lower case, words joined by one
    underscore, no leading/trailing separator.  (Character machine; does not use str.split/join.)"""
    out, pending = [], False
    for ch in value:
        if ch.isspace():
            pending = bool(out)
            continue
        if pending:
            out.append("_")
            pending = False
        out.append(ch.lower())
    return "".join(out)


def SH_name_respellings(value):
    """Documented equivalent spellings of a column / sheet / type name: case and spacing only."""
    words = value.split()
    out = [value.upper(), value.lower(), value.title(), "  " + value + " ", "   ".join(words), "\t".join(words),
           " ".join(words), value.replace(" ", "  ")]
    return [v for v in out if v != value]


def SH_snake_stable(value):
    """Metamorphic: every case/spacing re-spelling of the name has the same canonical form."""
    f = _sh_mod().to_snake_case
    r = f(value)
    return all(f(v) == r for v in SH_name_respellings(value)) and f(r) == r


# ------------------------------------------------------------------------------------------------ process_header

def SH_header_parts(header, use_double_colon):
    """C13: "':' or '::' language delimiters with optional spaces".  A sheet uses '::' when any of its headers does
    (use_double_colon) — then ':' is an ordinary character (jr:constraintMsg); otherwise ':' delimits, and the XForms
    namespace prefix `jr` stays attached to the attribute name that follows it (bind:jr:constraintMsg)."""
    if use_double_colon or "::" in header:
        return [p.strip() for p in header.split("::")]
    parts = [p.strip() for p in header.split(":")]
    if "jr" in parts:
        i = parts.index("jr")
        if i + 1 < len(parts):
            parts = parts[:i] + ["jr:" + parts[i + 1]] + parts[i + 2:]
    return parts


def SH_expected_tokens(header, use_double_colon, header_aliases, header_columns):
    """The column a header denotes, as a token path.
    C13: the column part is read modulo case and spacing, "column aliases such as relevance/relevant, calculate/calculation,
    caption/label, image/media::image, list name/list_name" denote the aliased column; the parts after the delimiter (language,
    attribute name) are kept as written, without the optional spaces; "adding unknown plain columns" — a column pyxform does
    not know passes through under its own name, unchanged."""
    parts = SH_header_parts(header, use_double_colon)
    col = SH_snake(parts[0])
    if col in header_aliases:
        tgt = header_aliases[col]
        head = tuple(tgt) if isinstance(tgt, tuple) else (tgt,)
    elif col in header_columns:
        head = (col,)
    else:
        head = (parts[0],)
    return head + tuple(parts[1:])


def SH_header_respellings(header, use_double_colon, header_aliases):
    """Catalogued equivalent spellings of one header (C13): case/spacing of the column part when the column is known,
    other aliases of the same column, optional spaces around the delimiter."""
    delim = "::" if (use_double_colon or "::" in header) else ":"
    raw = header.split(delim)
    col = SH_snake(raw[0])
    out = []
    rest = raw[1:]

    def spell(first, sep=delim):
        return sep.join([first, *rest])

    # optional spaces around the delimiter
    if rest:
        out.append(spell(raw[0], " " + delim + " "))
        out.append(spell(raw[0], delim + " "))
    if col in header_aliases:
        # case and spacing of the column part (only columns pyxform knows are case-insensitive; unknown ones pass unchanged)
        out.append(spell(raw[0].upper()))
        out.append(spell("  " + raw[0].replace("_", "  ") + " "))
        tgt = header_aliases[col]
        for k, v in header_aliases.items():
            if v == tgt and k != col and delim not in k:
                out.append(spell(k))          # another alias of the same column
        if isinstance(tgt, tuple) and delim not in "".join(tgt):
            out.append(spell(delim.join(tgt)))   # image == media::image
        elif isinstance(tgt, str) and delim not in tgt and tgt not in header_aliases:
            out.append(spell(tgt))               # caption == label
    return [h for h in out if h != header]


def SH_header_stable(header, use_double_colon, header_aliases, header_columns, result):
    f = _sh_mod().process_header
    return all(f(h, use_double_colon, header_aliases, header_columns)[1] == result[1]
               for h in SH_header_respellings(header, use_double_colon, header_aliases))


# ------------------------------------------------------------------------------------------------ nested dicts

def SH_leaves(d, path=()):
    """All (path, leaf) pairs of a nested dict (a non-dict is a single leaf at `path`)."""
    if isinstance(d, dict):
        out = []
        for k, v in d.items():
            out.extend(SH_leaves(v, (*path, k)))
        return out
    return [(path, d)]


def SH_nested_ok(lst, result):
    """[1,2,3,4] -> {1:{2:{3:4}}}: one key per level, the keys are the list's elements in order, the leaf is the last."""
    cur = result
    for k in lst[:-1]:
        if not (isinstance(cur, dict) and list(cur.keys()) == [k]):
            return False
        cur = cur[k]
    return cur is lst[-1] or cur == lst[-1] and type(cur) is type(lst[-1])


def _sh_empty(x):
    return x is None or (isinstance(x, dict) and not x)


def SH_merge_expected(a, b, default_key):
    """C05 'No attribute is dropped, duplicated, or attached to another': the merge holds every leaf of both inputs under its
    own path.  C08 'the unsuffixed column for the default language': where a plain text meets a {language: text} dict it is
    filed under default_key.  Returns {path: set of admissible leaves}; when both sides supply a text for the very same
    path the statements do not say which one is kept (either, never anything else)."""
    out = {}

    def rec(x, y, path):
        if _sh_empty(x) and _sh_empty(y):
            return
        if _sh_empty(x) or _sh_empty(y):
            for p, v in SH_leaves(y if _sh_empty(x) else x, path):
                out.setdefault(p, set()).add(v)
            return
        xd, yd = isinstance(x, dict), isinstance(y, dict)
        if not xd and not yd:
            out[path] = {x, y}
            return
        if not xd:
            x = {default_key: x}
        if not yd:
            y = {default_key: y}
        for k in list(x) + [k for k in y if k not in x]:
            rec(x.get(k), y.get(k), (*path, k))

    rec(a, b, ())
    return out


def SH_matches_expected(result, expected):
    """`result` has exactly the expected leaf paths, each holding one of the admissible values."""
    if not expected:
        return _sh_empty(result)
    got = SH_leaves(result)
    return (len(got) == len(expected) and all(p in expected and v in expected[p] for p, v in got)
            and len({p for p, _ in got}) == len(got))


def SH_merge_conflict_free(a, b, default_key):
    return all(len(v) == 1 for v in SH_merge_expected(a, b, default_key).values())


def SH_merge_commutes(dict_a, dict_b, default_key, result):
    """C13 'permuting columns': when no two cells compete for the same place the merge does not depend on the order."""
    import copy

    other = _sh_mod().merge_dicts(copy.deepcopy(dict_b), copy.deepcopy(dict_a), default_key)
    return other == result or (_sh_empty(other) and _sh_empty(result))


# ------------------------------------------------------------------------------------------------ process_row

def SH_cells(row, header_key):
    return [(tuple(header_key[h]), v) for h, v in row.items() if h != "__row"]


def SH_row_expected(row, header_key, default_language):
    """C05: each cell lands under exactly its own header's token path, nothing copied between keys.  C08: 'name::language,
    or the unsuffixed column for the default language' — a cell whose path is a proper prefix of a sibling's path (label next
    to label::French) is the default language's entry."""
    cells = SH_cells(row, header_key)
    out = {}
    for t, v in cells:
        suffixed_sibling = any(len(u) > len(t) and u[:len(t)] == t for u, _ in cells)
        p = (*t, default_language) if suffixed_sibling else t
        out.setdefault(p, set()).add(v)
    if "__row" in row:
        out[("__row",)] = {row["__row"]}
    return out


def SH_row_consistent(row, header_key, default_language):
    """The expected paths form a tree (no path is a proper prefix of another): outside it the statement says nothing."""
    ps = list(SH_row_expected(row, header_key, default_language))
    return not any(p != q and q[:len(p)] == p for p in ps for q in ps)


def SH_row_unmapped(row, header_key):
    return any(h != "__row" and not header_key.get(h) for h in row)


def SH_row_key_order(row, header_key):
    """C09 'all extra columns in column order': top-level keys in the order their columns first appear in the row."""
    out = []
    for h in row:
        k = "__row" if h == "__row" else header_key[h][0]
        if k not in out:
            out.append(k)
    return out


def SH_row_no_duplicate_columns(row, header_key):
    ts = [t for t, _ in SH_cells(row, header_key)]
    return len(set(ts)) == len(ts)


def SH_row_permutation_stable(sheet_name, row, header_key, default_language, result):
    """C13 'permuting columns' / C05 'in any column order': the same cells in another column order give the same row."""
    f = _sh_mod().process_row
    items = list(row.items())
    for perm in (items[::-1], items[1:] + items[:1], sorted(items)):
        if f(sheet_name, dict(perm), dict(header_key), default_language) != result:
            return False
    return True


# ------------------------------------------------------------------------------------------------ dealias_and_group_headers

def SH_sheet_headers(sheet_data, sheet_header):
    """The header row: given, or (dict input without header row) the row keys in order of first appearance."""
    if sheet_header:
        return list(sheet_header[0])
    out = []
    for r in sheet_data:
        for k in r:
            if k not in out:
                out.append(k)
    return out


def SH_sheet_key(sheet_data, sheet_header, header_aliases, header_columns):
    hs = SH_sheet_headers(sheet_data, sheet_header)
    dbl = any("::" in h for h in hs)
    return {h: SH_expected_tokens(h, dbl, header_aliases, header_columns) for h in hs}


def SH_sheet_duplicates(sheet_data, sheet_header, header_aliases, header_columns):
    """Two different headers that are names for the same column (relevant + relevance, label + caption)."""
    key = SH_sheet_key(sheet_data, sheet_header, header_aliases, header_columns)
    toks = list(key.values())
    return len(set(toks)) != len(toks)


def SH_sheet_unmapped(sheet_data, sheet_header, header_aliases, header_columns):
    key = SH_sheet_key(sheet_data, sheet_header, header_aliases, header_columns)
    return any(h != "__row" and h not in key for r in sheet_data for h in r)


def SH_sheet_bad_xml_name(sheet_data, sheet_header, header_aliases, header_columns, headers_xml_name, is_name):
    if not headers_xml_name:
        return False
    key = SH_sheet_key(sheet_data, sheet_header, header_aliases, header_columns)
    return any(len(t) > 1 and t[0] in headers_xml_name and not is_name(t[1]) for t in key.values())


def SH_sheet_missing_required(sheet_data, sheet_header, header_aliases, header_columns, headers_required):
    if not headers_required:
        return False
    key = SH_sheet_key(sheet_data, sheet_header, header_aliases, header_columns)
    return any(r not in {t[0] for t in key.values()} for r in headers_required)


def SH_sheet_rows_ok(result, sheet_data, sheet_header, header_aliases, header_columns, default_language):
    """C05/C08 'never ... another row's text': output row i is built from the cells of sheet row i only, each cell under its
    own column's token path (unsuffixed cells of translated columns under the default language)."""
    key = SH_sheet_key(sheet_data, sheet_header, header_aliases, header_columns)
    if len(result.data) != len(sheet_data):
        return False
    for row, out in zip(sheet_data, result.data):
        if not SH_row_consistent(row, key, default_language):
            continue
        if not SH_matches_expected(out, SH_row_expected(row, key, default_language)):
            return False
    return True


def SH_sheet_header_tokens(sheet_data, sheet_header, header_aliases, header_columns):
    key = SH_sheet_key(sheet_data, sheet_header, header_aliases, header_columns)
    out = []
    for t in key.values():
        if t not in out:
            out.append(t)
    return tuple(out)


def _sh_call_dealias(kw):
    kw = dict(kw)
    kw["sheet_data"] = [dict(r) for r in kw["sheet_data"]]   # the tables are shared: the function must not modify them
    try:
        r = _sh_mod().dealias_and_group_headers(**kw)
        return ("ok", tuple(r.data), frozenset(r.headers))
    except Exception as e:  # noqa: BLE001
        return ("raise", type(e).__name__)


def _sh_rename(kw, mapping):
    """The same sheet with headers renamed (header row and every data row)."""
    kw = dict(kw)
    if kw["sheet_header"]:
        kw["sheet_header"] = [{mapping.get(h, h): v for h, v in kw["sheet_header"][0].items()}]
    kw["sheet_data"] = [{mapping.get(h, h): v for h, v in r.items()} for r in kw["sheet_data"]]
    return kw


def _sh_reorder(row, order):
    """The same cells, columns in `order` (cells of other keys, e.g. __row, keep their relative place at the end)."""
    return {h: row[h] for h in [*order, *(k for k in row if k not in order)] if h in row}


def SH_sheet_variants(kw):
    """Documented-equivalent rewrites of a sheet (C13): permuted columns, re-spelled headers."""
    hs = SH_sheet_headers(kw["sheet_data"], kw["sheet_header"])
    dbl = any("::" in h for h in hs)
    out = []
    # permuting columns (header row and the cells of every row)
    for order in (hs[::-1], hs[1:] + hs[:1]):
        if order != hs:
            v = dict(kw)
            if kw["sheet_header"]:
                v["sheet_header"] = [{h: kw["sheet_header"][0][h] for h in order}]
            v["sheet_data"] = [_sh_reorder(r, order) for r in kw["sheet_data"]]
            out.append(("permute", v))
    # re-spelling one header at a time (the sheet keeps its delimiter style)
    for h in hs:
        for h2 in SH_header_respellings(h, dbl, kw["header_aliases"]):
            hs2 = [h2 if x == h else x for x in hs]
            if h2 in hs or any("::" in x for x in hs2) != dbl:
                continue
            out.append(("respell " + repr(h) + "->" + repr(h2), _sh_rename(kw, {h: h2})))
    return out


def SH_sheet_stable(result, sheet_name, sheet_data, sheet_header, header_aliases, header_columns, headers_required,
                    default_language, headers_xml_name):
    kw = dict(sheet_name=sheet_name, sheet_data=sheet_data, sheet_header=sheet_header, header_aliases=header_aliases,
              header_columns=header_columns, headers_required=headers_required, default_language=default_language,
              headers_xml_name=headers_xml_name)
    mine = ("ok", tuple(result.data), frozenset(result.headers))
    return all(_sh_call_dealias(v) == mine for _, v in SH_sheet_variants(kw))


def SH_sheet_unknown_column_neutral(result, sheet_name, sheet_data, sheet_header, header_aliases, header_columns,
                                    headers_required, default_language, headers_xml_name):
    """C13 'adding unknown plain columns': every other key of every row is unchanged, the new column passes through as is."""
    new = "zz_extra"
    hs = SH_sheet_headers(sheet_data, sheet_header)
    if new in hs or not sheet_data:
        return True
    kw = dict(sheet_name=sheet_name, header_aliases=header_aliases, header_columns=header_columns,
              headers_required=headers_required, default_language=default_language, headers_xml_name=headers_xml_name)
    ok = True
    for pos in (0, len(hs)):
        order = hs[:pos] + [new] + hs[pos:]
        kw["sheet_header"] = [{h: None for h in order}] if sheet_header else sheet_header
        kw["sheet_data"] = [_sh_reorder({**r, new: "extra%d" % i}, order) for i, r in enumerate(sheet_data)]
        got = _sh_call_dealias(kw)
        ok = ok and got[0] == "ok" and len(got[1]) == len(result.data) and all(
            g.get(new) == "extra%d" % i and {k: v for k, v in g.items() if k != new} == o
            for i, (g, o) in enumerate(zip(got[1], result.data)))
    return ok


# ------------------------------------------------------------------------------------------------ generators

def _sh_snake_cases():
    alphabet = ["a", "B", " ", "_", "\t", "é", "1", ":"]
    for n in range(0, 6):
        for t in itertools.product(alphabet, repeat=n):
            yield {"value": "".join(t)}
    for v in ["Read  Only", " list name", "LIST_NAME ", "Constraint Message", "begin  Group", "select_one", " x y"]:
        yield {"value": v}


_SH_COLUMN_SPELLINGS = [
    "label", "Label", "LABEL", " label ", "hint", "caption", "Caption", "relevance", "relevant", "RELEVANT", "read_only",
    "read only", "Read  Only", "calculate", "calculation", "image", "IMAGE", "media", "bind", "constraint_message",
    "constraint message", "jr:count", "list_name", "list name", "List_Name", "myextra", "My Extra", "my_extra",
    "choice_filter", "labelx", "xlabel", "", "jr", "body", "name",
]
_SH_SUFFIXES = [(), ("English",), ("French (fr)",), ("english",), (" English ",), ("image", "French"), ("jr", "constraintMsg"),
                ("relevant",), ("jr:constraintMsg",), ("a:b",), ("",)]
_SH_DELIMS = ["::", " :: ", ":: ", ":", " : ", ": "]
# Known defect (reported): in single-colon mode a header whose last part is `jr` crashes with IndexError.  These inputs are
# generated last so that everything else is searched first.
_SH_JR_LAST = ["label:jr", "hint : jr", "bind:jr", "jr"]


def _sh_header_cases():
    tables = [(SH_ALIASES, SH_COLUMNS), ({}, frozenset())] + _sh_real_tables()
    late = []
    for al, cols in tables:
        for c in _SH_COLUMN_SPELLINGS:
            for suf in _SH_SUFFIXES:
                for d in (_SH_DELIMS if suf else ["::"]):
                    h = d.join([c, *suf])
                    for dbl in (False, True):
                        case = {"header": h, "use_double_colon": dbl, "header_aliases": al, "header_columns": cols}
                        parts = [p.strip() for p in h.split(":")]
                        if not dbl and "::" not in h and "jr" in parts and parts.index("jr") == len(parts) - 1:
                            late.append(case)
                        else:
                            yield case
    for h in _SH_JR_LAST:
        late.append({"header": h, "use_double_colon": False, "header_aliases": SH_ALIASES, "header_columns": SH_COLUMNS})
    yield from late


def _sh_nested_cases():
    alphabet = ["a", "b", "", 1, None, ("t",)]
    for n in range(1, 5):
        for t in itertools.product(alphabet, repeat=n):
            if all(k is not None for k in t[:-1]) or True:
                yield {"lst": list(t)}
                if n <= 3:
                    yield {"lst": tuple(t)}
    yield {"lst": ["media", "image", "French", {"x": "y"}]}


def _sh_merge_values(tag):
    """Nested dicts in the shapes process_row builds: text leaves (tagged with their origin and path), language dicts, rows."""
    langs = ["English", "default", "fr"]
    vals = [None, {}, tag + "/plain"]
    lang_dicts = []
    for n in range(1, 4):
        for ks in itertools.combinations(langs, n):
            lang_dicts.append({k: f"{tag}/{k}" for k in ks})
    vals.extend(lang_dicts)
    per_key = [None, "TEXT", *lang_dicts]
    for x, y in itertools.product(per_key, repeat=2):
        if x is None and y is None:
            continue
        d = {}
        for k, v in (("label", x), ("media", y)):
            if v == "TEXT":
                d[k] = f"{tag}/{k}"
            elif v is not None:
                d[k] = {lk: f"{tag}/{k}/{lv.split('/')[-1]}" for lk, lv in v.items()} if k == "label" else {"image": dict(v)}
        vals.append(d)
    return vals


def _sh_merge_cases():
    import copy

    av, bv = _sh_merge_values("a"), _sh_merge_values("b")
    for dk in ("default", "English", "fr"):
        for a in av:
            for b in bv:
                yield {"dict_a": copy.deepcopy(a), "dict_b": copy.deepcopy(b), "default_key": dk}


_SH_ROW_HEADERS = {
    "label": ("label",), "label::English": ("label", "English"), "label::fr": ("label", "fr"),
    "hint": ("hint",), "hint::fr": ("hint", "fr"),
    "image": ("media", "image"), "image::fr": ("media", "image", "fr"), "audio::English": ("media", "audio", "English"),
    "relevant": ("bind", "relevant"), "required": ("bind", "required"),
    "x": ("x",), "caption": ("label",),
}


def _sh_row_cases():
    hs = list(_SH_ROW_HEADERS)
    key = dict(_SH_ROW_HEADERS)
    for dl in ("default", "English", "fr"):
        for n in range(0, 5):
            for combo in itertools.permutations(hs, n):
                if n == 4 and not (combo[0] < combo[1] or combo[2] < combo[3]):
                    continue   # thin the 4-column rows (still every subset, in 18 of its 24 orders)
                row = {h: f"cell[{h}]" for h in combo}
                yield {"sheet_name": "survey", "row": row, "header_key": key, "default_language": dl}
        # with the row number, an unmapped header, an empty mapping
        for combo in itertools.permutations(hs[:6], 2):
            row = {h: f"cell[{h}]" for h in combo}
            yield {"sheet_name": "choices", "row": {**row, "__row": 7}, "header_key": key, "default_language": dl}
            yield {"sheet_name": "choices", "row": {"__row": 7, **row}, "header_key": key, "default_language": dl}
            yield {"sheet_name": "choices", "row": {**row, "zzz": "v"}, "header_key": key, "default_language": dl}
            yield {"sheet_name": "choices", "row": {**row, "zzz": "v"}, "header_key": {**key, "zzz": ()}, "default_language": dl}


_SH_SHEET_HEADERS = [
    "label", "Label", "caption", "label::English", "label :: fr", "LABEL::fr", "hint", "hint::English",
    "relevant", "relevance", "bind::relevant", "Read  Only", "image", "image::fr", "media::image", "media::image::English",
    "constraint_message", "bind::jr:constraintMsg", "My Extra", "my extra", "bind::1x", "body::a b", "name", "x:y",
]
_SH_SHEET_HEADERS_SINGLE = [
    "label", "caption", "label:English", "label : fr", "Label: fr", "hint", "hint:English", "relevance", "bind:relevant",
    "image", "image:fr", "media:image:English", "bind:jr:constraintMsg", "constraint message", "My Extra", "bind:1x", "name",
]


def _sh_is_known_dup_defect(hs, al, cols):
    """Known defect (reported): a duplicate pair is only detected when the LATER header is not spelled exactly as its column
    (caption,label passes silently and drops a cell; label,caption raises).  Generated last."""
    dbl = any("::" in h for h in hs)
    seen = {}
    for h in hs:
        t = SH_expected_tokens(h, dbl, al, cols)
        if t in seen and t == (h,):
            return True
        seen.setdefault(t, h)
    return False


def _sh_sheet_cases():
    late = []
    real_al, real_cols = _sh_real_tables()[0]
    for family in (_SH_SHEET_HEADERS, _SH_SHEET_HEADERS_SINGLE):
        for n in (1, 2, 3):
            # 1 and 2 columns: every ordered choice; 3 columns: every subset, in one of its 6 orders in turn (the
            # permutation clause of the contract re-runs each sheet in two more column orders)
            tuples = itertools.permutations(family, n) if n < 3 else (
                list(itertools.permutations(c))[i % 6] for i, c in enumerate(itertools.combinations(family, 3)))
            for hs in tuples:
                for al, cols in ((SH_ALIASES, SH_COLUMNS),) + (((real_al, real_cols),) if n <= 2 else ()):
                    for variant in range(4 if n <= 2 else 2):
                        dl = ("default", "English", "fr", "default")[variant]
                        # row 0: every cell; row 1: all but the first column; row 2: only the first column
                        data = [{h: f"r0[{h}]" for h in hs}, {h: f"r1[{h}]" for h in hs[1:]}, {hs[0]: f"r2[{hs[0]}]"}]
                        if variant == 3:
                            data = [dict(r, __row=i + 2) for i, r in enumerate(data)]
                        case = {
                            "sheet_name": "survey" if variant % 2 == 0 else "choices",
                            "sheet_data": data,
                            "sheet_header": [{h: None for h in hs}] if variant != 1 else None,
                            "header_aliases": al, "header_columns": cols,
                            "headers_required": {"label"} if variant == 2 else None,
                            "default_language": dl,
                            "headers_xml_name": {"bind", "control"},
                        }
                        if _sh_is_known_dup_defect(hs, al, cols):
                            late.append(case)
                        else:
                            yield case
    base = {"header_aliases": SH_ALIASES, "header_columns": SH_COLUMNS, "default_language": "default", "headers_xml_name": None}
    # empty sheets, header row without data, data with a column missing from the header row, required columns
    yield {**base, "sheet_name": "survey", "sheet_data": [], "sheet_header": [], "headers_required": None}
    yield {**base, "sheet_name": "survey", "sheet_data": [], "sheet_header": [], "headers_required": {"type"}}
    yield {**base, "sheet_name": "choices", "sheet_data": [], "sheet_header": [{"label": None}], "headers_required": {"name"}}
    yield {**base, "sheet_name": "survey", "sheet_data": [], "sheet_header": [{"type": None}], "headers_required": {"type"}}
    yield {**base, "sheet_name": "choices", "sheet_data": [{"label": "a", "other": "b"}], "sheet_header": [{"label": None}],
           "headers_required": None}
    yield {**base, "sheet_name": "choices", "sheet_data": [{"label": "a"}, {"name": "n"}], "sheet_header": None,
           "headers_required": {"name"}}
    yield from late


EXHAUSTIVE = {
    "pyxform.parsing.sheet_headers.to_snake_case": _sh_snake_cases,
    "pyxform.parsing.sheet_headers.process_header": _sh_header_cases,
    "pyxform.parsing.sheet_headers.list_to_nested_dict": _sh_nested_cases,
    "pyxform.parsing.sheet_headers.merge_dicts": _sh_merge_cases,
    "pyxform.parsing.sheet_headers.process_row": _sh_row_cases,
    "pyxform.parsing.sheet_headers.dealias_and_group_headers": _sh_sheet_cases,
}
