"""Native helpers for contracts/xls2json_helpers.py: executable spec functions and small-scope generators (bounded stand-in).

Spec helpers (prefix XH_) are written from the property statements C05/C06/C09/C10/C13, independently of the code under test.
The real functions are only called for metamorphic clauses (same function, transformed input, results compared).
"""
import copy
import itertools
import re


def _xh_mod():
    import importlib

    return importlib.import_module("pyxform.xls2json")


# ------------------------------------------------------------------------------------------------ group_dictionaries_by_key

def XH_group_expected(rows, key, remove_key):
    """C09: "Every list on the choices sheet yields ... that list's choices in sheet order, each with its name, its label ... and
    all extra columns in column order; lists are never merged, truncated or reordered" — list v holds exactly the rows whose
    list-name cell is v, in sheet order, each with all its other cells in column order.  Returned as a list of pairs
    (list name, [ [ (column, cell), ... ], ... ]) in order of first appearance."""
    names = []
    for r in rows:
        if key in r and r[key] not in names:
            names.append(r[key])
    return [(v, [[(k, c) for k, c in r.items() if not (remove_key and k == key)] for r in rows if key in r and r[key] == v])
            for v in names]


def XH_group_observed(result):
    return [(v, [list(r.items()) for r in lst]) for v, lst in result.items()]


# ------------------------------------------------------------------------------------------------ clean_text_values

XH_SMART = {"‘": "'", "’": "'", "“": '"', "”": '"'}   # C13 "smart or straight quotes"
XH_NO_REF_COLUMNS = {"survey": {"type", "name"}, "choices": {"list name", "list_name", "name"},
                     "entities": {"list name", "list_name"}}


def XH_clean_expected(value, strip_whitespace):
    """C13: "smart or straight quotes; extra whitespace around or inside survey cell text" are equivalent spellings; C06: the
    text is recovered "character-for-character, modulo the documented whitespace collapsing": white space at the ends is
    removed and runs of spaces inside become one space (only where stripping is requested); curly quotes become straight;
    every other character stays."""
    if strip_whitespace:
        value = value.strip()
        out, prev_space = [], False
        for ch in value:
            if ch == " ":
                if not prev_space:
                    out.append(ch)
                prev_space = True
            else:
                out.append(ch)
                prev_space = False
        value = "".join(out)
    return "".join(XH_SMART.get(ch, ch) for ch in value)


def XH_clean_rows_expected(data, strip_whitespace, add_row_number):
    """Every text cell cleaned in place, other cells/keys untouched, rows not reordered; the row number is the spreadsheet row
    (header = row 1, first data row = row 2)."""
    out = []
    for i, row in enumerate(data):
        r = [(k, XH_clean_expected(v, strip_whitespace) if isinstance(v, str) else v) for k, v in row.items()]
        if add_row_number:
            d = dict(r)
            d["__row"] = i + 2
            r = list(d.items())
        out.append(r)
    return out


def XH_has_ref_start(data):
    return any(isinstance(v, str) and "${" in v for row in data for v in row.values())


def XH_unclosed_reference(sheet_name, data):
    """Unambiguously malformed: a '${name' that is never closed, in a column where references are allowed."""
    skip = XH_NO_REF_COLUMNS.get(sheet_name, set())
    return any(isinstance(v, str) and k not in skip and re.search(r"\$\{[A-Za-z_][^}]*$", v.strip())
               for row in data for k, v in row.items())


def _xh_call_clean(sheet_name, data, strip_whitespace, add_row_number):
    try:
        return [list(r.items()) for r in _xh_mod().clean_text_values(sheet_name, copy.deepcopy(data), strip_whitespace, add_row_number)]
    except Exception as e:  # noqa: BLE001
        return ("raise", type(e).__name__)


def XH_clean_idempotent(sheet_name, result, strip_whitespace, add_row_number):
    """Cleaning cleaned text changes nothing."""
    return _xh_call_clean(sheet_name, result, strip_whitespace, add_row_number) == [list(r.items()) for r in result]


def XH_clean_respelling_stable(sheet_name, data, strip_whitespace, add_row_number, result):
    """C13 2-safety: the same sheet typed with curly instead of straight quotes, and (where white space is normalised) with extra
    white space around and inside the text, cleans to the same rows."""
    mine = [list(r.items()) for r in result]
    curly = [{k: (v.replace("'", "’").replace('"', "“") if isinstance(v, str) else v) for k, v in r.items()} for r in data]
    if _xh_call_clean(sheet_name, curly, strip_whitespace, add_row_number) != mine:
        return False
    if strip_whitespace:
        padded = [{k: ("  " + v.replace(" ", "   ") + " \n" if isinstance(v, str) and v else v) for k, v in r.items()} for r in data]
        if _xh_call_clean(sheet_name, padded, strip_whitespace, add_row_number) != mine:
            return False
    return True


# ------------------------------------------------------------------------------------------------ process_range_question_type

XH_RANGE_DEFAULTS = {"start": "1", "end": "10", "step": "1"}   # XLSForm reference, range question: defaults 1 / 10 / 1
_XH_PLAIN_NUMBER = re.compile(r"[+-]?(\d+(\.\d*)?|\.\d+)")


def XH_range_unknown_parameter(parameters):
    return any(k not in XH_RANGE_DEFAULTS for k in parameters)


def XH_range_not_a_number(parameters):
    """Some start/end/step is unambiguously not a number (no digits at all, or empty)."""
    return any(k in XH_RANGE_DEFAULTS and not any(ch.isdigit() for ch in str(v)) for k, v in parameters.items())


def XH_range_all_plain_numbers(parameters):
    return all(_XH_PLAIN_NUMBER.fullmatch(str(v)) for k, v in parameters.items() if k in XH_RANGE_DEFAULTS)


def XH_range_final(parameters):
    return {k: parameters.get(k, d) for k, d in XH_RANGE_DEFAULTS.items()}


def XH_range_is_decimal(parameters):
    """C05 "parameter-derived bind attributes ... the type the table prescribes": a range is an integer question unless one of
    start/end/step is written as a decimal number.  True / False for the unambiguous spellings; None where the statement
    does not decide (a zero written with a decimal point, e.g. 0.0)."""
    vals = [str(v) for v in XH_range_final(parameters).values()]
    if any("." in v and float(v) != 0 for v in vals):
        return True
    if any("." in v for v in vals):
        return None
    return False


def XH_range_bind_ok(row, parameters, result):
    dec = XH_range_is_decimal(parameters)
    old = row.get("bind")
    new = result.get("bind")
    if dec is False:
        return new == old and ("bind" in result) == ("bind" in row)
    others_old = {k: v for k, v in (old or {}).items() if k != "type"}
    others_new = {k: v for k, v in (new or {}).items() if k != "type"}
    if others_old != others_new:   # C05 "No attribute is dropped, duplicated": the row's own logic attributes all stay
        return False
    if dec is True:
        return isinstance(new, dict) and new.get("type") == "decimal"
    return (new or {}).get("type") in ("decimal", (old or {}).get("type"))


# ------------------------------------------------------------------------------------------------ process_image_default

XH_IMAGE_PREFIX = "jr://images/"
_XH_FILE_WORD = re.compile(r"[A-Za-z_][A-Za-z0-9_.-]*|[0-9]+(\.[A-Za-z0-9_]+)*")
_XH_HAS_REF = re.compile(r"\$\{[A-Za-z_][A-Za-z0-9_]*\}")
_XH_HAS_CALL = re.compile(r"[A-Za-z_][A-Za-z0-9_-]*\(.*\)")


def XH_is_file_name(v):
    """Unambiguously a plain file name: words separated by single spaces, each a name (letters, digits, _ . - after a leading
    letter) or a number with extensions — nothing an XPath reader could take for arithmetic (2-a.jpg, a - b, a div b)."""
    words = v.split(" ")
    return bool(v) and all(_XH_FILE_WORD.fullmatch(w) and w not in ("div", "mod", "and", "or") for w in words)


def XH_image_class(v):
    """'file' (a plain file name), 'prefixed' (already a jr://images/ URI of a plain file name), 'dynamic' (an expression:
    contains a ${reference} or a function call), or None where the statement does not decide."""
    if "'" in v or '"' in v:
        return None   # a quoted literal may contain anything
    if _XH_HAS_REF.search(v) or _XH_HAS_CALL.search(v):
        return "dynamic" if XH_IMAGE_PREFIX not in v else None
    if v.startswith(XH_IMAGE_PREFIX) and XH_is_file_name(v[len(XH_IMAGE_PREFIX):]):
        return "prefixed"
    if XH_is_file_name(v):
        return "file"
    return None


def XH_image_idempotent(result):
    return _xh_mod().process_image_default(result) == result


# ------------------------------------------------------------------------------------------------ add_choices_info_to_question

XH_CHOICE_KEYS = ("itemset", "query", "list_name", "choices")
XH_EXTERNAL_EXT = (".csv", ".xml", ".geojson")


def XH_plain_select(question, list_name, choice_filter, file_extension):
    """A select that reads an internal choice list as is: no filter, not randomised, not from a file, not from a repeat."""
    return (not choice_filter and question.get("parameters", {}).get("randomize") != "true"
            and (file_extension or "") not in XH_EXTERNAL_EXT and "${" not in list_name)


def XH_frame(before, after, keys):
    return {k: v for k, v in before.items() if k not in keys} == {k: v for k, v in after.items() if k not in keys} and \
        [k for k in before if k not in keys] == [k for k in after if k not in keys]


# ------------------------------------------------------------------------------------------------ generators

def _xh_group_cases():
    names = [None, "a", "b", "A", "a "]
    for key in ("list name", "list_name"):
        for n in range(0, 5):
            for combo in itertools.product(names, repeat=n):
                rows = []
                for i, ln in enumerate(combo):
                    cells = [("name", f"n{i}"), ("label", {"English": f"L{i}"} if i % 2 else f"L{i}")]
                    if i % 3 == 0:
                        cells.append(("extra", f"x{i}"))
                    if ln is not None:
                        cells.insert((0, 1, len(cells))[i % 3], (key, ln))
                    if key == "list name" and i == 1:
                        cells.append(("list_name", "other-spelling"))   # another column, not the key
                    rows.append(dict(cells))
                for remove_key in ((True, False) if n <= 3 else (True,)):
                    yield {"list_of_dicts": rows, "key": key, "remove_key": remove_key}


_XH_TEXT_TOKENS = ["a", " ", "  ", "‘", "”", "'", "\n", "\t", "é<", "${q}"]


def _xh_clean_cases():
    texts = [""]
    for n in range(1, 5):
        for t in itertools.product(_XH_TEXT_TOKENS, repeat=n):
            if n == 4 and t[0] == t[1] == t[2]:
                continue
            texts.append("".join(t))
    other = {"type": "text", "n": 5, "none": None, "empty": "", "nested": {"English": " a  ‘b "}}
    for i, v in enumerate(texts):
        sheet = ("survey", "choices", "settings")[i % 3]
        for strip in (False, True):
            data = [{"label": v, **other}, {"hint": "x  y ", "label": v + "’"}] if i % 2 else [{**other, "label": v}]
            yield {"sheet_name": sheet, "data": data, "strip_whitespace": strip, "add_row_number": i % 4 < 2}
    # malformed references, and references in columns where they are not looked at
    for v in ["${", "${a", "a ${b c", "${a}${", "${a} }", "${a b}", "${${a}}", "$ {a}", "{a}"]:
        for key in ("label", "name", "list_name"):
            for sheet in ("survey", "choices", "entities"):
                yield {"sheet_name": sheet, "data": [{"x": "ok"}, {key: v}], "strip_whitespace": True, "add_row_number": True}
    yield {"sheet_name": "survey", "data": [], "strip_whitespace": True, "add_row_number": True}


_XH_RANGE_VALUES = [None, "1", "10", "0", "-3", "1.5", "2.0", ".5", "0.0", "abc", ""]
_XH_RANGE_ROWS = [
    {"type": "range", "name": "r", "label": "R"},
    {"type": "range", "name": "r", "label": {"English": "R"}, "bind": {}},
    {"type": "range", "name": "r", "bind": {"relevant": "${a} = 1", "required": "yes", "jr:constraintMsg": "m"},
     "control": {"appearance": "picker"}},
    {"type": "range", "name": "r", "bind": {"type": "int", "readonly": "true()"}, "parameters": "stale"},
]


def _xh_range_cases():
    for start, end, step in itertools.product(_XH_RANGE_VALUES, repeat=3):
        params = {k: v for k, v in (("start", start), ("end", end), ("step", step)) if v is not None}
        for i, row in enumerate(_XH_RANGE_ROWS):
            yield {"row": copy.deepcopy(row), "parameters": dict(params)}
            if i == 0 and (start, end) in ((None, None), ("1", "10")):
                for extra in ("foo", "Step", "seed"):
                    yield {"row": copy.deepcopy(row), "parameters": {**params, extra: "1"}}
        if step is not None:   # parameters written in another order
            yield {"row": copy.deepcopy(_XH_RANGE_ROWS[2]), "parameters": dict(reversed(list(params.items())))}


def _xh_image_cases():
    toks = ["pic", ".jpg", "-", " ", "1", "${p}", "f(", ")", "jr://images/", "'", "/", " div "]
    seen = set()
    for n in range(1, 5):
        for t in itertools.product(toks, repeat=n):
            v = "".join(t)
            if v not in seen and v.strip():
                seen.add(v)
                yield {"default_value": v}
    for v in ["my pic.png", "img_1.jpeg", "a-b.JPG", "concat('a', ${p})", "today()", "${a}.jpg", "jr://images/x y.png", "2.png"]:
        yield {"default_value": v}


def _xh_choices_cases():
    lists = {"a": [{"name": "a1", "label": "A1"}, {"name": "a2", "label": "A2"}], "b": [{"name": "b1", "label": "B1"}]}
    for qtype in ("select one", "select all that apply", "select one external", "rank"):
        for params in ({}, {"randomize": "true"}, {"randomize": "false"}, {"randomize": "true", "seed": "1"}):
            for list_name in ("a", "b", "${q}", "cities.csv", "A"):
                for choices in (lists, {"b": lists["b"]}, {}, {"a": [], "b": lists["b"]}):
                    for cf in (None, "", "x=1"):
                        for ext in (None, "", ".csv", ".xml", ".geojson", ".txt"):
                            q = {"type": qtype, "name": "q", "label": "Q", "parameters": dict(params), "bind": {"required": "yes"}}
                            yield {"question": q, "list_name": list_name, "choices": copy.deepcopy(choices),
                                   "choice_filter": cf, "file_extension": ext}


EXHAUSTIVE = {
    "pyxform.xls2json.group_dictionaries_by_key": _xh_group_cases,
    "pyxform.xls2json.clean_text_values": _xh_clean_cases,
    "pyxform.xls2json.process_range_question_type": _xh_range_cases,
    "pyxform.xls2json.process_image_default": _xh_image_cases,
    "pyxform.xls2json.add_choices_info_to_question": _xh_choices_cases,
}
