"""Native helpers for contracts/error_cleaner.py (C18): a hand-written path scanner as the spec, and message generators.

The spec side does not use pyxform's regex; `ecl_clean_again` calls the cleaner a second time only to state idempotence."""
import itertools

# Java exception class names ODK Validate prints in front of its diagnostics
ECL_EXCEPTION_PREFIXES = ("java.lang.RuntimeException: ", "org.javarosa.xpath.XPathUnhandledException: ",
                          "java.lang.NullPointerException", "org.javarosa.xform.parse.XFormParseException")
# absolute paths that point into the XForm document / a secondary instance, not into the primary instance
ECL_DOCUMENT_PATHS = (("html", "body"), ("html", "head", "model", "bind"), ("root", "item"))


def _ecl_name_char(c):
    return c.isalnum() or c == "_" or c == "-"


def _ecl_read_step(s, i):
    """A path step starting at s[i] == '/': element name made of letters, digits, '_', '-', with single inner dots.
    Returns the index after the step, or -1."""
    j = i + 1
    if j >= len(s) or not _ecl_name_char(s[j]):
        return -1
    while True:
        while j < len(s) and _ecl_name_char(s[j]):
            j += 1
        if j + 1 < len(s) and s[j] == "." and _ecl_name_char(s[j + 1]):
            j += 1
            continue
        return j


def ecl_paths(s):
    """[(start, end, steps)] of the absolute paths with two or more steps in s, left to right, non-overlapping."""
    out, i = [], 0
    while i < len(s):
        if s[i] == "/":
            steps, j = [], i
            while j < len(s) and s[j] == "/":
                k = _ecl_read_step(s, j)
                if k == -1:
                    break
                steps.append(s[j + 1: k])
                j = k
            if len(steps) >= 2:
                out.append((i, j, steps))
                i = j
                continue
        i += 1
    return out


def _ecl_is_document_path(steps):
    return any(tuple(steps[: len(d)]) == d for d in ECL_DOCUMENT_PATHS) or steps == ["item", "value"]


def ecl_instance_paths(s):
    return ["/" + "/".join(steps) for _, _, steps in ecl_paths(s) if not _ecl_is_document_path(steps)]


def ecl_substitute(s):
    out, pos = [], 0
    for a, b, steps in ecl_paths(s):
        out.append(s[pos:a])
        out.append(s[a:b] if _ecl_is_document_path(steps) else "${" + steps[-1] + "}")
        pos = b
    out.append(s[pos:])
    return "".join(out)


def ecl_is_stack_line(line):
    """A Java stack frame: '\\tat package.Class.method(File.java:NN)' (either mark is enough)."""
    return ".java:" in line or "\tat" in line


def ecl_exception_prefix(line):
    """The Java exception class name(s) in front of a diagnostic ('' when none)."""
    n = 0
    again = True
    while again:
        again = False
        for p in ECL_EXCEPTION_PREFIXES:
            if line.startswith(p, n):
                n += len(p)
                again = True
    return line[:n]


def ecl_expected_lines(message, java):
    lines = ecl_substitute(message).strip().split("\n")
    if java:
        lines = [ln[len(ecl_exception_prefix(ln)):] for ln in lines if not ecl_is_stack_line(ln)]
    return lines


def ecl_norm(lines):
    """Lines without immediate repetitions, as one text without surrounding blank space."""
    out = []
    for ln in lines:
        if not out or out[-1] != ln:
            out.append(ln)
    return "\n".join(out).strip()


def ecl_clean_again(method, text):
    from pyxform.validators.error_cleaner import ErrorCleaner

    return getattr(ErrorCleaner, method)(text)


# ------------------------------------------------------------------ generators

_ecl_lines = [
    "Error evaluating field 'q': The problem was located in Calculate expression for /data/grp/q",
    "XPath evaluation: type mismatch /data/a/b:label and /data/a_1/c-2.",
    "Invalid XPath in /data/a.b/c.d, /data/é/ñ1 (/data/x/y)",
    "/data/q",
    "/data",
    "x /data/a/b. Next sentence",
    "/data/a=/data/b or /a/b/c/d/e",
    "Problem at /html/body/select1[@ref=/data/q]/item/value",
    "instance('c')/root/item[name=/data/grp/q]/label",
    "/html/head/model/bind[3] refers to /data/item/value",
    "/html/body/group/input",
    "/item/value",
    "/root/item/name and /root/q",
    "\tat org.javarosa.xpath.XPathConditional.eval(XPathConditional.java:73)",
    "    at org.javarosa.core.model.FormDef.initialize(FormDef.java:1046)",
    "\tat /data/a/b",
    "org.javarosa.xpath.XPathUnhandledException: XPath evaluation: cannot handle function 'foo' /data/q/r",
    "java.lang.RuntimeException: Error at /data/q/r",
    "java.lang.RuntimeException: org.javarosa.xpath.XPathUnhandledException: nested",
    "java.lang.NullPointerException",
    "org.javarosa.xform.parse.XFormParseException: Cycle detected resolving dependencies /data/a/b",
    "Caused by: java.lang.RuntimeException: inner /data/c/d",
    ">> Something broke the parser. See above for a hint.",
    "",
    "  indented text ${kept} /x//y/ z/ /-/- ",
    "Result: Invalid",
    "a / b, 1/2, ./data/q, ../q, /data/q/, /data//q",
    "/data/q1/${q2}/data/q3/x",
]
_ecl_more = [
    "See https://docs.getodk.org/form-logic/#x for help",
    "dir/sub/file.xml not found",
]


def _ecl_messages():
    for ln in _ecl_lines:
        yield ln
        yield "\n" + ln + "\n\n"
        yield ln + "\n" + ln
    for a, b in itertools.product(_ecl_lines, repeat=2):
        yield a + "\n" + b
    sub = _ecl_lines[::2]
    for a, b, c in itertools.product(sub, repeat=3):
        yield a + "\n" + b + "\n" + c
    for a in _ecl_lines[:6]:
        yield "Error: Unable to access jarfile /tmp/pyxform/validators/ODK_Validate.jar\n" + a
    # small-scope exhaustive path shapes
    toks = ["/", "a", "data", ".", "-", " ", "item", "value", "é", "1"]
    seen = set()
    for n in range(1, 6):
        for combo in itertools.product(toks, repeat=n):
            s = "".join(combo)
            if s not in seen:
                seen.add(s)
                yield s
    for t in _ecl_more:
        yield t


def _ecl_message_cases():
    for m in _ecl_messages():
        yield {"error_message": m}


def _ecl_line_cases():
    for ln in _ecl_lines + _ecl_more + ["x.java:1", "Foo.java", "\t at x", "at x", "java.lang.RuntimeException:", " java.lang.RuntimeException: x",
                                          "java.lang.NullPointerException: msg", "org.javarosa.xform.parse.XFormParseException"]:
        yield {"line": ln}


def _ecl_join_cases():
    pool = [None, "", "a", "b\tc"]
    for n in range(0, 4):
        for combo in itertools.product(pool, repeat=n):
            yield {"error_messages": list(combo)}


EXHAUSTIVE = {
    "pyxform.validators.odk_validate.ErrorCleaner.odk_validate": _ecl_message_cases,
    "pyxform.validators.error_cleaner.ErrorCleaner.enketo_validate": _ecl_message_cases,
    "pyxform.validators.error_cleaner.ErrorCleaner._cleanup_errors": _ecl_message_cases,
    "pyxform.validators.error_cleaner.ErrorCleaner._remove_java_content": _ecl_line_cases,
    "pyxform.validators.error_cleaner.ErrorCleaner._join_final": _ecl_join_cases,
}
