"""Native helpers for contracts/validators_translations.py (C20 missing-translation and or_other warnings).

The spec side (vtr_* functions, VTR_* tables) is written from the property statement and the XLSForm column vocabulary;
pyxform is imported only by the generators, to build the `self` objects the methods are called on."""
import itertools
import types
from collections import defaultdict

# Translatable columns of XLSForm, keyed by the name they have in a (dealiased) header tuple, with the name the form
# author uses for them (which is what a warning should show).  Written down here, not read from pyxform.aliases.
VTR_SURVEY_COLUMNS = {
    "label": "label", "hint": "hint", "guidance_hint": "guidance_hint",
    "image": "image", "big-image": "big-image", "audio": "audio", "video": "video",
    "jr:constraintMsg": "constraint_message", "jr:requiredMsg": "required_message",
}
VTR_CHOICES_COLUMNS = {"label": "label", "image": "image", "big-image": "big-image", "audio": "audio", "video": "video"}


def vtr_seen(sheet_data, table):
    """{(language, column)}: translatable columns present on the sheet; an unsuffixed column is language 'default'.
    Headers are tuples: (col,), (col, lang), and media/bind columns one level down: ('media', col[, lang])."""
    out = set()
    for h in sheet_data:
        if len(h) > 1 and h[0] in ("media", "bind"):
            h = h[1:]
        if h[0] in table and len(h) <= 2:
            shown = table[h[0]] if isinstance(table[h[0]], str) else h[0]
            out.add((h[1] if len(h) == 2 else "default", shown))
    return out


def vtr_translated(sheet_data, table):
    return any(lang != "default" for lang, _ in vtr_seen(sheet_data, table))


def vtr_missing(sheet_data, table):
    """{language: sorted columns lacking that language}, only languages lacking something; {} unless some language
    besides the default appears."""
    seen = vtr_seen(sheet_data, table)
    langs = {l for l, _ in seen}
    cols = {c for _, c in seen}
    if all(l == "default" for l in langs):
        return {}
    out = {}
    for l in langs:
        lacking = sorted(c for c in cols if (l, c) not in seen)
        if lacking:
            out[l] = lacking
    return out


def vtr_missing_of(sheet_translations):
    return {"survey": sheet_translations.survey.missing, "choices": sheet_translations.choices.missing}


def vtr_triples(_in):
    return [(s, lang, c) for s in ("survey", "choices") if _in.get(s) is not None
            for lang, cols in _in[s].items() if not isinstance(cols, str) for c in cols]


def vtr_message_names(message, _in):
    """One line per (sheet, language) lacking something; that line names the sheet, quotes the language and names every
    lacking column."""
    pairs = [(s, lang, list(cols)) for s in ("survey", "choices") if _in.get(s) is not None
             for lang, cols in _in[s].items() if len(cols) > 0]
    lines = message.split("\n")
    if len(lines) != len(pairs):
        return False
    for s, lang, cols in pairs:
        if not any(("'" + lang + "'") in ln and (" " + s + " ") in ln and all(c in ln for c in cols)
                   and not any(o in ln for o in ("survey", "choices") if o != s) for ln in lines):
            return False
    return True


# ------------------------------------------------------------------ generators

def _vtr_headers(cols, langs):
    """cols: header prefixes as tuples; langs: None = unsuffixed."""
    return [c + (() if l is None else (l,)) for c in cols for l in langs]


def _vtr_subsets(pool):
    for n in range(len(pool) + 1):
        yield from itertools.combinations(pool, n)


_vtr_noise = (("type",), ("name",), ("bind", "relevant"), ("control", "appearance"), ("bind", "constraint"), ("media",), ("x", "en"))


def _vtr_new(cls_name):
    from pyxform.validators.pyxform import translations_checks as tc

    cls = getattr(tc, cls_name)
    return cls.__new__(cls)


def _vtr_translations_init_cases():
    pool = _vtr_headers([("label",), ("media", "image"), ("bind", "jr:constraintMsg")], [None, "en", "fr", "default"])
    tables = [dict(VTR_SURVEY_COLUMNS), {"label": "label", "image": ("media", "image"), "jr:constraintMsg": "constraint_message"}]
    for sub in _vtr_subsets(pool):
        for ti, table in enumerate(tables):
            for noisy in (False, True):
                sheet = tuple(sub)
                if noisy:
                    sheet = _vtr_noise[:3] + tuple(reversed(sub)) + _vtr_noise[3:]
                yield {"self": _vtr_new("Translations"), "sheet_data": sheet, "translatable_columns": table}


def _vtr_sheet_init_cases():
    s_pool = _vtr_headers([("label",), ("hint",), ("media", "image"), ("bind", "jr:requiredMsg")], [None, "en", "fr"])
    c_pool = _vtr_headers([("label",), ("media", "audio"), ("media", "video")], [None, "en", "fr"])
    c_fixed = [(), (("list name",), ("name",), ("label",)), (("name",), ("label", "en"), ("media", "image", "fr"))]
    s_fixed = [(("type",), ("name",)), (("type",), ("name",), ("label",), ("hint", "en")), (("label", "fr"), ("label", "en"))]
    for sub in _vtr_subsets(s_pool):
        for c in c_fixed:
            yield {"self": _vtr_new("SheetTranslations"), "survey_sheet": (("type",), ("name",)) + tuple(sub), "choices_sheet": c}
    for sub in _vtr_subsets(c_pool):
        for s in s_fixed:
            yield {"self": _vtr_new("SheetTranslations"), "survey_sheet": s, "choices_sheet": (("list name",), ("name",)) + tuple(sub)}
    # every translatable column of each sheet is recognised (and columns translatable on the other sheet only are not)
    wrap = {"image": ("media",), "big-image": ("media",), "audio": ("media",), "video": ("media",),
            "jr:constraintMsg": ("bind",), "jr:requiredMsg": ("bind",)}
    for c in VTR_SURVEY_COLUMNS:
        for other in (("label",), ("hint", "en")):
            hs = ((wrap.get(c, ()) + (c, "fr")), other)
            yield {"self": _vtr_new("SheetTranslations"), "survey_sheet": hs, "choices_sheet": hs}
            yield {"self": _vtr_new("SheetTranslations"), "survey_sheet": tuple(reversed(hs)), "choices_sheet": ()}


def _vtr_seen_cases():
    for sub in _vtr_subsets(["default", "en", "fr", "Default", ""]):
        for cols in (["label"], ["label", "hint"]):
            d = defaultdict(list)
            for l in sub:
                d[l] = list(cols)
            yield {"self": types.SimpleNamespace(seen=d)}


def _vtr_missing_dicts():
    opts = [None, ["label"], ["video", "big-image"], ["hint", "guidance_hint", "audio"]]
    for a, b, c in itertools.product(opts, repeat=3):
        d = defaultdict(list)
        for l, v in (("fr (fr)", a), ("default", b), ("en", c)):
            if v is not None:
                d[l] = list(v)
        yield d


def _vtr_missing_check_cases():
    for s in _vtr_missing_dicts():
        for c in _vtr_missing_dicts():
            for w in ([], ["w0"]):
                yield {"self": types.SimpleNamespace(survey=types.SimpleNamespace(missing=s), choices=types.SimpleNamespace(missing=c)),
                       "warnings": list(w)}


def _vtr_format_cases():
    for s in [None, "absent"] + list(_vtr_missing_dicts()):
        for c in [None, "absent"] + list(_vtr_missing_dicts()):
            d = {}
            if not isinstance(s, str):
                d["survey"] = s
            if not isinstance(c, str):
                d["choices"] = c
            yield {"_in": d}
    yield {"_in": {"survey": {"en": "label"}}}
    yield {"_in": {"survey": {"en": ["label"]}, "choices": {"fr": "label"}}}
    yield {"_in": {"survey": {"en": ("hint", "label")}, "choices": {"en": ("label",)}}}
    yield {"_in": {"other": {"en": ["label"]}}}


def _vtr_or_other_cases():
    from pyxform.validators.pyxform.translations_checks import SheetTranslations

    sheets_s = [(("type",), ("name",)), (("label",),), (("label", "en"),), (("label", "default"),), (("label",), ("hint", "fr")),
                (("bind", "jr:constraintMsg", "en"),), (("name", "en"),), (("label", "en"), ("label", "fr"))]
    sheets_c = [(), (("label",),), (("label", "en"),), (("media", "image", "fr"), ("label",)), (("label", "default"), ("name",)),
                (("hint", "en"),), (("label", "fr"), ("label", "en"))]
    for s in sheets_s:
        for c in sheets_c:
            for seen in (False, True):
                for w in ([], ["w0"]):
                    obj = SheetTranslations(survey_sheet=s, choices_sheet=c)
                    obj.or_other_seen = seen
                    obj.nc_survey_headers, obj.nc_choices_headers = s, c
                    yield {"self": obj, "warnings": list(w)}


EXHAUSTIVE = {
    "pyxform.validators.pyxform.translations_checks.Translations.__init__": _vtr_translations_init_cases,
    "pyxform.validators.pyxform.translations_checks.Translations.seen_default_only": _vtr_seen_cases,
    "pyxform.validators.pyxform.translations_checks.SheetTranslations.__init__": _vtr_sheet_init_cases,
    "pyxform.validators.pyxform.translations_checks.SheetTranslations.missing_check": _vtr_missing_check_cases,
    "pyxform.validators.pyxform.translations_checks.SheetTranslations.or_other_check": _vtr_or_other_cases,
    "pyxform.validators.pyxform.translations_checks.format_missing_translations_msg": _vtr_format_cases,
}
