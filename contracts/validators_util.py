# Sidecar contracts for pyxform/validators/util.py  (C18) — bounded native search only
MODULE = "pyxform.validators.util"

Any = Opaque("Any")


# C18: "conversion fails with a validation error carrying the validator's diagnostic lines": whatever bytes the validator
# writes, decoding them never fails and loses nothing — well-formed UTF-8 is read as UTF-8, anything else byte for byte
# (every byte value is a character), so check_xform always gets to read the exit code and the message.
@contract("decode_stream")
def _(stream: Any) -> str:
    properties("C18")
    trusted("bytes.decode with a fallback codec: outside the prover's subset — bounded native search only")
    exhaustive_only()
    ensures(implies(vu_is_utf8(stream), result == vu_utf8(stream)))
    ensures(implies(not vu_is_utf8(stream), len(result) == len(stream) and [ord(ch) for ch in result] == list(stream)))
