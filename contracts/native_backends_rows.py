"""Native generator for the proved contract of get_excel_rows: cells carry a unique tag and the cell function returns
it, so that a value computed for *another* cell (a cache keyed on the cell's value, a stale variable, a shifted
column) is visible to the clause `result[k][h] == cell_func(rows[k][c], k, h)`."""
import itertools
import types


class _TaggedCell:
    def __init__(self, value, tag):
        self.value, self.tag = value, tag

    def __repr__(self):
        return f"Cell({self.value!r}#{self.tag})"


def _rows_cases():
    def cell_func(cell, row_n, key):
        return ("cf", cell.tag, row_n, key)

    values = [None, "", " ", "1", "1", "x", "TRUE"]
    header_sets = [["a"], ["a", "b"], ["a", None, "b"], [None, "a"], ["a", "b", "c"]]
    n = 0
    for headers in header_sets:
        w = len(headers)
        for nrows in (1, 2, 3):
            for combo in itertools.islice(itertools.product(values, repeat=min(w * nrows, 4)), 400):
                vals = list(combo) + ["1"] * (w * nrows - len(combo))
                rows, t = [], 0
                for r in range(nrows):
                    row = []
                    for c in range(w):
                        row.append(_TaggedCell(vals[r * w + c], t))
                        t += 1
                    rows.append(tuple(row[: w - (1 if (r + n) % 5 == 0 and w > 1 else 0)]))   # some short rows
                n += 1
                yield {"headers": list(headers), "rows": rows, "cell_func": cell_func}
    # long empty runs around the 60-row limit
    for k in (59, 60, 61, 62):
        rows = [(_TaggedCell("v", 0),)] + [(_TaggedCell(None, i + 1),) for i in range(k)] + [(_TaggedCell("w", 999),)]
        yield {"headers": ["a"], "rows": rows, "cell_func": cell_func}


EXHAUSTIVE = {"pyxform.xls2json_backends.get_excel_rows": _rows_cases}
