# Sidecar contracts for the small validators of pyxform/validators/pyxform/*  (C17, C20) — bounded native search only
MODULE = "pyxform.validators.pyxform.sheet_misspellings"

Any = Opaque("Any")


# ------------------------------------------------------------------ C20: sheet names, language codes

@contract("find_sheet_misspellings")
def _(key: str, keys: Any) -> Opt[str]:
    properties("C20")
    trusted("edit distance over strings and a generator expression: outside the prover's subset — bounded native search only")
    exhaustive_only()
    # C20 "Each documented warning is emitted if and only if its trigger occurs in the workbook, and names the right
    # subject: ... sheet names within edit distance 2 of a missing sheet (unless prefixed with an underscore)":
    # a message exactly when some sheet name qualifies; it names the sheet looked for and exactly the qualifying names
    # call-site precondition: the function is asked about a sheet that the workbook lacks
    requires(not any(k.strip().lower() == key for k in (keys or ())))
    ensures((result is None) == (len(vmi_similar_sheets(key, keys)) == 0))
    ensures(implies(result is not None, vmi_quoted(result) == [key] + vmi_similar_sheets(key, keys)))


@contract("get_languages_with_bad_tags", module="pyxform.validators.pyxform.iana_subtags.validation")
def _(languages: Any) -> List[str]:
    properties("C20")
    trusted("regex search and file-backed tables: outside the prover's subset — bounded native search only")
    exhaustive_only()
    # C20 "languages without a valid IANA code": a language label is reported iff it is not the default language and
    # it does not end in "(code)" with a code of the IANA subtag registry (oracle: the registry files shipped with
    # pyxform); reported once each, in the order given
    # (labels of one or two characters are left out: the statement does not say whether "fr" alone is a name or a code)
    requires(all(len(l) >= 3 for l in languages))
    ensures(list(result) == [l for l in languages if vmi_lang_lacks_code(l)])


# ------------------------------------------------------------------ C17: ${references}

@contract("validate_pyxform_reference_syntax", module="pyxform.validators.pyxform.pyxform_reference")
def _(value: str, sheet_name: str, row_number: int, key: str) -> None:
    properties("C17", "C03")
    trusted("tokenises with re.Scanner: outside the prover's subset — bounded native search only")
    exhaustive_only()
    # columns that hold names rather than text/expressions are not the subject of this check (names are validated as names)
    requires(not ((sheet_name == "survey" and key in ("type", "name")) or (sheet_name == "choices" and key in ("list name", "list_name", "name"))
                  or (sheet_name == "entities" and key in ("list name", "list_name"))))
    # C17 "unknown or ambiguous or malformed ${references} ... is refused: conversion raises the library's own error type
    # with a message identifying the problem, citing the spreadsheet row when the error belongs to a row":
    # refused exactly when some "${" does not begin a ${name} / ${last-saved#name} reference; the message cites the row
    # and names the sheet and the column.  Well-formed cells pass (returns None, nothing else can be raised).
    raises(PyXFormError, when=vmi_malformed_reference(value) and vmi_error_cites(row_number, vmi_q(sheet_name) + " sheet", vmi_q(key)))
    ensures(result is None)


# ------------------------------------------------------------------ C17: parameters

@contract("parse", module="pyxform.validators.pyxform.parameters_generic")
def _(raw_parameters: str) -> Dict[str, str]:
    properties("C17", "C09")
    trusted("str.split chains: outside the prover's subset — bounded native search only")
    exhaustive_only()
    # C17 "bad or unknown parameters" are refused with the library's own error: a parameters cell is a list of name=value
    # items separated by ';' or ',' or blanks; an item that is not name=value makes the cell bad
    raises(PyXFormError, when=any("=" not in item for item in vmi_param_items(raw_parameters)))
    # C09 "applies exactly its own choice_filter, randomize/seed and value/label parameters": every item is returned under
    # its (case-insensitive, trimmed) name with its trimmed value — nothing dropped, nothing invented; values that name
    # things in the form or in a file (label, value, seed) keep their case, the others are case-insensitive
    ensures(result == vmi_param_dict(raw_parameters))


@contract("validate", module="pyxform.validators.pyxform.parameters_generic")
def _(parameters: Dict[str, str], allowed: Any) -> Dict[str, str]:
    properties("C17")
    trusted("set difference over dict keys: bounded native search only")
    exhaustive_only()
    # C17 "bad or unknown parameters": refused exactly when a parameter is not one of those the question type accepts;
    # the message identifies the problem: it names every unknown parameter
    raises(PyXFormError, when=any(k not in allowed for k in parameters) and vmi_error_names([k for k in parameters if k not in allowed]))
    ensures(result == parameters and final_parameters == parameters)


@contract("value_or_label_check", module="pyxform.validators.pyxform.select_from_file")
def _(name: str, value: str, row_number: int) -> None:
    properties("C17", "C09")
    trusted("regex: bounded native search only")
    exhaustive_only()
    # C17 "bad ... parameters": the value/label parameter of a select from file must be usable as an element name in the
    # itemset path: a letter or underscore, then letters, digits, dashes, underscores, periods.  Cites the row and the parameter.
    raises(PyXFormError, when=not vmi_value_or_label_ok(value) and vmi_error_cites(row_number, vmi_q(name)))
    ensures(result is None)


@contract("value_or_label_test", module="pyxform.validators.pyxform.select_from_file")
def _(value: str) -> bool:
    properties("C17")
    trusted("regex: bounded native search only")
    ensures(result == vmi_value_or_label_ok(value))


@contract("validate_list_name_extension", module="pyxform.validators.pyxform.select_from_file")
def _(select_command: str, list_name: str, row_number: int) -> None:
    properties("C17", "C09")
    trusted("pathlib suffix handling: bounded native search only")
    exhaustive_only()
    # C17 "missing or invalid choice list": a select_*_from_file must name a file with one of the supported extensions
    # (.csv .xml .geojson); other selects are not concerned.  Cites the row and the offending type cell.
    # (file names with several dots, e.g. a.b.csv, are outside the generated domain: the statement does not settle them)
    raises(PyXFormError, when=select_command in VMI_SELECT_FROM_FILE and not vmi_has_supported_extension(list_name)
           and vmi_error_cites(row_number, vmi_q(select_command + " " + list_name)))
    ensures(result is None)


# ------------------------------------------------------------------ C17: triggers (question_types)

@contract("validate_trigger", module="pyxform.validators.pyxform.question_types")
def _(row: Dict[str, str], row_num: int) -> bool:
    properties("C17", "C10")
    trusted("regex on a dict cell: bounded native search only")
    exhaustive_only()
    # C17 "malformed ${references}" / C10: a trigger cell, if any, is exactly one ${question} reference (surrounding
    # blanks aside; not a ${last-saved#...} reference); anything else is refused, citing the row
    raises(PyXFormError, when=bool(row.get("trigger")) and not vmi_is_one_reference(str(row.get("trigger")).strip())
           and vmi_error_cites(row_num, vmi_q("trigger")))
    ensures(result is True and final_row == row)


@contract("validate_background_geopoint_calculation", module="pyxform.validators.pyxform.question_types")
def _(row: Any, row_num: int) -> bool:
    properties("C17")
    trusted("nested dict lookup with try/except: bounded native search only")
    exhaustive_only()
    # C17 catalogue: a background-geopoint question with a calculation is refused, citing the row
    raises(PyXFormError, when="calculate" in row.get("bind", {}) and vmi_error_cites(row_num, vmi_q("calculation")))
    ensures(result is True and final_row == row)


@contract("validate_background_geopoint_trigger", module="pyxform.validators.pyxform.question_types")
def _(row: Any, row_num: int) -> bool:
    properties("C17")
    trusted("regex on a dict cell: bounded native search only")
    exhaustive_only()
    # (every row first passes validate_trigger, and survey cells are trimmed when read)
    requires(implies(bool(row.get("trigger")), row["trigger"] == row["trigger"].strip() and "${last-saved#" not in row["trigger"]))
    # C17 catalogue: a background-geopoint question needs a trigger that is one ${question} reference; cites the row and the type
    raises(PyXFormError, when=not (bool(row.get("trigger")) and vmi_is_one_reference(row.get("trigger")))
           and vmi_error_cites(row_num, vmi_q("trigger"), vmi_q(row["type"])))
    ensures(result is True and final_row == row)


@contract("validate_references", module="pyxform.validators.pyxform.question_types")
def _(referrers: Any, questions: Any) -> bool:
    properties("C17", "C10")
    trusted("regex groups over a list of rows: bounded native search only")
    exhaustive_only()
    # C17 "unknown ... ${references}": a trigger naming a question that does not exist is refused, citing the row of
    # a question whose trigger is unknown (and only such a row)
    raises(PyXFormError, when=len(vmi_unknown_trigger_rows(referrers, questions)) > 0
           and vmi_error_cites_one_of(vmi_unknown_trigger_rows(referrers, questions)))
    ensures(result is True)


# ------------------------------------------------------------------ C17: app parameter of audio/… (android package name)

@contract("validate_android_package_name", module="pyxform.validators.pyxform.android_package_name")
def _(name: str) -> Opt[str]:
    properties("C17")
    trusted("string scanning with a regex: bounded native search only")
    # C17 "bad or unknown parameters": the app parameter is an Android package name — two or more '.'-separated segments,
    # each starting with a letter and made of letters, digits and underscores; a message is returned exactly for the others
    ensures((result is None) == vmi_android_package_ok(name))
    ensures(implies(result is not None, "'app'" in result))
