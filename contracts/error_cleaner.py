# Sidecar contracts for pyxform/validators/error_cleaner.py  (C18) — bounded native search only
MODULE = "pyxform.validators.error_cleaner"

Any = Opaque("Any")

# C18: "When validation is requested and the external validator rejects the XForm, conversion fails with a validation
# error carrying the validator's diagnostic lines (instance paths shown as ${name}, Java stack noise removed)".


# NB: contracts/odk_validate.py already holds the prover-side abstraction of this method under the fid
# pyxform.validators.error_cleaner.ErrorCleaner.odk_validate (result == Cleaned(stderr), uninterpreted) and refers here for
# its string-level contract.  Two contracts cannot share a fid, so this one reaches the same function through the name
# pyxform.validators.odk_validate imports it under; odk_validate.py is loaded later and stays the call-site contract.
@contract("ErrorCleaner.odk_validate", module="pyxform.validators.odk_validate")
def _(error_message: str) -> str:
    properties("C18")
    trusted("regex substitution and line filtering: outside the prover's subset — bounded native search only")
    # a message that is about the validator's jar file (a file-system path, no instance path) is passed on as it is
    ensures(implies("Error: Unable to access jarfile" in error_message, result == error_message))
    # "Java stack noise removed": no stack frame line, no Java exception class name in front of a diagnostic
    ensures(implies("Error: Unable to access jarfile" not in error_message,
                    not any(ecl_is_stack_line(ln) or ecl_exception_prefix(ln) != "" for ln in result.split("\n"))))
    # "instance paths shown as ${name}": no instance path is left (paths into the XForm document — /html/body..., the
    # /root/item... step of a secondary instance, /item/value of an itemset — are not instance paths)
    ensures(implies("Error: Unable to access jarfile" not in error_message, ecl_instance_paths(result) == []))
    # "carrying the validator's diagnostic lines": every other line is carried, in order, with each instance path replaced
    # by ${last step} and everything else untouched (surrounding blank space and immediate repetitions of a line aside)
    ensures(implies("Error: Unable to access jarfile" not in error_message,
                    ecl_norm(result.split("\n")) == ecl_norm(ecl_expected_lines(error_message, True))))
    # cleaning a cleaned message changes nothing more
    ensures(ecl_norm(ecl_clean_again("odk_validate", result).split("\n")) == ecl_norm(result.split("\n")))


@contract("ErrorCleaner.enketo_validate")
def _(error_message: str) -> str:
    properties("C18")
    trusted("regex substitution and line filtering: outside the prover's subset — bounded native search only")
    # same for the other validator (which is not a Java program: nothing is filtered out)
    ensures(ecl_instance_paths(result) == [])
    ensures(ecl_norm(result.split("\n")) == ecl_norm(ecl_expected_lines(error_message, False)))
    ensures(ecl_norm(ecl_clean_again("enketo_validate", result).split("\n")) == ecl_norm(result.split("\n")))


@contract("ErrorCleaner._cleanup_errors")
def _(error_message: str) -> List[str]:
    properties("C18")
    trusted("regex substitution: bounded native search only")
    ensures(all(ecl_instance_paths(ln) == [] for ln in result))
    ensures(ecl_norm(result) == ecl_norm(ecl_expected_lines(error_message, False)))
    ensures(all("\n" not in ln for ln in result))


@contract("ErrorCleaner._remove_java_content")
def _(line: str) -> Opt[str]:
    properties("C18")
    trusted("string scanning: bounded native search only")
    # "Java stack noise removed": a stack frame line is dropped (None); a diagnostic keeps its text, minus a Java
    # exception class name in front of it
    ensures((result is None) == ecl_is_stack_line(line))
    ensures(implies(result is not None, result == line[len(ecl_exception_prefix(line)):]))


@contract("ErrorCleaner._join_final")
def _(error_messages: Any) -> str:
    properties("C18")
    trusted("generator expression: bounded native search only")
    exhaustive_only()
    ensures(result == "\n".join([ln for ln in error_messages if ln is not None]))
