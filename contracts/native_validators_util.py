"""Native helpers for contracts/validators_util.py (C18): byte-string generators and an independent UTF-8 reader."""
import itertools


def vu_is_utf8(b):
    try:
        b.decode("utf-8", errors="strict")
        return True
    except UnicodeDecodeError:
        return False


def vu_utf8(b):
    return str(b, "utf-8")


def _vu_cases():
    """Every byte value alone and next to ASCII; UTF-8 sequences (2-4 bytes, curly quotes, BOM) alone and followed or
    preceded by each stray high byte; truncated sequences."""
    seqs = [b"", b"ok\n", "é".encode(), "”".encode(), "\U0001f600".encode(), b"\xef\xbb\xbf", "path /data/é".encode()]
    for v in range(256):
        yield {"stream": bytes([v])}
        yield {"stream": b"Error: " + bytes([v]) + b" at line\n"}
    for s in seqs:
        yield {"stream": s}
        for v in range(0x80, 0x100):
            yield {"stream": s + bytes([v])}
            yield {"stream": bytes([v]) + s}
    for s in seqs[3:6]:
        for k in range(1, len(s)):
            yield {"stream": s[:k]}
            yield {"stream": b"x" + s[:k] + b"y"}
    for a, b in itertools.product([0x81, 0x8d, 0x8f, 0x90, 0x9d, 0xa0, 0xe9, 0xff], repeat=2):
        yield {"stream": bytes([a, b])}


EXHAUSTIVE = {"pyxform.validators.util.decode_stream": _vu_cases}
