# Sidecar contracts for pyxform/question.py  (C10 static defaults, C02 action/trigger refs, C04 controls)
MODULE = "pyxform.question"

XNode = Opaque("XNode")
Elem = Opaque("Elem")
Ctx = Opaque("Ctx")
StrMap = Dict[str, str]
BindVal = Union[str, StrMap]
LabelVal = Union[str, StrMap]
declare_class("Question", "pyxform.question.Question")

# a Question is a SurveyElement: the record has the element slots first (so that it is accepted where an element is)
QuestionK = Obj("Question", name=str, type=str, bind=Opt[Dict[str, BindVal]], flat=Opt[bool], trigger=Opt[str],
                default=Opt[str], label=Opt[LabelVal], hint=Opt[LabelVal], guidance_hint=Opt[LabelVal],
                media=Opt[Dict[str, LabelVal]], instance=Opt[StrMap], action=Opt[StrMap], control=Opt[StrMap])
ElemK = Obj("SurveyElement", name=str, type=str, bind=Opt[Dict[str, BindVal]], flat=Opt[bool], trigger=Opt[str],
            default=Opt[str], label=Opt[LabelVal], hint=Opt[LabelVal], guidance_hint=Opt[LabelVal],
            media=Opt[Dict[str, LabelVal]])
SurveyQ = Obj("Survey", name=str, _xpath=Opt[Dict[str, Opt[Elem]]])


@spec
def XPathOf(e: ElemK) -> str:
    uninterpreted()


@spec
def Subst(survey: Ctx, text: BindVal, ctx: Ctx) -> str:
    uninterpreted()


@spec
def IsDynamic(default: str, qtype: str) -> bool:
    uninterpreted()


@contract("Question.xml_instance")
def _(self: QuestionK, survey: SurveyQ, **kwargs: Dict[str, str]) -> XNode:
    properties("C10", "C04", "C02")
    no_native("needs survey-element objects: exercised through the e2e oracles")
    kwargs_shapes({}, {"append_template": bool})
    may_raise(PyXFormError, when=True)
    static = bool(self.default) and not IsDynamic(some(self.default), self.type)
    A = some(self.instance)
    ensures(result.nodeType == 1 and result.tagName == self.name)
    # C10: a static default is the literal content of the node (in the instance and, through the same method, in the
    # repeat template); a dynamic or absent default leaves the node empty
    ensures(implies(static, len(result.kids) == 1 and result.kids[0].nodeType == 3 and result.kids[0].data == some(self.default)))
    ensures(implies(not static, len(result.kids) == 0))
    # instance:: attributes of the row after reference substitution, nothing else
    ensures(implies(not bool(self.instance), len(keys(result.attrs)) == 0))
    ensures(implies(bool(self.instance), forall(0, len(keys(A)), lambda q: keys(A)[q] in result.attrs
                    and result.attrs[keys(A)[q]] == Subst(ctx_of(survey), A[keys(A)[q]], ctx_of(self)))))
    ensures(implies(bool(self.instance), forall_str(lambda a: implies(a in result.attrs, a in A))))

    @loop(0, index="q")
    def _():
        invariant(result.nodeType == 1 and result.tagName == self.name)
        invariant(implies(static, len(result.kids) == 1 and result.kids[0].nodeType == 3 and result.kids[0].data == some(self.default)))
        invariant(implies(not static, len(result.kids) == 0))
        invariant(forall(0, q, lambda r: keys(A)[r] in result.attrs
                         and result.attrs[keys(A)[r]] == Subst(ctx_of(survey), A[keys(A)[r]], ctx_of(self))))
        invariant(forall_str(lambda a: implies(a in result.attrs, a in A)))


@contract("Question.xml_action")
def _(self: QuestionK) -> Opt[XNode]:
    properties("C02")
    no_native("needs survey-element objects: exercised through the e2e oracles")
    Ac = some(self.action)
    requires(implies(bool(self.action), "name" in Ac and "ref" not in Ac))     # type-table invariant of action entries
    ensures((result is None) == (not bool(self.action)))
    # C02: a model-level action (setgeopoint, recordaudio) targets the question's own node
    ensures(implies(bool(self.action), some(result).tagName == Ac["name"] and len(some(result).kids) == 0
                    and keys(some(result).attrs)[0] == "ref" and some(result).attrs["ref"] == XPathOf(self)))
    ensures(implies(bool(self.action), forall(0, len(keys(Ac)), lambda q: keys(Ac)[q] == "name"
                    or (keys(Ac)[q] in some(result).attrs and some(result).attrs[keys(Ac)[q]] == Ac[keys(Ac)[q]]))))

    @loop(0, index="q")
    def _():
        invariant(result.tagName == Ac["name"] and len(result.kids) == 0 and result.nodeType == 1)
        invariant(keys(result.attrs)[0] == "ref" and result.attrs["ref"] == XPathOf(self) and len(keys(result.attrs)) >= 1)
        invariant(forall(0, q, lambda r: keys(Ac)[r] == "name"
                         or (keys(Ac)[r] in result.attrs and result.attrs[keys(Ac)[r]] == Ac[keys(Ac)[r]])))


Item = Tuple[str, Opt[str]]


@spec
def SetNodeOk(n: XNode, survey: SurveyQ, tag: str, item: Item) -> bool:
    """C10/C02: the action nested in the trigger's control — fired on value change, targeting the calculated question's
    node, its value the calculation resolved *from that node* (absent when the row has no calculation)."""
    tgt = some(survey._xpath)[item[0]]
    return (n.nodeType == 1 and n.tagName == tag and len(n.kids) == 0
            and n.attrs["ref"] == strip(Subst(ctx_of(survey), "${" + item[0] + "}", ctx_of(survey)))
            and n.attrs["event"] == "xforms-value-changed"
            and ("value" in n.attrs) == bool(item[1])
            and implies(bool(item[1]), n.attrs["value"] == Subst(ctx_of(survey), some(item[1]), ctx_of(tgt)))
            and len(keys(n.attrs)) == (3 if bool(item[1]) else 2))


@contract("Question.nest_set_nodes")
def _(self: QuestionK, survey: SurveyQ, xml_node: XNode, tag: str, nested_items: List[Item]) -> None:
    properties("C10", "C02")
    no_native("needs survey-element objects: exercised through the e2e oracles")
    may_raise(PyXFormError, when=True)
    modifies_fields(xml_node=("kids",))
    n0 = len(xml_node.kids)
    # every triggered row is a question of the form (established by Survey.xml before the body is built)
    requires(survey._xpath is not None)
    requires(forall(0, len(nested_items), lambda j: nested_items[j][0] in some(survey._xpath)))
    # the control keeps its children; one action per triggered row is appended, in order
    ensures(len(final_xml_node.kids) == n0 + len(nested_items))
    ensures(forall(0, n0, lambda j: final_xml_node.kids[j] == xml_node.kids[j]))
    ensures(forall(0, len(nested_items), lambda j: SetNodeOk(final_xml_node.kids[n0 + j], survey, tag, nested_items[j])))

    @loop(0, index="i")
    def _():
        invariant(xml_node.nodeType == old(xml_node).nodeType and xml_node.tagName == old(xml_node).tagName
                  and same(xml_node.attrs, old(xml_node).attrs) and xml_node.data == old(xml_node).data)
        invariant(len(xml_node.kids) == n0 + i)
        invariant(forall(0, n0, lambda j: xml_node.kids[j] == old(xml_node).kids[j]))
        invariant(forall(0, i, lambda j: SetNodeOk(xml_node.kids[n0 + j], survey, tag, nested_items[j])))


# ---------------------------------------------------------------- body control skeleton (C02 ref, C04 tag/attributes)

SurveyS = Obj("Survey", name=str)


@spec
def LabelNode(e: ElemK, survey: SurveyS) -> XNode:
    """The label element of a row (SurveyElement.xml_label, proved in contracts/survey_element.py)."""
    uninterpreted()


@spec
def HintNode(e: ElemK, survey: SurveyS) -> XNode:
    """The hint element of a row (SurveyElement.xml_hint, proved in contracts/survey_element.py)."""
    uninterpreted()


@spec
def LabelHintNodes(e: ElemK, survey: SurveyS) -> List[XNode]:
    """C04: a control starts with its label, followed by its hint when the row has a hint or a guidance hint
    (SurveyElement.xml_label_and_hint, proved in contracts/survey_element.py)."""
    if bool(e.hint) or bool(e.guidance_hint):
        return [LabelNode(e, survey), HintNode(e, survey)]
    return [LabelNode(e, survey)]


@contract("Question._build_xml")
def _(self: QuestionK, survey: SurveyQ) -> XNode:
    properties("C02", "C04")
    no_native("needs survey-element objects: exercised through the e2e oracles")
    may_raise(PyXFormError, when=True)
    Cd = some(self.control)
    requires(self.control is not None and "tag" in Cd)          # every type-table entry with a control has a tag
    ensures(result.nodeType == 1 and result.tagName == Cd["tag"])
    # C04: label and hint come first, nothing else is a child yet
    ensures(result.kids == LabelHintNodes(self, survey))
    # C02: the control's ref is the question's own path (an author-written body::ref column is an explicit override)
    ensures("ref" in result.attrs and implies("ref" not in Cd, result.attrs["ref"] == XPathOf(self)))
    # C04: appearance / parameter-derived attributes of the row, after reference substitution; `tag` is not an attribute
    ensures(forall(0, len(keys(Cd)), lambda q: keys(Cd)[q] == "tag" or (keys(Cd)[q] in result.attrs
            and result.attrs[keys(Cd)[q]] == Subst(ctx_of(survey), Cd[keys(Cd)[q]], ctx_of(self)))))
    ensures(forall_str(lambda a: implies(a in result.attrs, a == "ref" or (a in Cd and a != "tag"))))

    @loop(0, index="q")
    def _():
        invariant(result.nodeType == 1 and result.tagName == Cd["tag"] and result.kids == LabelHintNodes(self, survey))
        invariant("ref" in result.attrs)
        invariant(implies(not exists(0, q, lambda r: keys(Cd)[r] == "ref"), result.attrs["ref"] == XPathOf(self)))
        invariant(forall(0, q, lambda r: keys(Cd)[r] == "tag" or (keys(Cd)[r] in result.attrs
                         and result.attrs[keys(Cd)[r]] == Subst(ctx_of(survey), Cd[keys(Cd)[r]], ctx_of(self)))))
        invariant(forall_str(lambda a: implies(a in result.attrs, a == "ref" or (a in Cd and a != "tag"))))


# ---------------------------------------------------------------- the control of a question row (C04 visibility, C10 nesting)

TrigMap = Dict[str, List[Item]]
SurveyT = Obj("Survey", name=str, _xpath=Opt[Dict[str, Opt[Elem]]], setvalues_by_triggering_ref=TrigMap,
              setgeopoint_by_triggering_ref=TrigMap)


@spec
def BuiltControl(q: QuestionK, survey: Ctx) -> Opt[XNode]:
    """The control element of the row before actions are nested (family contract of build_xml; None for types without
    a body control: hidden, metadata, background types)."""
    uninterpreted()


@contract("Question.build_xml")
def _(self: QuestionK, survey: SurveyT) -> Opt[XNode]:
    trusted("family contract of build_xml (input / upload / select / range / osm ... overrides; their common skeleton "
            "Question._build_xml is proved above); bounded: C04 e2e oracle and type-table facts")
    ensures(result == BuiltControl(self, ctx_of(survey)))
    may_raise(PyXFormError, when=True)


@contract("Survey.get_trigger_values_for_question_name", module="pyxform.survey")
def _(self: SurveyT, question_name: str, trigger_type: str) -> Opt[List[Item]]:
    properties("C10")
    no_native("needs a survey object")
    key = "${" + question_name + "}"
    ensures(implies(trigger_type == "setvalue", result == self.setvalues_by_triggering_ref.get(key)))
    ensures(implies(trigger_type == "setgeopoint", result == self.setgeopoint_by_triggering_ref.get(key)))
    ensures(implies(trigger_type != "setvalue" and trigger_type != "setgeopoint", result is None))


@contract("Question._validate_is_not_a_trigger")
def _(self: QuestionK, survey: SurveyT) -> None:
    properties("C10", "C17")
    no_native("needs survey-element objects")
    SV = survey.setvalues_by_triggering_ref.get("${" + self.name + "}")
    SG = survey.setgeopoint_by_triggering_ref.get("${" + self.name + "}")
    # a row without a body control that is named as a trigger is refused, naming both questions
    raises(PyXFormError, when=bool(SV) or bool(SG), message="${" + self.name + "}" in message)

    @loop(0, index="i")
    def _():
        invariant(i == 0)

    @loop(1, index="i")
    def _():
        invariant(i == 0)


@contract("Question.xml_control")
def _(self: QuestionK, survey: SurveyT) -> Opt[XNode]:
    properties("C04", "C10", "C02")
    no_native("needs survey-element objects: exercised through the e2e oracles and the runtime monitor")
    may_raise(PyXFormError, when=True)
    SV = survey.setvalues_by_triggering_ref.get("${" + self.name + "}")
    SG = survey.setgeopoint_by_triggering_ref.get("${" + self.name + "}")
    nsv = ite(bool(SV), len(some(SV)), 0)
    nsg = ite(bool(SG), len(some(SG)), 0)
    hidden = self.type == "calculate" or (((self.bind is not None and "calculate" in some(self.bind)) or bool(self.trigger))
                                          and not (bool(self.label) or bool(self.hint)))
    B = BuiltControl(self, ctx_of(survey))
    nocontrol = hidden or B is None
    nb = len(some(B).kids)
    # established by Survey.xml before the body is built: every triggered row is in the reference table
    requires(survey._xpath is not None)
    requires(implies(bool(SV), forall(0, len(some(SV)), lambda j: some(SV)[j][0] in some(survey._xpath))))
    requires(implies(bool(SG), forall(0, len(some(SG)), lambda j: some(SG)[j][0] in some(survey._xpath))))
    # C04: a calculation without label and hint, and a type without a body control, is not presented
    ensures((result is None) == nocontrol)
    # C10: ... and then no calculation may name it as its trigger (the action would be emitted nowhere)
    ensures(implies(nocontrol, not bool(SV) and not bool(SG)))
    # C10: the control keeps what build_xml produced and gains exactly one action per triggered row: first the
    # setvalue actions, then the setgeopoint actions, each in sheet order
    ensures(implies(not nocontrol, some(result).nodeType == some(B).nodeType and some(result).tagName == some(B).tagName
                    and same(some(result).attrs, some(B).attrs) and len(some(result).kids) == nb + nsv + nsg
                    and forall(0, nb, lambda j: some(result).kids[j] == some(B).kids[j])))
    ensures(implies(not nocontrol and bool(SV), forall(0, nsv, lambda j:
            SetNodeOk(some(result).kids[nb + j], survey, "setvalue", some(SV)[j]))))
    ensures(implies(not nocontrol and bool(SG), forall(0, nsg, lambda j:
            SetNodeOk(some(result).kids[nb + nsv + j], survey, "odk:setgeopoint", some(SG)[j]))))
