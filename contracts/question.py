# Sidecar contracts for pyxform/question.py  (C10 static defaults, C02 action/trigger refs, C04 controls)
MODULE = "pyxform.question"

XNode = Opaque("XNode")
Elem = Opaque("Elem")
Ctx = Opaque("Ctx")
StrMap = Dict[str, str]
BindVal = Union[str, StrMap]
LabelVal = Union[str, StrMap]
declare_class("Question", "pyxform.question.Question")

# a Question is a SurveyElement: the record has the element slots first (so that it is accepted where an element is)
QuestionK = Obj("Question", name=str, type=str, bind=Opt[Dict[str, BindVal]], flat=Opt[bool], trigger=Opt[str],
                default=Opt[str], label=Opt[LabelVal], hint=Opt[LabelVal], guidance_hint=Opt[LabelVal],
                media=Opt[Dict[str, LabelVal]], instance=Opt[StrMap], action=Opt[StrMap], control=Opt[StrMap])
ElemK = Obj("SurveyElement", name=str, type=str, bind=Opt[Dict[str, BindVal]], flat=Opt[bool], trigger=Opt[str],
            default=Opt[str], label=Opt[LabelVal], hint=Opt[LabelVal], guidance_hint=Opt[LabelVal],
            media=Opt[Dict[str, LabelVal]])
SurveyQ = Obj("Survey", name=str, _xpath=Opt[Dict[str, Opt[Elem]]])


@spec
def XPathOf(e: ElemK) -> str:
    uninterpreted()


@spec
def Subst(survey: Ctx, text: BindVal, ctx: Ctx) -> str:
    uninterpreted()


@spec
def IsDynamic(default: str, qtype: str) -> bool:
    uninterpreted()


@contract("Question.xml_instance")
def _(self: QuestionK, survey: SurveyQ, **kwargs: Dict[str, str]) -> XNode:
    properties("C10", "C04", "C02")
    no_native("needs survey-element objects: exercised through the e2e oracles")
    kwargs_shapes({}, {"append_template": bool})
    may_raise(PyXFormError, when=True)
    static = bool(self.default) and not IsDynamic(some(self.default), self.type)
    A = some(self.instance)
    ensures(result.nodeType == 1 and result.tagName == self.name)
    # C10: a static default is the literal content of the node (in the instance and, through the same method, in the
    # repeat template); a dynamic or absent default leaves the node empty
    ensures(implies(static, len(result.kids) == 1 and result.kids[0].nodeType == 3 and result.kids[0].data == some(self.default)))
    ensures(implies(not static, len(result.kids) == 0))
    # instance:: attributes of the row after reference substitution, nothing else
    ensures(implies(not bool(self.instance), len(keys(result.attrs)) == 0))
    ensures(implies(bool(self.instance), forall(0, len(keys(A)), lambda q: keys(A)[q] in result.attrs
                    and result.attrs[keys(A)[q]] == Subst(ctx_of(survey), A[keys(A)[q]], ctx_of(self)))))
    ensures(implies(bool(self.instance), forall_str(lambda a: implies(a in result.attrs, a in A))))

    @loop(0, index="q")
    def _():
        invariant(result.nodeType == 1 and result.tagName == self.name)
        invariant(implies(static, len(result.kids) == 1 and result.kids[0].nodeType == 3 and result.kids[0].data == some(self.default)))
        invariant(implies(not static, len(result.kids) == 0))
        invariant(forall(0, q, lambda r: keys(A)[r] in result.attrs
                         and result.attrs[keys(A)[r]] == Subst(ctx_of(survey), A[keys(A)[r]], ctx_of(self))))
        invariant(forall_str(lambda a: implies(a in result.attrs, a in A)))


@contract("Question.xml_action")
def _(self: QuestionK) -> Opt[XNode]:
    properties("C02")
    no_native("needs survey-element objects: exercised through the e2e oracles")
    Ac = some(self.action)
    requires(implies(bool(self.action), "name" in Ac and "ref" not in Ac))     # type-table invariant of action entries
    ensures((result is None) == (not bool(self.action)))
    # C02: a model-level action (setgeopoint, recordaudio) targets the question's own node
    ensures(implies(bool(self.action), some(result).tagName == Ac["name"] and len(some(result).kids) == 0
                    and keys(some(result).attrs)[0] == "ref" and some(result).attrs["ref"] == XPathOf(self)))
    ensures(implies(bool(self.action), forall(0, len(keys(Ac)), lambda q: keys(Ac)[q] == "name"
                    or (keys(Ac)[q] in some(result).attrs and some(result).attrs[keys(Ac)[q]] == Ac[keys(Ac)[q]]))))

    @loop(0, index="q")
    def _():
        invariant(result.tagName == Ac["name"] and len(result.kids) == 0 and result.nodeType == 1)
        invariant(keys(result.attrs)[0] == "ref" and result.attrs["ref"] == XPathOf(self) and len(keys(result.attrs)) >= 1)
        invariant(forall(0, q, lambda r: keys(Ac)[r] == "name"
                         or (keys(Ac)[r] in result.attrs and result.attrs[keys(Ac)[r]] == Ac[keys(Ac)[r]])))


Item = Tuple[str, Opt[str]]


@spec
def SetNodeOk(n: XNode, survey: SurveyQ, tag: str, item: Item) -> bool:
    """C10/C02: the action nested in the trigger's control — fired on value change, targeting the calculated question's
    node, its value the calculation resolved *from that node* (absent when the row has no calculation)."""
    tgt = some(survey._xpath)[item[0]]
    return (n.nodeType == 1 and n.tagName == tag and len(n.kids) == 0
            and n.attrs["ref"] == strip(Subst(ctx_of(survey), "${" + item[0] + "}", ctx_of(survey)))
            and n.attrs["event"] == "xforms-value-changed"
            and ("value" in n.attrs) == bool(item[1])
            and implies(bool(item[1]), n.attrs["value"] == Subst(ctx_of(survey), some(item[1]), ctx_of(tgt)))
            and len(keys(n.attrs)) == (3 if bool(item[1]) else 2))


@contract("Question.nest_set_nodes")
def _(self: QuestionK, survey: SurveyQ, xml_node: XNode, tag: str, nested_items: List[Item]) -> None:
    properties("C10", "C02")
    no_native("needs survey-element objects: exercised through the e2e oracles")
    may_raise(PyXFormError, when=True)
    modifies_fields(xml_node=("kids",))
    n0 = len(xml_node.kids)
    # every triggered row is a question of the form (established by Survey.xml before the body is built)
    requires(survey._xpath is not None)
    requires(forall(0, len(nested_items), lambda j: nested_items[j][0] in some(survey._xpath)))
    # the control keeps its children; one action per triggered row is appended, in order
    ensures(len(final_xml_node.kids) == n0 + len(nested_items))
    ensures(forall(0, n0, lambda j: final_xml_node.kids[j] == xml_node.kids[j]))
    ensures(forall(0, len(nested_items), lambda j: SetNodeOk(final_xml_node.kids[n0 + j], survey, tag, nested_items[j])))

    @loop(0, index="i")
    def _():
        invariant(xml_node.nodeType == old(xml_node).nodeType and xml_node.tagName == old(xml_node).tagName
                  and same(xml_node.attrs, old(xml_node).attrs) and xml_node.data == old(xml_node).data)
        invariant(len(xml_node.kids) == n0 + i)
        invariant(forall(0, n0, lambda j: xml_node.kids[j] == old(xml_node).kids[j]))
        invariant(forall(0, i, lambda j: SetNodeOk(xml_node.kids[n0 + j], survey, tag, nested_items[j])))


# ---------------------------------------------------------------- body control skeleton (C02 ref, C04 tag/attributes)

SurveyS = Obj("Survey", name=str)


@spec
def LabelNode(e: ElemK, survey: SurveyS) -> XNode:
    """The label element of a row (SurveyElement.xml_label, proved in contracts/survey_element.py)."""
    uninterpreted()


@spec
def HintNode(e: ElemK, survey: SurveyS) -> XNode:
    """The hint element of a row (SurveyElement.xml_hint, proved in contracts/survey_element.py)."""
    uninterpreted()


@spec
def LabelHintNodes(e: ElemK, survey: SurveyS) -> List[XNode]:
    """C04: a control starts with its label, followed by its hint when the row has a hint or a guidance hint
    (SurveyElement.xml_label_and_hint, proved in contracts/survey_element.py)."""
    if bool(e.hint) or bool(e.guidance_hint):
        return [LabelNode(e, survey), HintNode(e, survey)]
    return [LabelNode(e, survey)]


@contract("Question._build_xml")
def _(self: QuestionK, survey: SurveyQ) -> XNode:
    properties("C02", "C04")
    no_native("needs survey-element objects: exercised through the e2e oracles")
    may_raise(PyXFormError, when=True)
    Cd = some(self.control)
    requires(self.control is not None and "tag" in Cd)          # every type-table entry with a control has a tag
    ensures(result.nodeType == 1 and result.tagName == Cd["tag"])
    # C04: label and hint come first, nothing else is a child yet
    ensures(result.kids == LabelHintNodes(self, survey))
    # C02: the control's ref is the question's own path (an author-written body::ref column is an explicit override)
    ensures("ref" in result.attrs and implies("ref" not in Cd, result.attrs["ref"] == XPathOf(self)))
    # C04: appearance / parameter-derived attributes of the row, after reference substitution; `tag` is not an attribute
    ensures(forall(0, len(keys(Cd)), lambda q: keys(Cd)[q] == "tag" or (keys(Cd)[q] in result.attrs
            and result.attrs[keys(Cd)[q]] == Subst(ctx_of(survey), Cd[keys(Cd)[q]], ctx_of(self)))))
    ensures(forall_str(lambda a: implies(a in result.attrs, a == "ref" or (a in Cd and a != "tag"))))

    @loop(0, index="q")
    def _():
        invariant(result.nodeType == 1 and result.tagName == Cd["tag"] and result.kids == LabelHintNodes(self, survey))
        invariant("ref" in result.attrs)
        invariant(implies(not exists(0, q, lambda r: keys(Cd)[r] == "ref"), result.attrs["ref"] == XPathOf(self)))
        invariant(forall(0, q, lambda r: keys(Cd)[r] == "tag" or (keys(Cd)[r] in result.attrs
                         and result.attrs[keys(Cd)[r]] == Subst(ctx_of(survey), Cd[keys(Cd)[r]], ctx_of(self)))))
        invariant(forall_str(lambda a: implies(a in result.attrs, a == "ref" or (a in Cd and a != "tag"))))


# ---------------------------------------------------------------- the control of a question row (C04 visibility, C10 nesting)

TrigMap = Dict[str, List[Item]]
SurveyT = Obj("Survey", name=str, _xpath=Opt[Dict[str, Opt[Elem]]], setvalues_by_triggering_ref=TrigMap,
              setgeopoint_by_triggering_ref=TrigMap)


@spec
def BuiltControl(q: QuestionK, survey: Ctx) -> Opt[XNode]:
    """The control element of the row before actions are nested (family contract of build_xml; None for types without
    a body control: hidden, metadata, background types)."""
    uninterpreted()


@contract("Question.build_xml")
def _(self: QuestionK, survey: SurveyT) -> Opt[XNode]:
    trusted("family contract of build_xml (input / upload / select / range / osm ... overrides; their common skeleton "
            "Question._build_xml is proved above); bounded: C04 e2e oracle and type-table facts")
    ensures(result == BuiltControl(self, ctx_of(survey)))
    may_raise(PyXFormError, when=True)


@contract("Survey.get_trigger_values_for_question_name", module="pyxform.survey")
def _(self: SurveyT, question_name: str, trigger_type: str) -> Opt[List[Item]]:
    properties("C10")
    no_native("needs a survey object")
    key = "${" + question_name + "}"
    ensures(implies(trigger_type == "setvalue", result == self.setvalues_by_triggering_ref.get(key)))
    ensures(implies(trigger_type == "setgeopoint", result == self.setgeopoint_by_triggering_ref.get(key)))
    ensures(implies(trigger_type != "setvalue" and trigger_type != "setgeopoint", result is None))


@contract("Question._validate_is_not_a_trigger")
def _(self: QuestionK, survey: SurveyT) -> None:
    properties("C10", "C17")
    no_native("needs survey-element objects")
    SV = survey.setvalues_by_triggering_ref.get("${" + self.name + "}")
    SG = survey.setgeopoint_by_triggering_ref.get("${" + self.name + "}")
    # a row without a body control that is named as a trigger is refused, naming both questions
    raises(PyXFormError, when=bool(SV) or bool(SG), message="${" + self.name + "}" in message)

    @loop(0, index="i")
    def _():
        invariant(i == 0)

    @loop(1, index="i")
    def _():
        invariant(i == 0)


@contract("Question.xml_control")
def _(self: QuestionK, survey: SurveyT) -> Opt[XNode]:
    properties("C04", "C10", "C02")
    no_native("needs survey-element objects: exercised through the e2e oracles and the runtime monitor")
    may_raise(PyXFormError, when=True)
    SV = survey.setvalues_by_triggering_ref.get("${" + self.name + "}")
    SG = survey.setgeopoint_by_triggering_ref.get("${" + self.name + "}")
    nsv = ite(bool(SV), len(some(SV)), 0)
    nsg = ite(bool(SG), len(some(SG)), 0)
    hidden = self.type == "calculate" or (((self.bind is not None and "calculate" in some(self.bind)) or bool(self.trigger))
                                          and not (bool(self.label) or bool(self.hint)))
    B = BuiltControl(self, ctx_of(survey))
    nocontrol = hidden or B is None
    nb = len(some(B).kids)
    # established by Survey.xml before the body is built: every triggered row is in the reference table
    requires(survey._xpath is not None)
    requires(implies(bool(SV), forall(0, len(some(SV)), lambda j: some(SV)[j][0] in some(survey._xpath))))
    requires(implies(bool(SG), forall(0, len(some(SG)), lambda j: some(SG)[j][0] in some(survey._xpath))))
    # C04: a calculation without label and hint, and a type without a body control, is not presented
    ensures((result is None) == nocontrol)
    # C10: ... and then no calculation may name it as its trigger (the action would be emitted nowhere)
    ensures(implies(nocontrol, not bool(SV) and not bool(SG)))
    # C10: the control keeps what build_xml produced and gains exactly one action per triggered row: first the
    # setvalue actions, then the setgeopoint actions, each in sheet order
    ensures(implies(not nocontrol, some(result).nodeType == some(B).nodeType and some(result).tagName == some(B).tagName
                    and same(some(result).attrs, some(B).attrs) and len(some(result).kids) == nb + nsv + nsg
                    and forall(0, nb, lambda j: some(result).kids[j] == some(B).kids[j])))
    ensures(implies(not nocontrol and bool(SV), forall(0, nsv, lambda j:
            SetNodeOk(some(result).kids[nb + j], survey, "setvalue", some(SV)[j]))))
    ensures(implies(not nocontrol and bool(SG), forall(0, nsg, lambda j:
            SetNodeOk(some(result).kids[nb + nsv + j], survey, "odk:setgeopoint", some(SG)[j]))))


# ---------------------------------------------------------------- per-class controls (C04: element, attributes per type)

declare_class("InputQuestion", "pyxform.question.InputQuestion")
declare_class("TriggerQuestion", "pyxform.question.TriggerQuestion")
declare_class("UploadQuestion", "pyxform.question.UploadQuestion")
declare_class("RangeQuestion", "pyxform.question.RangeQuestion")
InputK = Obj("InputQuestion", name=str, type=str, bind=Opt[Dict[str, BindVal]], flat=Opt[bool], trigger=Opt[str],
             default=Opt[str], label=Opt[LabelVal], hint=Opt[LabelVal], guidance_hint=Opt[LabelVal],
             media=Opt[Dict[str, LabelVal]], instance=Opt[StrMap], action=Opt[StrMap], control=Opt[StrMap],
             query=Opt[str], choice_filter=Opt[str])
TriggerK = Obj("TriggerQuestion", name=str, type=str, bind=Opt[Dict[str, BindVal]], flat=Opt[bool], trigger=Opt[str],
               default=Opt[str], label=Opt[LabelVal], hint=Opt[LabelVal], guidance_hint=Opt[LabelVal],
               media=Opt[Dict[str, LabelVal]], instance=Opt[StrMap], action=Opt[StrMap], control=Opt[StrMap])
UploadK = Obj("UploadQuestion", name=str, type=str, bind=Opt[Dict[str, BindVal]], flat=Opt[bool], trigger=Opt[str],
              default=Opt[str], label=Opt[LabelVal], hint=Opt[LabelVal], guidance_hint=Opt[LabelVal],
              media=Opt[Dict[str, LabelVal]], instance=Opt[StrMap], action=Opt[StrMap], control=Opt[StrMap])
RangeK = Obj("RangeQuestion", name=str, type=str, bind=Opt[Dict[str, BindVal]], flat=Opt[bool], trigger=Opt[str],
             default=Opt[str], label=Opt[LabelVal], hint=Opt[LabelVal], guidance_hint=Opt[LabelVal],
             media=Opt[Dict[str, LabelVal]], instance=Opt[StrMap], action=Opt[StrMap], control=Opt[StrMap],
             parameters=Opt[StrMap])


@spec
def SubstF(survey: Ctx, text: BindVal, ctx: Ctx, use_current: bool, reference_parent: bool) -> str:
    uninterpreted()


@contract("TriggerQuestion.build_xml")
def _(self: TriggerK, survey: SurveyQ) -> XNode:
    properties("C04", "C02")
    no_native("needs survey-element objects: exercised through the e2e oracles and the runtime monitor")
    may_raise(PyXFormError, when=True)
    Cd = some(self.control)
    requires(self.control is not None and "tag" in Cd)
    # C04: an acknowledge / note-like control is exactly the common skeleton: element from the type table, label and
    # hint, ref = own path, the row's body attributes
    ensures(result.nodeType == 1 and result.tagName == Cd["tag"] and result.kids == LabelHintNodes(self, survey))
    ensures("ref" in result.attrs and implies("ref" not in Cd, result.attrs["ref"] == XPathOf(self)))
    ensures(forall(0, len(keys(Cd)), lambda q: keys(Cd)[q] == "tag" or (keys(Cd)[q] in result.attrs
            and result.attrs[keys(Cd)[q]] == Subst(ctx_of(survey), Cd[keys(Cd)[q]], ctx_of(self)))))
    ensures(forall_str(lambda a: implies(a in result.attrs, a == "ref" or (a in Cd and a != "tag"))))


@contract("UploadQuestion.build_xml")
def _(self: UploadK, survey: SurveyQ) -> XNode:
    properties("C04", "C02")
    no_native("needs survey-element objects: exercised through the e2e oracles and the runtime monitor")
    may_raise(PyXFormError, when=True)
    Cd = some(self.control)
    requires(self.control is not None and "tag" in Cd)
    # C04: a media upload control is exactly the common skeleton (the media type is one of the row's body attributes)
    ensures(result.nodeType == 1 and result.tagName == Cd["tag"] and result.kids == LabelHintNodes(self, survey))
    ensures("ref" in result.attrs and implies("ref" not in Cd, result.attrs["ref"] == XPathOf(self)))
    ensures(forall(0, len(keys(Cd)), lambda q: keys(Cd)[q] == "tag" or (keys(Cd)[q] in result.attrs
            and result.attrs[keys(Cd)[q]] == Subst(ctx_of(survey), Cd[keys(Cd)[q]], ctx_of(self)))))
    ensures(forall_str(lambda a: implies(a in result.attrs, a == "ref" or (a in Cd and a != "tag"))))


@contract("RangeQuestion.build_xml")
def _(self: RangeK, survey: SurveyQ) -> XNode:
    properties("C04", "C02")
    no_native("needs survey-element objects: exercised through the e2e oracles and the runtime monitor")
    may_raise(PyXFormError, when=True)
    Cd = some(self.control)
    P = some(self.parameters)
    hasP = bool(self.parameters)
    requires(self.control is not None and "tag" in Cd)
    ensures(result.nodeType == 1 and result.tagName == Cd["tag"] and result.kids == LabelHintNodes(self, survey))
    # C04: the range control carries its parameters (start / end / step as validated upstream) verbatim as attributes ...
    ensures(implies(hasP, forall(0, len(keys(P)), lambda r: keys(P)[r] in result.attrs
                                 and result.attrs[keys(P)[r]] == P[keys(P)[r]])))
    # ... next to the skeleton's ref and body attributes, and nothing else
    ensures("ref" in result.attrs and implies("ref" not in Cd and not (hasP and "ref" in P),
                                               result.attrs["ref"] == XPathOf(self)))
    ensures(forall(0, len(keys(Cd)), lambda q: keys(Cd)[q] == "tag" or (keys(Cd)[q] in result.attrs
            and implies(not (hasP and keys(Cd)[q] in P),
                        result.attrs[keys(Cd)[q]] == Subst(ctx_of(survey), Cd[keys(Cd)[q]], ctx_of(self))))))
    ensures(forall_str(lambda a: implies(a in result.attrs, a == "ref" or (a in Cd and a != "tag") or (hasP and a in P))))

    @loop(0, index="j")
    def _():
        invariant(result.nodeType == 1 and result.tagName == Cd["tag"] and result.kids == LabelHintNodes(self, survey))
        invariant(forall(0, j, lambda r: keys(P)[r] in result.attrs and result.attrs[keys(P)[r]] == P[keys(P)[r]]))
        invariant("ref" in result.attrs and implies("ref" not in Cd and "ref" not in P, result.attrs["ref"] == XPathOf(self)))
        invariant(forall(0, len(keys(Cd)), lambda q: keys(Cd)[q] == "tag" or (keys(Cd)[q] in result.attrs
                  and implies(keys(Cd)[q] not in P,
                              result.attrs[keys(Cd)[q]] == Subst(ctx_of(survey), Cd[keys(Cd)[q]], ctx_of(self))))))
        invariant(forall_str(lambda a: implies(a in result.attrs, a == "ref" or (a in Cd and a != "tag") or a in P)))


@contract("InputQuestion.build_xml")
def _(self: InputK, survey: SurveyQ) -> XNode:
    properties("C04", "C02", "C09", "C03")
    no_native("needs survey-element objects: exercised through the e2e oracles and the runtime monitor")
    may_raise(PyXFormError, when=True)
    Cd = some(self.control)
    requires(self.control is not None and "tag" in Cd)
    ensures(result.nodeType == 1 and result.tagName == Cd["tag"] and result.kids == LabelHintNodes(self, survey))
    # C09: a select_one_external row reads its choices from the external instance named in its type cell, filtered by
    # exactly its own choice_filter (references resolved with current()); other input rows carry no query
    ensures(implies(bool(self.query), "query" in result.attrs))
    ensures(implies(bool(self.query) and not bool(self.choice_filter),
                    result.attrs["query"] == "instance('" + some(self.query) + "')/root/item"))
    ensures(implies(bool(self.query) and bool(self.choice_filter),
                    result.attrs["query"] == "instance('" + some(self.query) + "')/root/item["
                    + SubstF(ctx_of(survey), some(self.choice_filter), ctx_of(self), True, False) + "]"))
    ensures("ref" in result.attrs and implies("ref" not in Cd, result.attrs["ref"] == XPathOf(self)))
    ensures(forall(0, len(keys(Cd)), lambda q: keys(Cd)[q] == "tag" or (keys(Cd)[q] in result.attrs
            and implies(not (bool(self.query) and keys(Cd)[q] == "query"),
                        result.attrs[keys(Cd)[q]] == Subst(ctx_of(survey), Cd[keys(Cd)[q]], ctx_of(self))))))
    ensures(forall_str(lambda a: implies(a in result.attrs, a == "ref" or (a in Cd and a != "tag")
                                         or (a == "query" and bool(self.query)))))


# ---------------------------------------------------------------- select controls: itemset wiring (C09)

declare_class("MultipleChoiceQuestion", "pyxform.question.MultipleChoiceQuestion")
OptRefK = Obj("Option", name=str, type=str, bind=Opt[Dict[str, BindVal]], flat=Opt[bool], trigger=Opt[str],
              default=Opt[str], label=Opt[LabelVal], hint=Opt[LabelVal], guidance_hint=Opt[LabelVal],
              media=Opt[Dict[str, LabelVal]], _choice_itext_ref=Opt[str])
ItemsetQ = Obj("Itemset", name=str, options=List[OptRefK], requires_itext=bool, used_by_search=bool)
SelectK = Obj("MultipleChoiceQuestion", name=str, type=str, bind=Opt[Dict[str, BindVal]], flat=Opt[bool], trigger=Opt[str],
              default=Opt[str], label=Opt[LabelVal], hint=Opt[LabelVal], guidance_hint=Opt[LabelVal],
              media=Opt[Dict[str, LabelVal]], instance=Opt[StrMap], action=Opt[StrMap], control=Opt[StrMap],
              itemset=Opt[str], choices=Opt[ItemsetQ], choice_filter=Opt[str], parameters=Opt[StrMap])
SurveyC = Obj("Survey", name=str, _xpath=Opt[Dict[str, Opt[Elem]]], choices=Opt[Dict[str, ItemsetQ]])


@spec
def SplitExt(p: str) -> Tuple[str, str]:
    """os.path.splitext(p) (assumed contract in contracts/survey.py)."""
    uninterpreted()


@spec
def ItemsetNodeOk(n: XNode, nodeset: str, vref: str, lref: str) -> bool:
    """<itemset nodeset=...><value ref=.../><label ref=.../></itemset> and nothing else."""
    inline()
    return (n.nodeType == 1 and n.tagName == "itemset" and len(keys(n.attrs)) == 1 and n.attrs["nodeset"] == nodeset
            and len(n.kids) == 2
            and n.kids[0].tagName == "value" and len(n.kids[0].kids) == 0 and len(keys(n.kids[0].attrs)) == 1
            and n.kids[0].attrs["ref"] == vref
            and n.kids[1].tagName == "label" and len(n.kids[1].kids) == 0 and len(keys(n.kids[1].attrs)) == 1
            and n.kids[1].attrs["ref"] == lref)


@contract("MultipleChoiceQuestion.build_xml")
def _(self: SelectK, survey: SurveyC) -> XNode:
    properties("C09")
    no_native("needs survey-element objects: exercised through the e2e oracles and the runtime monitor")
    abstract_regex("pyxform.utils.PYXFORM_REFERENCE_REGEX")
    may_raise(PyXFormError, when=True)
    Cd = some(self.control)
    B = some(self.bind)
    P = some(self.parameters)
    it = some(self.itemset)
    ext = SplitExt(it)[1]
    root = SplitExt(it)[0]
    external = ext == ".csv" or ext == ".xml" or ext == ".geojson"
    from_repeat = matches(it, "pyxform.utils.PYXFORM_REFERENCE_REGEX", "search")
    hasP = self.parameters is not None
    own = some(self.choices)
    shared = some(survey.choices)
    # the list as this select sees it: its own copy, else the survey-level list of that name
    needs_itext = ((self.choices is not None and own.requires_itext)
                   or (self.choices is None and bool(survey.choices) and it in shared and shared[it].requires_itext))
    vref0 = "id" if ext == ".geojson" else "name"
    lref0 = "title" if ext == ".geojson" else "label"
    vref = P["value"] if (hasP and "value" in P) else vref0
    lrefp = P["label"] if (hasP and "label" in P) else lref0
    lref = "jr:itext(itextId)" if (not external and needs_itext) else lrefp
    cf = SubstF(ctx_of(survey), some(self.choice_filter), ctx_of(self), True, False)
    base = "instance('" + (root if external else it) + "')/root/item"
    filtered = base + "[" + cf + "]" if (bool(self.choice_filter) and bool(cf)) else base
    rnd = bool(self.parameters) and "randomize" in P and P["randomize"] == "true"
    seeded = rnd and "seed" in P
    seed = strip(Subst(ctx_of(survey), P["seed"], ctx_of(self))) if P["seed"].startswith("${") else P["seed"]
    nodeset = ("randomize(" + filtered + (", " + seed if seeded else "") + ")") if rnd else filtered
    nb = len(LabelHintNodes(self, survey))
    requires(self.control is not None and "tag" in Cd)
    requires(self.bind is not None and "type" in B)
    # established by Survey._redirect_is_search_itext before the body is built: the items of a search() list shown
    # through itext carry their itext reference
    requires(implies(self.choices is not None and own.used_by_search and own.requires_itext,
                     forall(0, len(own.options), lambda k: own.options[k]._choice_itext_ref is not None)))
    # the skeleton (element, label/hint, ref, body attributes) is kept
    ensures(result.nodeType == 1 and result.tagName == Cd["tag"])
    ensures(len(result.kids) >= nb and forall(0, nb, lambda j: result.kids[j] == LabelHintNodes(self, survey)[j]))
    ensures("ref" in result.attrs and implies("ref" not in Cd, result.attrs["ref"] == XPathOf(self)))
    # C09: a select on a choice list or an external file (not a select from a repeat) gets exactly one itemset: it reads
    # from the instance of the list / file named in its type cell, applies exactly its own choice_filter and
    # randomize/seed, and takes value and label from its own parameters, the file kind's defaults, or the item's itext id
    ensures(implies(bool(self.itemset) and not from_repeat, len(result.kids) == nb + 1
                    and ItemsetNodeOk(result.kids[nb], nodeset, vref, lref)))
    # a select without a list name of its own and not consumed by search() has no items at all
    ensures(implies(not bool(self.itemset) and not (self.choices is not None and own.used_by_search), len(result.kids) == nb))
    # a list consumed by search() is rendered as one inline item per choice, in order
    ensures(implies(not bool(self.itemset) and self.choices is not None and own.used_by_search,
                    len(result.kids) == nb + len(own.options)
                    and forall(0, len(own.options), lambda k: result.kids[nb + k].tagName == "item"
                               and len(result.kids[nb + k].kids) == 2 and result.kids[nb + k].kids[0].tagName == "label"
                               and IsTextElem(result.kids[nb + k].kids[1], "value", own.options[k].name))))

    @loop(0, index="i")
    def _():
        invariant(result.nodeType == 1 and result.tagName == Cd["tag"])
        invariant("ref" in result.attrs and implies("ref" not in Cd, result.attrs["ref"] == XPathOf(self)))
        invariant(len(result.kids) == nb + i and forall(0, nb, lambda j: result.kids[j] == LabelHintNodes(self, survey)[j]))
        invariant(forall(0, i, lambda k: result.kids[nb + k].tagName == "item"
                         and len(result.kids[nb + k].kids) == 2 and result.kids[nb + k].kids[0].tagName == "label"
                         and IsTextElem(result.kids[nb + k].kids[1], "value", own.options[k].name)))


@spec
def IsTextElem(n: XNode, tag: str, text: str) -> bool:
    """An element without attributes holding exactly one text node."""
    return (n.nodeType == 1 and n.tagName == tag and len(keys(n.attrs)) == 0 and len(n.kids) == 1
            and n.kids[0].nodeType == 3 and n.kids[0].data == text)


# ---------------------------------------------------------------- osm control (C04)

declare_class("Tag", "pyxform.question.Tag")
declare_class("OsmUploadQuestion", "pyxform.question.OsmUploadQuestion")
TagRef = Opaque("TagRef")
TagK = Obj("Tag", name=str, type=str, bind=Opt[Dict[str, BindVal]], flat=Opt[bool], trigger=Opt[str],
           default=Opt[str], label=Opt[LabelVal], hint=Opt[LabelVal], guidance_hint=Opt[LabelVal],
           media=Opt[Dict[str, LabelVal]])
OsmK = Obj("OsmUploadQuestion", name=str, type=str, bind=Opt[Dict[str, BindVal]], flat=Opt[bool], trigger=Opt[str],
           default=Opt[str], label=Opt[LabelVal], hint=Opt[LabelVal], guidance_hint=Opt[LabelVal],
           media=Opt[Dict[str, LabelVal]], instance=Opt[StrMap], action=Opt[StrMap], control=Opt[StrMap],
           children=Opt[List[TagRef]])


@spec
def TagXml(t: TagRef) -> XNode:
    """The <tag> element of one osm tag (Tag.xml, proved below on its record view)."""
    uninterpreted()


@contract("TagRef.xml")
def _(self: TagRef, survey: SurveyQ) -> XNode:
    trusted("family view of Tag.xml on an element reference (proved on its record view)")
    ensures(result == TagXml(self))
    may_raise(PyXFormError, when=True)


@contract("Tag.xml")
def _(self: TagK, survey: SurveyQ) -> XNode:
    properties("C04")
    no_native("needs survey-element objects: exercised through the e2e oracles and the runtime monitor")
    may_raise(PyXFormError, when=True)
    # C04: an osm tag is presented as <tag key=name> holding its label element, nothing else
    ensures(result.nodeType == 1 and result.tagName == "tag" and len(keys(result.attrs)) == 1
            and result.attrs["key"] == self.name)
    ensures(len(result.kids) == 1 and result.kids[0] == LabelNode(self, survey))


@contract("OsmUploadQuestion.build_xml")
def _(self: OsmK, survey: SurveyQ) -> XNode:
    properties("C04")
    no_native("needs survey-element objects: exercised through the e2e oracles and the runtime monitor")
    may_raise(PyXFormError, when=True)
    Cd = some(self.control)
    T = some(self.children)
    nb = len(LabelHintNodes(self, survey))
    nt = ite(bool(self.children), len(T), 0)
    requires(self.control is not None and "tag" in Cd)
    # C04: the osm control is the common skeleton followed by one <tag> per row of its osm list, in sheet order
    ensures(result.nodeType == 1 and result.tagName == Cd["tag"])
    ensures("ref" in result.attrs and implies("ref" not in Cd, result.attrs["ref"] == XPathOf(self)))
    ensures(len(result.kids) == nb + nt and forall(0, nb, lambda j: result.kids[j] == LabelHintNodes(self, survey)[j]))
    ensures(implies(bool(self.children), forall(0, len(T), lambda k: result.kids[nb + k] == TagXml(T[k]))))

    @loop(0, index="i")
    def _():
        invariant(result.nodeType == 1 and result.tagName == Cd["tag"])
        invariant("ref" in result.attrs and implies("ref" not in Cd, result.attrs["ref"] == XPathOf(self)))
        invariant(len(result.kids) == nb + i and forall(0, nb, lambda j: result.kids[j] == LabelHintNodes(self, survey)[j]))
        invariant(forall(0, i, lambda k: result.kids[nb + k] == TagXml(T[k])))
