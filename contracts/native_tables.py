"""Table obligations: finite ground facts about pyxform's real tables and compiled regexes, decided by exhaustive
evaluation on every run (kind `table`).  Each fact comes from a property statement; the documented spellings are
written down here (from the statements / the XLSForm column and type catalogue), the repository's tables and regexes
are what is checked *against* them.  TABLES = {property: [function() -> list of (fact id, holds, detail)]}."""
import importlib


def _m(name):
    return importlib.import_module(name)


# ---- documented catalogue (C13 statement: "column aliases such as relevance/relevant, calculate/calculation,
# caption/label, image/media::image, list name/list_name, form_id/id_string; question-type aliases such as
# select_one/select one/select1, int/integer, begin group/begin_group, image/photo; yes/true()/TRUE truth values")
SURVEY_COLUMN_ALIASES = {          # alias spelling -> canonical token path
    "relevance": ("bind", "relevant"), "relevant": ("bind", "relevant"),
    "calculate": ("bind", "calculate"), "calculation": ("bind", "calculate"),
    "read_only": ("bind", "readonly"), "readonly": ("bind", "readonly"),
    "required": ("bind", "required"), "constraint": ("bind", "constraint"),
    "constraint_message": ("bind", "jr:constraintMsg"), "required_message": ("bind", "jr:requiredMsg"),
    "caption": "label", "image": ("media", "image"), "audio": ("media", "audio"), "video": ("media", "video"),
    "big-image": ("media", "big-image"), "appearance": ("control", "appearance"),
    "repeat_count": ("control", "jr:count"), "count": ("control", "jr:count"),
}
CHOICES_COLUMN_ALIASES = {"caption": "label", "list_name": "list name", "value": "name",
                          "image": ("media", "image"), "audio": ("media", "audio"), "video": ("media", "video")}
SETTINGS_COLUMN_ALIASES = {"form_title": "title", "form_id": "id_string"}
SELECT_SPELLINGS = {"select_one": "select one", "select one": "select one", "select1": "select one",
                    "select_multiple": "select all that apply", "select all that apply": "select all that apply",
                    "rank": "rank"}
CONTROL_SPELLINGS = {"group": "group", "repeat": "repeat"}
TYPE_ALIASES = [("int", "integer"), ("image", "photo"), ("select_one", "select one"), ("select1", "select one")]
TRUE_SPELLINGS = ["yes", "Yes", "YES", "true", "True", "TRUE", "true()"]
FALSE_SPELLINGS = ["no", "No", "NO", "false", "False", "FALSE", "false()"]


def c13_column_aliases():
    al = _m("pyxform.aliases")
    out = []
    for table, doc in (("survey_header", SURVEY_COLUMN_ALIASES), ("list_header", CHOICES_COLUMN_ALIASES),
                       ("settings_header", SETTINGS_COLUMN_ALIASES)):
        real = getattr(al, table)
        for alias, canon in doc.items():
            got = real.get(alias, alias)   # a header that is not in the table stands for itself
            want = canon
            if isinstance(canon, str) and alias == canon:
                want = alias
            out.append((f"aliases.{table}[{alias!r}]", got == want, f"maps to {got!r}, documented {want!r}"))
    return out


def c13_type_keywords():
    al, x = _m("pyxform.aliases"), _m("pyxform.xls2json")
    out = []
    for sp, canon in SELECT_SPELLINGS.items():
        out.append((f"aliases.select[{sp!r}]", al.select.get(sp) == canon, f"{al.select.get(sp)!r} vs {canon!r}"))
        for text in (f"{sp} colours", f"{sp} colours or_other"):
            m = x.RE_SELECT.search(text)
            ok = bool(m) and m.groupdict().get("select_command") == sp and m.groupdict().get("list_name") == "colours"
            out.append((f"RE_SELECT accepts {text!r}", ok, str(m.groupdict() if m else None)))
    for sp, canon in CONTROL_SPELLINGS.items():
        out.append((f"aliases.control[{sp!r}]", al.control.get(sp) == canon, repr(al.control.get(sp))))
        for sep in (" ", "_"):
            b, e = f"begin{sep}{sp}", f"end{sep}{sp}"
            mb, me = x.RE_BEGIN_CONTROL.search(b), x.RE_END_CONTROL.search(e)
            out.append((f"RE_BEGIN_CONTROL accepts {b!r}", bool(mb) and mb.groupdict().get("type") == sp, str(mb)))
            out.append((f"RE_END_CONTROL accepts {e!r}", bool(me) and me.groupdict().get("type") == sp, str(me)))
    return out


def c13_type_aliases():
    """An alias and its canonical type give the same type-table entry (control, bind)."""
    qtd = _m("pyxform.question_type_dictionary").QUESTION_TYPE_DICT
    tam = _m("pyxform.aliases")._type_alias_map
    out = []
    for a, b in [("int", "integer")]:
        out.append((f"QUESTION_TYPE_DICT[{a!r}] == [{b!r}]", a in qtd and b in qtd and qtd[a] == qtd[b], ""))
    for a, b in [("image", "photo")]:
        out.append((f"_type_alias_map[{a!r}] == {b!r}", tam.get(a) == b and b in qtd, repr(tam.get(a))))
    return out


def c13_truth_values():
    al = _m("pyxform.aliases")
    out = []
    for s in TRUE_SPELLINGS:
        out.append((f"yes_no[{s!r}] is True", al.yes_no.get(s) is True, repr(al.yes_no.get(s))))
        if s != "true()":
            out.append((f"BINDING_CONVERSIONS[{s!r}]", al.BINDING_CONVERSIONS.get(s) == "true()", repr(al.BINDING_CONVERSIONS.get(s))))
    for s in FALSE_SPELLINGS:
        out.append((f"yes_no[{s!r}] is False", al.yes_no.get(s) is False, repr(al.yes_no.get(s))))
        if s != "false()":
            out.append((f"BINDING_CONVERSIONS[{s!r}]", al.BINDING_CONVERSIONS.get(s) == "false()", repr(al.BINDING_CONVERSIONS.get(s))))
    return out


def c13_sheet_names():
    c = _m("pyxform.constants")
    want = {"survey", "choices", "settings", "external_choices", "entities", "osm"}
    return [("SUPPORTED_SHEET_NAMES are the documented lower-case names", set(c.SUPPORTED_SHEET_NAMES) == want, repr(sorted(c.SUPPORTED_SHEET_NAMES)))]


# ---- C04 / C05: the type table prescribes control tag and bind type (spot facts from the XLSForm type catalogue)
TYPE_CATALOGUE = {   # type -> (control tag or None, bind type)
    "text": ("input", "string"), "integer": ("input", "int"), "decimal": ("input", "decimal"), "date": ("input", "date"),
    "time": ("input", "time"), "dateTime": ("input", "dateTime"), "geopoint": ("input", "geopoint"),
    "geotrace": ("input", "geotrace"), "geoshape": ("input", "geoshape"), "barcode": ("input", "barcode"),
    "note": ("input", "string"), "calculate": (None, "string"), "photo": ("upload", "binary"), "audio": ("upload", "binary"),
    "video": ("upload", "binary"), "file": ("upload", "binary"), "select one": ("select1", "string"),
    "select all that apply": ("select", "string"), "rank": ("odk:rank", "odk:rank"), "range": ("range", "int"),
    "acknowledge": ("trigger", "string"), "hidden": (None, "string"),
}
PRELOADS = {"start": ("timestamp", "start"), "end": ("timestamp", "end"), "today": ("date", "today"),
            "deviceid": ("property", "deviceid"), "username": ("property", "username"), "email": ("property", "email"),
            "phonenumber": ("property", "phonenumber")}


def c05_type_table():
    qtd = _m("pyxform.question_type_dictionary").QUESTION_TYPE_DICT
    out = []
    for t, (tag, btype) in TYPE_CATALOGUE.items():
        e = qtd.get(t)
        got_tag = (e or {}).get("control", {}).get("tag") if e else None
        got_bt = (e or {}).get("bind", {}).get("type") if e else None
        out.append((f"QUESTION_TYPE_DICT[{t!r}] control tag", e is not None and got_tag == tag, f"{got_tag!r} vs {tag!r}"))
        out.append((f"QUESTION_TYPE_DICT[{t!r}] bind type", e is not None and got_bt == btype, f"{got_bt!r} vs {btype!r}"))
    for t, (pl, pp) in PRELOADS.items():
        b = (qtd.get(t) or {}).get("bind", {})
        out.append((f"QUESTION_TYPE_DICT[{t!r}] preload", b.get("jr:preload") == pl and b.get("jr:preloadParams") == pp,
                    f"{b.get('jr:preload')!r}/{b.get('jr:preloadParams')!r}"))
    return out


def c01_namespace_table():
    c = _m("pyxform.constants")
    want = {"xmlns": "http://www.w3.org/2002/xforms", "xmlns:h": "http://www.w3.org/1999/xhtml",
            "xmlns:ev": "http://www.w3.org/2001/xml-events", "xmlns:xsd": "http://www.w3.org/2001/XMLSchema",
            "xmlns:jr": "http://openrosa.org/javarosa", "xmlns:orx": "http://openrosa.org/xforms",
            "xmlns:odk": "http://www.opendatakit.org/xforms"}
    return [(f"NSMAP[{k!r}]", c.NSMAP.get(k) == v, repr(c.NSMAP.get(k))) for k, v in want.items()] + \
           [("NSMAP declares nothing else", set(c.NSMAP) == set(want), repr(sorted(c.NSMAP)))]


TABLES = {
    "C13": [c13_column_aliases, c13_type_keywords, c13_type_aliases, c13_truth_values, c13_sheet_names],
    "C05": [c05_type_table, c13_truth_values],
    "C04": [c05_type_table, c13_type_keywords],
    "C01": [c01_namespace_table],
    "C11": [c13_column_aliases],
}
