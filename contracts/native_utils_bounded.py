"""Native helpers for contracts/utils_bounded.py: executable spec functions and small-scope generators (bounded stand-in).

Spec helpers (prefix UB_) are written from the property statements C09/C10, independently of the code under test (own regular
expressions, the csv module as parser) — pyxform's lexer is never consulted for an expectation.
"""
import csv
import io
import itertools
import re
import types


# ------------------------------------------------------------------------------------------------ default_is_dynamic (C10)

def IsDynamic(default, qtype):
    """Native reading of the prover's *uninterpreted* symbol IsDynamic (contracts/survey_element.py): a NAME for the value of
    default_is_dynamic, through which callers' contracts refer to it.  It carries no expectation (the expectations are the
    UB_default_expected clauses); natively the linking clause `result == IsDynamic(..)` only checks that the classification is
    a function of its two arguments (same answer when asked again)."""
    import importlib

    return importlib.import_module("pyxform.utils").default_is_dynamic(default, qtype)


UB_DATE_LIKE = ("date", "dateTime", "geopoint", "geotrace", "geoshape")
_UB_NUM = r"-?\d+(?:\.\d+)?"
_UB_DATE = r"\d{4}-\d{2}-\d{2}"
_UB_TIME = r"\d{2}:\d{2}:\d{2}(?:\.\d+)?(?:Z|[+-]\d{2}:\d{2})?"
_UB_WORD = r"[A-Za-z_][A-Za-z0-9_]*(?:-[A-Za-z_][A-Za-z0-9_]*)*"
_UB_RESERVED = {"div", "mod", "and", "or"}
_UB_LITERAL = re.compile(rf"(?:{_UB_DATE}T{_UB_TIME}|{_UB_DATE}|{_UB_TIME}|{_UB_NUM}|{_UB_WORD})")
# what makes a text an expression: a ${reference}, a function call, an arithmetic / union operator other than '-'
_UB_MARKER = re.compile(r"\$\{(?:last-saved#)?[A-Za-z_][A-Za-z0-9_-]*\}|[A-Za-z_][A-Za-z0-9_.-]*\(|\+|\*| div | mod |\|")
_UB_NEG_OR_DATE = re.compile(rf"{_UB_DATE}|(?:^|(?<=[\s(,]))-\d+(?:\.\d+)?")


def UB_default_class(s):
    """C10 quantifier: "default text over literals, dates, numbers, negative numbers, function calls, arithmetic, references".
    'static'  — one literal, or literals separated by single spaces / '; ' (plain words, numbers, negative numbers, ISO dates,
                times, date-times, geopoint / geotrace literals);
    'dynamic' — an expression whose first expression-making token (a ${reference}, a function call, + * div mod |) is not
                preceded by any '-' operator;
    'minus'   — arithmetic whose first operator is a spaced ' - ' between operands (5 - 2, a - ${b});
    None      — anything else: the statement does not decide (quoted strings, 5-2, 2-photo.jpg, +5, ...)."""
    if not isinstance(s, str) or s == "":
        return "static"
    if "'" in s or '"' in s or s != s.strip():
        return None
    items = re.split(r"; | ", s)
    if all(_UB_LITERAL.fullmatch(i) and i not in _UB_RESERVED for i in items):
        return "static"
    m = _UB_MARKER.search(s)
    prefix = s if m is None else s[:m.start()]
    rest = _UB_NEG_OR_DATE.sub("N", prefix)
    if "-" not in rest:
        return "dynamic" if m is not None else None
    # the first '-' operator: arithmetic when it stands, spaced, between two operands
    i = rest.index("-")
    left, right = rest[:i], rest[i + 1:] + (s[m.start():] if m is not None else "")
    if (left.endswith(" ") and re.search(r"[A-Za-z0-9_)}]$", left[:-1]) and right.startswith(" ")
            and re.match(r"[A-Za-z0-9_$.-]", right[1:])):
        return "minus"
    return None


def UB_default_expected(s, qtype):
    """True / False where C10 decides, None where it does not.  C10: "A static default value appears as the literal content
    ...; a dynamic default (an expression) ... produces exactly one setvalue": literals are static for every question type,
    expressions are dynamic for every question type; the documented exception — a '-' in the default of a date / dateTime /
    geo question is not taken for arithmetic — leaves 'minus' expressions of those types undecided."""
    c = UB_default_class(s)
    if c == "static":
        return False
    if c == "dynamic":
        return True
    if c == "minus":
        return None if qtype in UB_DATE_LIKE else True
    return None


def UB_default_decided(s, qtype):
    return UB_default_expected(s, qtype) is not None


def UB_default_value(s, qtype):
    return UB_default_expected(s, qtype) is True


# ------------------------------------------------------------------------------------------------ external_choices_to_csv (C09)

def UB_csv_header(wb):
    """The header row of the external_choices sheet: as given, else (dict input) the row keys in order of first appearance."""
    h = getattr(wb, "external_choices_header", None)
    if h:
        return list(h[0])
    out = []
    for r in wb.external_choices or []:
        for k in r:
            if k not in out:
                out.append(k)
    return out


def UB_csv_expected(wb):
    """C09: "the itemsets CSV reproduces the external_choices sheet cell-for-cell under the right column headers": first the
    header row, then one record per sheet row, each cell under its own header, empty where the sheet cell is empty."""
    header = UB_csv_header(wb)
    return [header] + [[str(r.get(h, "")) for h in header] for r in wb.external_choices]


def UB_csv_parse(text):
    return list(csv.reader(io.StringIO(text, newline="")))


def UB_csv_all_cells_have_header(wb):
    header = UB_csv_header(wb)
    return all(k in header for r in wb.external_choices or [] for k in r)


# ------------------------------------------------------------------------------------------------ has_external_choices (C09)

def UB_uses_external_select(struct):
    """Some question anywhere in the form definition has a type cell 'select one external ...'."""
    stack = [struct]
    while stack:
        x = stack.pop()
        if isinstance(x, dict):
            t = x.get("type")
            if isinstance(t, str) and t[:len("select one external")] == "select one external":
                return True
            stack.extend(x.values())
        elif isinstance(x, list):
            stack.extend(x)
    return False


# ------------------------------------------------------------------------------------------------ generators

_UB_TYPES = [None, "text", "integer", "decimal", "date", "dateTime", "time", "geopoint", "geotrace", "geoshape", "image",
             "select one"]
_UB_OPERANDS = ["5", "-1", "3.14", "0", "2022-03-14", "${a}", "${last-saved#a}", "today()", "pow(2, 3)",
                "string-length(${a})", "abc", "my-name", "x_1"]
_UB_OPS = [" + ", "+", " - ", " * ", "*", " div ", " mod ", " | ", " "]
_UB_LITERALS = [
    "", None, 5, 1.5, True, ["today()"], {"a": 1},
    "hello world", "yes", "option_1", "model", "divide", "modern divide", "android", "order", "sandy", "div", "x mod", "-1.5 36.8 0 0", "1 2 0 0; 3 4 0 0", "10:30:00", "10:30:00Z",
    "2022-03-14T10:00:00", "2022-03-14T10:00:00Z", "2022-03-14T10:00:00-07:00", "2022-03-14T10:00:00.000-07:00",
    "2022-03-14T10:00:00+07:00", "2022-03-14T10:00:00.000Z",
    "today() - 7", "now() - 1", "${d0} - ${n}", "if(${n} - 1 > 0, 1, 2)", "${a}-1", "today()-7", "1 + 1", "uuid()",
    "once(today())", "../a + 1", "5-2", "2-photo.jpg", "'quoted - text'", "a-b", "a - b", "-5 - 3", "5 - -3",
]
# Known defect (reported): an ISO date-time / time literal with fractional seconds AND a positive zone offset is classified as
# an expression.  Generated last.
_UB_LATE = ["2022-03-14T10:00:00.000+07:00", "10:30:00.000+07:00"]


def _ub_dynamic_cases():
    seen = set()

    def emit(v):
        key = repr(v)
        if key in seen:
            return
        seen.add(key)
        for t in _UB_TYPES:
            yield {"element_default": v, "element_type": t}

    for v in _UB_LITERALS:
        yield from emit(v)
    for a in _UB_OPERANDS:
        yield from emit(a)
    for a, op, b in itertools.product(_UB_OPERANDS, _UB_OPS, _UB_OPERANDS):
        yield from emit(a + op + b)
    small = ["5", "-1", "2022-03-14", "${a}", "today()", "abc"]
    for a, o1, b, o2, c in itertools.product(small, [" + ", " - ", "*", " div ", " "], small, [" + ", " - ", "*", " mod ", " "], small):
        yield from emit(a + o1 + b + o2 + c)
    for v in _UB_LATE:
        yield from emit(v)


_UB_CELLS = ["a", "b,c", 'd"e', "f\ng", " ", "é", "1"]


def _ub_workbook(rows, header):
    return types.SimpleNamespace(external_choices=rows, external_choices_header=header)


def _ub_csv_cases():
    cols = ["list_name", "name", "label", "state, or \"province\""]
    for hdr_mode in ("given", "none", "empty"):
        for ncols in (1, 2, 3, 4):
            for order in ((0, 1, 2, 3), (3, 2, 1, 0), (1, 0, 3, 2)):
                hs = [cols[i] for i in order if i < ncols]
                # rows: every pattern of filled cells for row 0 x two fixed companions
                for mask in itertools.product((0, 1), repeat=len(hs)):
                    row0 = {h: _UB_CELLS[(i + sum(mask)) % len(_UB_CELLS)] for i, h in enumerate(hs) if mask[i]}
                    for extra in range(3):
                        rows = [row0]
                        if extra >= 1:
                            rows.append({h: _UB_CELLS[(i + 3) % len(_UB_CELLS)] for i, h in enumerate(reversed(hs))})
                        if extra >= 2:
                            rows.append({hs[-1]: "last only"})
                        rows = [dict(r) for r in rows]
                        if hdr_mode == "given":
                            wb = _ub_workbook(rows, [{h: None for h in hs}])
                        elif hdr_mode == "none":
                            wb = _ub_workbook(rows, None)
                        else:
                            wb = _ub_workbook(rows, [])
                        for w in (None, [], ["earlier warning"]):
                            yield {"workbook_dict": wb, "warnings": w}
    for rows in (None, []):
        for w in (None, [], ["earlier warning"]):
            yield {"workbook_dict": _ub_workbook(rows, [{"list_name": None}]), "warnings": w}
    # the real data class
    from pyxform.xls2json_backends import DefinitionData

    yield {"workbook_dict": DefinitionData(external_choices=[{"list_name": "c", "name": "n,1"}, {"name": "n2", "label": "L"}],
                                           external_choices_header=[{"list_name": None, "name": None, "label": None}]),
           "warnings": []}
    yield {"workbook_dict": DefinitionData(external_choices=[{"list_name": "c", "name": "n1"}, {"name": "n2", "label": "L"}]),
           "warnings": None}
    yield {"workbook_dict": DefinitionData(), "warnings": []}


def _ub_has_external_cases():
    types_ = ["text", "select one external", "select one external cities", "select one", "select one externa", 7, None,
              "Select one external"]
    leaves = [{"type": t, "name": "q"} for t in types_] + [{"name": "q", "itemset": "select one external"},
                                                            {"name": "select one external", "label": {"type": "x"}}]
    yield {"json_struct": None}
    yield {"json_struct": "select one external"}
    yield {"json_struct": []}
    yield {"json_struct": {}}
    yield {"json_struct": ["type", "select one external"]}
    for a in leaves:
        yield {"json_struct": a}
        yield {"json_struct": [a]}
        for b in leaves:
            yield {"json_struct": {"type": "survey", "name": "data", "children": [a, b]}}
            yield {"json_struct": {"type": "survey", "children": [{"type": "group", "name": "g", "children": [a]}, b]}}
            yield {"json_struct": {"type": "survey", "children": [{"type": "repeat", "name": "r", "children": [
                {"type": "group", "name": "g", "children": [b, {"label": {"English": "x"}, "bind": a}]}]}]}}
            yield {"json_struct": {"choices": {"l": [a]}, "children": [b], "type": "survey"}}


def _ub_escape_cases():
    """Markup characters, entity-like fragments (text that already looks escaped), CDATA end, quotes: every string of up
    to four tokens."""
    import itertools

    toks = ["&", "<", ">", ";", "amp", "lt", "gt", "quot", "#38", "a", "]]>", '"', "'", " "]
    seen = set()
    for n in range(0, 5):
        for combo in itertools.product(toks, repeat=n):
            t = "".join(combo)
            if t not in seen:
                seen.add(t)
                yield {"text": t}


EXHAUSTIVE = {
    "pyxform.utils.escape_text_for_xml": _ub_escape_cases,
    "pyxform.utils.default_is_dynamic": _ub_dynamic_cases,
    "pyxform.utils.external_choices_to_csv": _ub_csv_cases,
    "pyxform.utils.has_external_choices": _ub_has_external_cases,
}
