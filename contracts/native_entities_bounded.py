"""Native helpers for contracts/entities_bounded.py (C19 save_to validation): spec functions and generators."""
import itertools
import re
import sys

_ent_start = ("A-Z_a-z\\u00C0-\\u00D6\\u00D8-\\u00F6\\u00F8-\\u02FF\\u0370-\\u037D\\u037F-\\u1FFF\\u200C-\\u200D\\u2070-\\u218F"
              "\\u2C00-\\u2FEF\\u3001-\\uD7FF\\uF900-\\uFDCF\\uFDF0-\\uFFFD\\U00010000-\\U000EFFFF")
_ent_nc = re.compile(f"[{_ent_start}][{_ent_start}\\-.0-9\\u00B7\\u0300-\\u036F\\u203F-\\u2040]*")     # XML Namespaces 1.0 NCName
_ent_row = re.compile(r"\[row : (\d+)\]")


def ent_raised():
    """Exception raised by the function under test in the check in progress (None if it returned, or before the call).
    pyvc.native.NativeContract.check does not expose it to `when=` expressions; it is read from that frame."""
    f = sys._getframe(1)
    while f is not None:
        if f.f_code.co_name == "check" and "call_args" in f.f_locals and "self" in f.f_locals:
            return f.f_locals.get("exc")
        f = f.f_back
    return None


def ent_error_cites(rows):
    exc = ent_raised()
    return exc is None or [int(n) for n in _ent_row.findall(str(exc))] == list(rows)


def ent_error_shows(text):
    exc = ent_raised()
    return exc is None or ("'" + text + "'") in str(exc)


def ent_saveto(row):
    """The save_to cell of a survey row ('' when empty or absent); the column is stored as the bind attribute entities:saveto."""
    bind = row.get("bind")
    if not isinstance(bind, dict):
        return ""
    return bind.get("entities:saveto") or ""


def ent_opens_group_or_repeat(type_cell):
    """The row opens a group or a repeat: 'begin group', 'begin_repeat', ... (possibly followed by more words)."""
    for kind in ("group", "repeat", "lgroup", "looped group"):
        for sep in (" ", "_", "\t"):
            head = "begin" + sep + kind
            if type_cell == head or (type_cell.startswith(head) and type_cell[len(head)].isspace()):
                return True
    return False


def ent_valid_property_name(name):
    """Entity property names: XML names, not the reserved name/label (any case), not starting with the reserved '__'."""
    return name.lower() not in ("name", "label") and not name.startswith("__") and _ent_nc.fullmatch(name) is not None


# ------------------------------------------------------------------ generators

def _ent_saveto_cases():
    names = [None, "nobind", "", "a", "A1", "name", "Name", "LABEL", "label", "__a", "_a", "_", "1a", "a b", "a-b", "a.b", "é", "$", "names",
             "labels", "a__b", "-a", "a/b"]
    types = ["text", "begin group", "begin_group", "begin repeat", "begin_repeat", "begin lgroup", "begin looped group", "begin group field-list",
             "begin\tgroup", "select_one group", "select_one my_repeat", "select_multiple begin_group", "end group", "beginning", "begin_groups",
             "group", "repeat", "calculate", "begin repeats"]
    decls = [None, {}, {"name": "entity", "type": "entity", "parameters": {"dataset": "d"}}]
    for n, t, rep, d, rn in itertools.product(names, types, (False, True), decls, (2, 17)):
        row = {"type": t, "name": "q", "label": "Q"}
        if n == "nobind":
            row["bind"] = {"relevant": "1"}
        elif n is not None:
            row["bind"] = {"entities:saveto": n, "required": "yes"}
        yield {"row": row, "row_number": rn, "in_repeat": rep, "entity_declaration": d}


EXHAUSTIVE = {"pyxform.entities.entities_parsing.validate_entity_saveto": _ent_saveto_cases}
