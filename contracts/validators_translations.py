# Sidecar contracts for pyxform/validators/pyxform/translations_checks.py  (C20) — bounded native search only
MODULE = "pyxform.validators.pyxform.translations_checks"

Any = Opaque("Any")

# C20: "Each documented warning is emitted if and only if its trigger occurs in the workbook, and names the right subject:
# languages and translatable columns lacking a translation (survey and choices sheets), ... or_other combined with
# translations ..."


@contract("Translations.__init__")
def _(self: Any, sheet_data: Any, translatable_columns: Any) -> None:
    properties("C20")
    trusted("defaultdicts and sets filled from header tuples: outside the prover's subset — bounded native search only")
    exhaustive_only()
    # "languages and translatable columns lacking a translation": missing[L] is exactly the set of translatable columns
    # used on the sheet (in any language, the unsuffixed column counting as language 'default') that have no column for
    # L; nothing is missing when no language besides the default appears; a language lacking nothing is not listed
    ensures({k: sorted(v) for k, v in final_self.missing.items() if len(v) > 0} == vtr_missing(sheet_data, translatable_columns))
    ensures(all(len(v) == len(set(v)) for v in final_self.missing.values()))
    # the columns and languages seen are those of the sheet
    ensures(set(final_self.columns_seen) == {c for _, c in vtr_seen(sheet_data, translatable_columns)})
    ensures({k for k, v in final_self.seen.items() if len(v) > 0} == {l for l, _ in vtr_seen(sheet_data, translatable_columns)})


@contract("Translations.seen_default_only")
def _(self: Any) -> bool:
    properties("C20")
    trusted("object with a defaultdict field — bounded native search only")
    exhaustive_only()
    # "or_other combined with translations" / "lacking a translation": a sheet has translations exactly when some
    # translatable column carries a language other than the default
    ensures(result == all(lang == "default" for lang in self.seen))


@contract("SheetTranslations.__init__")
def _(self: Any, survey_sheet: Any, choices_sheet: Any) -> None:
    properties("C20")
    trusted("objects: outside the prover's subset — bounded native search only")
    exhaustive_only()
    # "(survey and choices sheets)": each sheet is checked on its own, against the translatable columns of XLSForm
    ensures({k: sorted(v) for k, v in final_self.survey.missing.items() if len(v) > 0} == vtr_missing(survey_sheet, VTR_SURVEY_COLUMNS))
    ensures({k: sorted(v) for k, v in final_self.choices.missing.items() if len(v) > 0} == vtr_missing(choices_sheet, VTR_CHOICES_COLUMNS))
    ensures(final_self.or_other_seen is False)


@contract("SheetTranslations.missing_check")
def _(self: Any, warnings: List[str]) -> List[str]:
    properties("C20")
    trusted("objects: outside the prover's subset — bounded native search only")
    exhaustive_only()
    # "emitted if and only if its trigger occurs": exactly one warning when some language lacks some column on either
    # sheet, none otherwise; earlier warnings are kept; the list handed in is the list returned
    ensures(result == final_warnings and final_warnings[: len(warnings)] == warnings)
    ensures(len(final_warnings) == len(warnings) + (1 if len(vtr_triples(vtr_missing_of(self))) > 0 else 0))
    # "and names the right subject": every (sheet, language, column) lacking a translation is named on a line of its own sheet/language
    ensures(implies(len(vtr_triples(vtr_missing_of(self))) > 0, vtr_message_names(final_warnings[-1], vtr_missing_of(self))))


@contract("SheetTranslations.or_other_check")
def _(self: Any, warnings: List[str]) -> List[str]:
    properties("C20")
    trusted("objects: outside the prover's subset — bounded native search only")
    exhaustive_only()
    # "or_other combined with translations": one warning iff an or_other select was seen and either sheet has a
    # translatable column in a language other than the default
    ensures(result == final_warnings and final_warnings[: len(warnings)] == warnings)
    ensures(len(final_warnings) == len(warnings) + (1 if self.or_other_seen and (vtr_translated(self.nc_survey_headers, VTR_SURVEY_COLUMNS)
                                                                                 or vtr_translated(self.nc_choices_headers, VTR_CHOICES_COLUMNS)) else 0))
    ensures(implies(len(final_warnings) > len(warnings), "or_other" in final_warnings[-1] and "translations" in final_warnings[-1]))


@contract("format_missing_translations_msg")
def _(_in: Any) -> Opt[str]:
    properties("C20")
    trusted("nested dicts and string formatting: outside the prover's subset — bounded native search only")
    exhaustive_only()
    # (the checks above never list a language that lacks nothing: missing[L] is created on the first lacking column)
    requires(all(len(cols) > 0 for sheet in _in.values() if sheet is not None for cols in sheet.values()))
    # a plain string where a sequence of columns is expected is refused with the library's own error
    raises(PyXFormError, when=any(isinstance(cols, str) for s in ("survey", "choices") if _in.get(s) is not None for cols in _in[s].values()))
    # "emitted if and only if its trigger occurs": no message when nothing is lacking
    ensures((result is None) == (len(vtr_triples(_in)) == 0))
    # "names the right subject": one line per (sheet, language), naming the sheet, the language and each column lacking
    ensures(implies(result is not None, vtr_message_names(result, _in)))
