# Sidecar contracts for pyxform/section.py  (C02, C17: sibling names unique ignoring case)
MODULE = "pyxform.section"

Elem = Opaque("Elem")
declare_fields("Elem", name=str, type=str)


@spec
def LowerInPrefix(ch: List[Elem], i: int, s: str) -> bool:
    """Some child among the first i has the lower-cased name s."""
    if i <= 0:
        return False
    if ch[i - 1].name.lower() == s:
        return True
    return LowerInPrefix(ch, i - 1, s)


@contract("Section._validate_uniqueness_of_element_names")
def _(self: Obj("Section", name=str, children=List[Elem])) -> None:
    properties("C02", "C17")
    no_native("needs survey-element objects: exercised through the e2e oracles")
    locals(element_slugs=Set[str])
    ch = self.children
    # rejected exactly when some child's lower-cased name already occurs among the children before it
    raises(PyXFormError, when=exists(0, len(ch), lambda i: LowerInPrefix(ch, i, ch[i].name.lower())),
           message=self.name in message and exists(0, len(ch), lambda i: LowerInPrefix(ch, i, ch[i].name.lower())
                                                   and ch[i].name.lower() in message))

    @loop(0, index="i")
    def _():
        invariant(forall_str(lambda s: (s in element_slugs) == LowerInPrefix(ch, i, s)))
        invariant(forall(0, i, lambda k: not LowerInPrefix(ch, k, ch[k].name.lower())))
        hint(LowerInPrefix(ch, i + 1, ch[i].name.lower()) or True)
