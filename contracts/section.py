# Sidecar contracts for pyxform/section.py  (C02, C17: sibling names unique ignoring case)
MODULE = "pyxform.section"

Elem = Opaque("Elem")
XNode = Opaque("XNode")
S2 = Obj("SurveyS2", name=str)
declare_fields("Elem", name=str, type=str)
declare_isinstance("Elem")


@spec
def LowerInPrefix(ch: List[Elem], i: int, s: str) -> bool:
    """Some child among the first i has the lower-cased name s."""
    if i <= 0:
        return False
    if ch[i - 1].name.lower() == s:
        return True
    return LowerInPrefix(ch, i - 1, s)


@contract("Section._validate_uniqueness_of_element_names")
def _(self: Obj("Section", name=str, children=List[Elem])) -> None:
    properties("C02", "C17")
    no_native("needs survey-element objects: exercised through the e2e oracles")
    locals(element_slugs=Set[str])
    ch = self.children
    # rejected exactly when some child's lower-cased name already occurs among the children before it
    raises(PyXFormError, when=exists(0, len(ch), lambda i: LowerInPrefix(ch, i, ch[i].name.lower())),
           message=self.name in message and exists(0, len(ch), lambda i: LowerInPrefix(ch, i, ch[i].name.lower())
                                                   and ch[i].name.lower() in message))

    @loop(0, index="i")
    def _():
        invariant(forall_str(lambda s: (s in element_slugs) == LowerInPrefix(ch, i, s)))
        invariant(forall(0, i, lambda k: not LowerInPrefix(ch, k, ch[k].name.lower())))
        hint(LowerInPrefix(ch, i + 1, ch[i].name.lower()) or True)


# ---------------------------------------------------------------- repeat template (C04, C02): jr:template copy of a repeat

@spec
def ChildInst(e: Elem, append_template: bool) -> XNode:
    """Instance subtree of one child (family contract of xml_instance: InstShape)."""
    uninterpreted()


@spec
def TemplateInst(e: Elem) -> XNode:
    """Template subtree of a nested repeat (RepeatingSection.template_instance)."""
    uninterpreted()


@contract("Elem.xml_instance")
def _(self: Elem, survey: S, append_template: bool = False) -> XNode:
    trusted("family contract of xml_instance on an element reference (Question/Section/EntityDeclaration overrides)")
    ensures(result == ChildInst(self, append_template))
    may_raise(PyXFormError, when=True)


@contract("Elem.template_instance")
def _(self: Elem, survey: S) -> XNode:
    trusted("RepeatingSection.template_instance = generate_repeating_template of the nested repeat")
    ensures(result == TemplateInst(self))
    may_raise(PyXFormError, when=True)


@spec
def TemplateKids(ch: List[Elem], i: int) -> List[XNode]:
    """C04: the template holds one node per child row in sheet order — external instances contribute none (they are
    declared as secondary instances), a nested repeat contributes its own template, any other row its instance node."""
    if i <= 0:
        return []
    c = ch[i - 1]
    if is_a(c, "ExternalInstance"):
        return TemplateKids(ch, i - 1)
    if is_a(c, "RepeatingSection"):
        return TemplateKids(ch, i - 1) + [TemplateInst(c)]
    return TemplateKids(ch, i - 1) + [ChildInst(c, False)]


@contract("Section.generate_repeating_template")
def _(self: Obj("Section", name=str, children=List[Elem]), survey: S, **kwargs: Dict[str, str]) -> XNode:
    properties("C04", "C02", "C17", "C10")
    no_native("needs survey-element objects: exercised through the e2e oracles")
    may_raise(PyXFormError, when=True)
    ch = self.children
    ensures(result.nodeType == 1 and result.tagName == self.name)
    ensures(len(keys(result.attrs)) == 1 and keys(result.attrs)[0] == "jr:template" and result.attrs["jr:template"] == "")
    ensures(result.kids == TemplateKids(ch, len(ch)))

    @loop(0, index="i")
    def _():
        invariant(result.nodeType == 1 and result.tagName == self.name and len(keys(result.attrs)) == 1
                  and keys(result.attrs)[0] == "jr:template" and result.attrs["jr:template"] == "")
        invariant(result.kids == TemplateKids(ch, i))


# ---------------------------------------------------------------- instance subtree of a section (C04, C02): InstShape

SectionK = Obj("Section", name=str, children=List[Elem], instance=Opt[Dict[str, str]])


@spec
def SubstIn(survey: S2, text: str, ctx: SectionK) -> str:
    """insert_xpaths(text, context=section): reference substitution (C03)."""
    uninterpreted()


@spec
def FlatKids(e: Elem) -> List[XNode]:
    """Instance nodes of a flat group's children, spliced into the parent (xml_instance_array)."""
    uninterpreted()


@spec
def ElemFlat(e: Elem) -> Opt[bool]:
    uninterpreted()


@spec
def TemplateNode(e: Elem) -> XNode:
    """The jr:template copy of a repeat (generate_repeating_template, proved above on its record view)."""
    uninterpreted()


@contract("Elem.get")
def _(self: Elem, key: str) -> Opt[bool]:
    trusted("SurveyElement.get(\"flat\"): the flat slot of a group")
    requires(key == "flat")
    ensures(result == ElemFlat(self))


@contract("Elem.xml_instance_array")
def _(self: Elem, survey: S) -> List[XNode]:
    trusted("Section.xml_instance_array of a flat group")
    ensures(result == FlatKids(self))
    may_raise(PyXFormError, when=True)


@contract("Elem.generate_repeating_template")
def _(self: Elem, survey: S) -> XNode:
    trusted("family view of Section.generate_repeating_template (proved on its record view)")
    ensures(result == TemplateNode(self))
    may_raise(PyXFormError, when=True)


@contract("SurveyS2.insert_xpaths")
def _(self: S2, text: str, context: SectionK) -> str:
    trusted("reference substitution (C03)")
    ensures(result == SubstIn(self, text, context))
    may_raise(PyXFormError, when=True)


@spec
def IsFlat(c: Elem) -> bool:
    return has_attr(c, "flat") and bool(ElemFlat(c))


@spec
def InstKids(ch: List[Elem], i: int, tmpl: bool) -> List[XNode]:
    """C04: one node per child row in sheet order, nested as the rows nest; a flat group's nodes are spliced in;
    external instances contribute nothing; a repeat met outside a template context is preceded by its jr:template
    copy and is itself rendered in template context (so nested repeats inside it do not get a second template)."""
    if i <= 0:
        return []
    c = ch[i - 1]
    if IsFlat(c):
        return InstKids(ch, i - 1, tmpl) + FlatKids(c)
    if is_a(c, "ExternalInstance"):
        return InstKids(ch, i - 1, tmpl)
    if is_a(c, "RepeatingSection") and not tmpl:
        return InstKids(ch, i - 1, tmpl) + [TemplateNode(c), ChildInst(c, True)]
    return InstKids(ch, i - 1, tmpl) + [ChildInst(c, tmpl)]


@contract("Section.xml_instance")
def _(self: SectionK, survey: S2, **kwargs: Dict[str, str]) -> XNode:
    properties("C04", "C02", "C17")
    no_native("needs survey-element objects: exercised through the e2e oracles")
    kwargs_shapes({}, {"append_template": bool})
    functional("SectionInstance")
    locals(attributes=Dict[str, str])
    may_raise(PyXFormError, when=True)
    ch = self.children
    tmpl = bool(kwargs.get("append_template", False))
    A = some(self.instance)
    ensures(result.nodeType == 1 and result.tagName == self.name)
    # instance:: attributes of the row, each after reference substitution, and nothing else
    ensures(implies(not bool(self.instance), len(keys(result.attrs)) == 0))
    ensures(implies(bool(self.instance), keys(result.attrs) == keys(A)
                    and forall(0, len(keys(A)), lambda q: result.attrs[keys(A)[q]] == SubstIn(survey, A[keys(A)[q]], self))))
    ensures(result.kids == InstKids(ch, len(ch), tmpl))

    @loop(0, index="q")
    def _():
        invariant(keys(attributes) == keys(A))
        invariant(forall(0, q, lambda r: attributes[keys(A)[r]] == SubstIn(survey, A[keys(A)[r]], self)))
        invariant(forall(q, len(keys(A)), lambda r: attributes[keys(A)[r]] == A[keys(A)[r]]))

    @loop(1, index="i")
    def _():
        invariant(result.nodeType == 1 and result.tagName == self.name)
        invariant(implies(not bool(self.instance), len(keys(result.attrs)) == 0))
        invariant(implies(bool(self.instance), keys(result.attrs) == keys(A)
                          and forall(0, len(keys(A)), lambda q: result.attrs[keys(A)[q]] == SubstIn(survey, A[keys(A)[q]], self))))
        invariant(bool(append_template) == tmpl)
        invariant(result.kids == InstKids(ch, i, tmpl))

    @loop(2, index="g")
    def _():
        invariant(result.nodeType == 1 and result.tagName == self.name)
        invariant(implies(not bool(self.instance), len(keys(result.attrs)) == 0))
        invariant(implies(bool(self.instance), keys(result.attrs) == keys(A)
                          and forall(0, len(keys(A)), lambda q: result.attrs[keys(A)[q]] == SubstIn(survey, A[keys(A)[q]], self))))
        invariant(result.kids == InstKids(ch, i, tmpl) + FlatKids(child)[:g])


# ---------------------------------------------------------------- body controls of sections (C04 order/nesting, C02 refs)

LabelVal = Union[str, Dict[str, str]]
BindVal = Union[str, Dict[str, str]]
SurveyS = Obj("Survey", name=str)
declare_class("GroupedSection", "pyxform.section.GroupedSection")
declare_class("RepeatingSection", "pyxform.section.RepeatingSection")
# the slots of a group / repeat that its body control reads (element slots first: accepted where an element is)
GroupK = Obj("GroupedSection", name=str, type=str, bind=Opt[Dict[str, BindVal]], flat=Opt[bool], trigger=Opt[str],
             default=Opt[str], label=Opt[LabelVal], hint=Opt[LabelVal], guidance_hint=Opt[LabelVal],
             media=Opt[Dict[str, LabelVal]], children=List[Elem], control=Opt[Dict[str, str]])
RepeatK = Obj("RepeatingSection", name=str, type=str, bind=Opt[Dict[str, BindVal]], flat=Opt[bool], trigger=Opt[str],
              default=Opt[str], label=Opt[LabelVal], hint=Opt[LabelVal], guidance_hint=Opt[LabelVal],
              media=Opt[Dict[str, LabelVal]], children=List[Elem], control=Opt[Dict[str, str]])
ElemK = Obj("SurveyElement", name=str, type=str, bind=Opt[Dict[str, BindVal]], flat=Opt[bool], trigger=Opt[str],
            default=Opt[str], label=Opt[LabelVal], hint=Opt[LabelVal], guidance_hint=Opt[LabelVal],
            media=Opt[Dict[str, LabelVal]])
Ctx = Opaque("Ctx")


@spec
def XPathOf(e: ElemK) -> str:
    uninterpreted()


@spec
def Subst(survey: Ctx, text: BindVal, ctx: Ctx) -> str:
    uninterpreted()


@spec
def LabelNode(e: ElemK, survey: SurveyS) -> XNode:
    """The label element of a row (SurveyElement.xml_label, proved in contracts/survey_element.py: C06/C07)."""
    uninterpreted()


@spec
def ChildControl(e: Elem) -> Opt[XNode]:
    """Body control of one child row (family contract of xml_control); None for a row that is not user-visible."""
    uninterpreted()


@contract("Elem.xml_control")
def _(self: Elem, survey: SurveyS) -> Opt[XNode]:
    trusted("family contract of xml_control on an element reference (Question / GroupedSection / RepeatingSection / "
            "ExternalInstance overrides; the group and repeat overrides are proved below on their record views)")
    ensures(result == ChildControl(self))
    may_raise(PyXFormError, when=True)


@spec
def ControlKids(ch: List[Elem], i: int) -> List[XNode]:
    """C04: the body presents the user-visible child rows in sheet order — one control per child that has one."""
    if i <= 0:
        return []
    if ChildControl(ch[i - 1]) is None:
        return ControlKids(ch, i - 1)
    return ControlKids(ch, i - 1) + [some(ChildControl(ch[i - 1]))]


@contract("Section.xml_control")
def _(self: Obj("Section", name=str, children=List[Elem]), survey: SurveyS) -> List[XNode]:
    properties("C04")
    no_native("needs survey-element objects: exercised through the e2e oracles and the runtime monitor")
    may_raise(PyXFormError, when=True)
    ch = self.children
    ensures(result == ControlKids(ch, len(ch)))

    @loop(0, index="i")
    def _():
        invariant(_yield == ControlKids(ch, i))


@contract("GroupedSection.xml_control")
def _(self: GroupK, survey: SurveyS) -> Opt[XNode]:
    properties("C04", "C02")
    no_native("needs survey-element objects: exercised through the e2e oracles and the runtime monitor")
    locals(children=List[XNode], attributes=Dict[str, str])
    may_raise(PyXFormError, when=True)
    Cd = some(self.control)
    ch = self.children
    bodyless = bool(self.control) and bool(Cd.get("bodyless"))
    nl = 1 if (bool(self.label) or bool(self.media)) else 0
    # a group marked bodyless (the generated meta block) has no control
    ensures((result is None) == bodyless)
    ensures(implies(not bodyless, some(result).nodeType == 1 and some(result).tagName == "group"))
    # C04: the group's label element first (when it has a label or media to show), then the controls of its child rows in sheet order, nothing else
    ensures(implies(not bodyless and (bool(self.label) or bool(self.media)), some(result).kids[0] == LabelNode(self, survey)))
    ensures(implies(not bodyless, some(result).kids[nl:] == ControlKids(ch, len(ch)) and len(some(result).kids) >= nl))
    # C02: a group that has an instance node is bound to it by ref = its own path; a flat group has no ref
    ensures(implies(not bodyless and not bool(self.flat), "ref" in some(result).attrs
                    and some(result).attrs["ref"] == XPathOf(self)))
    # C04: the row's body attributes after reference substitution (appearance is taken literally), and nothing else
    ensures(implies(not bodyless and bool(self.control), forall_str(lambda a: implies(a in Cd,
            a in some(result).attrs and implies(a != "ref" or bool(self.flat),
                some(result).attrs[a] == (Cd[a] if a == "appearance" else Subst(ctx_of(survey), Cd[a], ctx_of(self))))))))
    ensures(implies(not bodyless, forall_str(lambda a: implies(a in some(result).attrs,
            (a == "ref" and not bool(self.flat)) or (bool(self.control) and a in Cd)))))

    @loop(0, index="i")
    def _():
        invariant(len(children) == nl + i and children[nl:] == ControlKids(ch, len(ch))[:i])
        invariant(implies(bool(self.label) or bool(self.media), children[0] == LabelNode(self, survey)))


@spec
def RepeatDynDefaults(e: RepeatK) -> List[XNode]:
    """setvalue actions of the dynamic defaults of the rows inside this repeat that are not inside a nested repeat
    (RepeatingSection._dynamic_defaults_helper: each is get_setvalue_node_for_dynamic_default(in_repeat=True), proved C10)."""
    uninterpreted()


@contract("RepeatingSection._dynamic_defaults_helper")
def _(self: RepeatK, current: RepeatK, survey: SurveyS) -> List[XNode]:
    trusted("recursive walk over the rows of the repeat, nested repeats excluded (C10 e2e oracle: one odk-new-repeat action per row)")
    ensures(result == RepeatDynDefaults(current))
    may_raise(PyXFormError, when=True)


@contract("RepeatingSection.xml_control")
def _(self: RepeatK, survey: SurveyS) -> XNode:
    properties("C04", "C02")
    no_native("needs survey-element objects: exercised through the e2e oracles and the runtime monitor")
    locals(control_dict=Dict[str, str])
    may_raise(PyXFormError, when=True)
    Cd = some(self.control)
    ch = self.children
    nk = len(ControlKids(ch, len(ch)))
    # type invariant of the sheet stage: no `body::nodeset` column on a repeat row (it would collide with the generated one)
    requires(implies(bool(self.control), "nodeset" not in Cd))
    # C04: a repeat is presented as a group holding its label and one repeat element, nothing else
    ensures(result.nodeType == 1 and result.tagName == "group" and len(result.kids) == 2)
    ensures(result.kids[0] == LabelNode(self, survey))
    # C02: both are bound to the repeat's own node
    ensures(len(keys(result.attrs)) == 1 and result.attrs["ref"] == XPathOf(self))
    ensures(result.kids[1].nodeType == 1 and result.kids[1].tagName == "repeat"
            and "nodeset" in result.kids[1].attrs and result.kids[1].attrs["nodeset"] == XPathOf(self))
    # C04: the repeat element carries the row's body attributes after reference substitution, and nothing else ...
    ensures(implies(bool(self.control), forall_str(lambda a: implies(a in Cd, a in result.kids[1].attrs
            and result.kids[1].attrs[a] == Subst(ctx_of(survey), Cd[a], ctx_of(self))))))
    ensures(forall_str(lambda a: implies(a in result.kids[1].attrs, a == "nodeset" or (bool(self.control) and a in Cd))))
    # ... and holds the controls of the child rows in sheet order, followed by the per-instance dynamic defaults
    ensures(result.kids[1].kids == ControlKids(ch, len(ch)) + RepeatDynDefaults(self))

    @loop(0, index="i")
    def _():
        invariant(repeat_node.nodeType == 1 and repeat_node.tagName == "repeat"
                  and "nodeset" in repeat_node.attrs and repeat_node.attrs["nodeset"] == XPathOf(self))
        invariant(implies(bool(self.control), forall_str(lambda a: implies(a in Cd, a in repeat_node.attrs
                  and repeat_node.attrs[a] == Subst(ctx_of(survey), Cd[a], ctx_of(self))))))
        invariant(forall_str(lambda a: implies(a in repeat_node.attrs, a == "nodeset" or (bool(self.control) and a in Cd))))
        invariant(repeat_node.kids == ControlKids(ch, len(ch))[:i])

    @loop(1, index="j")
    def _():
        invariant(repeat_node.nodeType == 1 and repeat_node.tagName == "repeat"
                  and "nodeset" in repeat_node.attrs and repeat_node.attrs["nodeset"] == XPathOf(self))
        invariant(implies(bool(self.control), forall_str(lambda a: implies(a in Cd, a in repeat_node.attrs
                  and repeat_node.attrs[a] == Subst(ctx_of(survey), Cd[a], ctx_of(self))))))
        invariant(forall_str(lambda a: implies(a in repeat_node.attrs, a == "nodeset" or (bool(self.control) and a in Cd))))
        invariant(repeat_node.kids == ControlKids(ch, len(ch)) + RepeatDynDefaults(self)[:j])
