"""Model of the small DOM-construction API pyxform uses (pyxform.utils.node and the minidom
mutators it applies to fresh nodes).

An XML node is a value of the opaque sort XNode with observer functions
    XNode_nodeType : int (1 element, 3 text)      XNode_tagName : str
    XNode_attrs    : Dict[str,str] (insertion ordered)   XNode_kids : List[XNode]
    XNode_data     : str (text nodes)
`node(tag, *children, **attrs)` returns a fresh XNode whose observers are fixed by the
arguments exactly as pyxform.utils.node does it (TRUSTED model of that function: listed in
evidence; utils.node itself is exercised by the e2e oracles):
  * attributes in keyword order, `tag` and `toParseString` excluded; a keyword given twice
    (explicitly and through **mapping) is the TypeError CPython raises;
  * one string child becomes a text node holding exactly that string, unless
    toParseString is true, in which case the children are ParsedKids(tag, string)
    (uninterpreted: defusedxml.parseString, assumed to succeed on well-formed fragments);
    two string children raise PyXFormError;
  * element children in argument order, generators/lists flattened, None inside a
    generator skipped.
Mutators follow value semantics: the receiver *name* is rebound to a new XNode value (a
node is owned by the function that created it until it is passed on).
"""
from __future__ import annotations

import z3
from z3 import And

from .kinds import (
    K_INT, K_STR, NONE, BoolV, ConstV, DictV, IntV, KDict, KList, KOpaque, ListV, NoneV, OpaqueV,
    RaiseV, StrV, TupleV, UnionV, Unsupported, V, box, unbox,
)

XNODE = KOpaque("XNode")
ATTRS = KDict(K_STR, K_STR)
KIDS = KList(XNODE)


def _f(name, ret_sort):
    return z3.Function(f"XNode_{name}", XNODE.sort(), ret_sort)


def f_type():
    return _f("nodeType", z3.IntSort())


def f_tag():
    return _f("tagName", z3.StringSort())


def f_attrs():
    return _f("attrs", ATTRS.sort())


def f_kids():
    return _f("kids", KIDS.sort())


def f_data():
    return _f("data", z3.StringSort())


def parsed_kids():
    return z3.Function("ParsedKids", z3.StringSort(), z3.StringSort(), KIDS.sort())


FIELDS = {
    "nodeType": (f_type, K_INT), "tagName": (f_tag, K_STR), "attrs": (f_attrs, ATTRS),
    "kids": (f_kids, KIDS), "childNodes": (f_kids, KIDS), "data": (f_data, K_STR),
}


def install(registry):
    """Register observers as fields of the opaque kind XNode and the mutator hooks."""
    for attr, (fn, kind) in FIELDS.items():
        def getter(eng, st, v, fn=fn, kind=kind):
            return unbox(fn()(v.t), kind)

        registry.hooks[("field", "XNode", attr)] = getter
    registry.hooks[("dom", "installed")] = True


class SplatV(V):
    """*xs at a call site where xs is a symbolic list (only the node model accepts it)."""

    def __init__(self, lst):
        self.lst = lst
        self.kind = lst.kind


class SegGenV(V):
    """A generator whose yields are a sequence of segments: single values and symbolic lists."""

    def __init__(self, segments):
        self.segments = list(segments)  # each: ("one", V) | ("many", ListV)

    @property
    def kind(self):
        return KIDS

    def to_seq(self, kind):
        """Concatenation of the segments as a sequence of kind.elem (None items are not representable)."""
        parts = []
        for how, seg in self.segments:
            if how == "many":
                if seg.elem != kind.elem:
                    raise Unsupported(f"generator segment of {seg.elem!r} as {kind.elem!r}")
                parts.append(seg.t)
            else:
                parts.append(z3.Unit(box(seg, kind.elem)))
        if not parts:
            return z3.Empty(kind.sort())
        return parts[0] if len(parts) == 1 else z3.Concat(*parts)


class ManyV(V):
    """Marker in a generator's ghost yield list: `yield from <symbolic list>`."""

    def __init__(self, lst):
        self.lst = lst
        self.kind = lst.kind


def gen_value(items):
    """Ghost yield list -> generator value (GenV when all items are single values)."""
    from . import builtins_model as bm

    if any(isinstance(i, ManyV) for i in items):
        return SegGenV([("many", i.lst) if isinstance(i, ManyV) else ("one", i) for i in items])
    return bm.GenV(items)


def mk_attrs(pairs):
    """[(key term, value term)] -> z3 term of sort ATTRS (keys in order)."""
    es = z3.StringSort()
    keys = z3.Empty(z3.SeqSort(es))
    vals = z3.K(es, z3.StringVal(""))
    for k, v in pairs:
        keys = z3.Concat(keys, z3.Unit(k)) if not _is_empty(keys) else z3.Unit(k)
        vals = z3.Store(vals, k, v)
    return ATTRS.sort().constructor(0)(keys, vals)


def _is_empty(seq):
    return seq.decl().kind() == z3.Z3_OP_SEQ_EMPTY


def text_node(eng, st, s_term):
    t = z3.FreshConst(XNODE.sort(), "text")
    st = st.assume(z3.And(f_type()(t) == 3, f_data()(t) == s_term))
    return st, t


def _kids_of_child(eng, st, c):
    """One positional argument of node() (not a str) -> list of (state, seq term | RaiseV)."""
    if isinstance(c, OpaqueV) and c.kind == XNODE:
        return [(st, z3.Unit(c.t))]
    if isinstance(c, NoneV):
        return [(st, RaiseV("AttributeError", None, "node(): None child passed to appendChild"))]
    if isinstance(c, (IntV,)):
        from . import builtins_model as bm

        s2, t = text_node(eng, st, bm.to_str(eng, c).t)
        return [(s2, z3.Unit(t))]
    if isinstance(c, SplatV):
        c = c.lst
    if isinstance(c, ListV):
        if c.elem == XNODE:
            return [(st, c.t)]
        raise Unsupported(f"node(): list child of {c.elem!r}")
    if isinstance(c, SegGenV):
        outs = [(st, z3.Empty(KIDS.sort()))]
        for how, seg in c.segments:
            nxt = []
            for s, acc in outs:
                if isinstance(acc, RaiseV):
                    nxt.append((s, acc))
                    continue
                if how == "many":
                    if not (isinstance(seg, ListV) and seg.elem == XNODE):
                        raise Unsupported("generator segment kind")
                    nxt.append((s, z3.Concat(acc, seg.t)))
                else:
                    for s2, v in eng.split(s, seg):
                        if isinstance(v, NoneV):
                            nxt.append((s2, acc))  # None yielded by a generator is skipped
                        elif isinstance(v, OpaqueV) and v.kind == XNODE:
                            nxt.append((s2, z3.Concat(acc, z3.Unit(v.t))))
                        else:
                            raise Unsupported(f"node(): generator yields {type(v).__name__}")
            outs = nxt
        return outs
    if isinstance(c, TupleV):  # concrete generator / list of children
        return _kids_of_child(eng, st, SegGenV([("one", i) for i in c.items]))
    raise Unsupported(f"node(): child of {type(c).__name__}")


def node_model(eng, st, pos, kw):
    eng.trusted_used.add("pyxform.utils.node: builtin model (pyvc/dom_model.py) — attributes in keyword order, "
                         "text/parsed/element children as documented there")
    kw = dict(kw)
    if pos:
        tag, rest = pos[0], list(pos[1:])
    elif "tag" in kw:
        tag, rest = kw["tag"], []
    else:
        return [(st, RaiseV("KeyError", None, "node(): no tag"))]
    if not isinstance(tag, StrV):
        raise Unsupported(f"node(): tag of {type(tag).__name__}")
    # flatten splats of concrete tuples
    flat = []
    for a in rest:
        flat.append(a)
    outs = []
    kw_names = [k for k in kw if k not in ("**", "tag", "toParseString")]
    for s0, allargs in eng.split_all(st, flat + [kw[k] for k in kw_names]):
        args = allargs[:len(flat)]
        kw = {**kw, **dict(zip(kw_names, allargs[len(flat):]))}     # optional attribute values: one path per alternative
        none_attr = [k for k in kw_names if isinstance(kw[k], NoneV)]
        if none_attr:
            # minidom stores the None; writing the document later fails on it
            outs.append((s0, RaiseV("TypeError", None, f"node(): attribute {none_attr[0]} is None")))
            continue
        strs = [a for a in args if isinstance(a, StrV)]
        if len(strs) > 1:
            outs.append((s0, RaiseV("PyXFormError", StrV("Invalid value for `unicode_args`."), "node(): two text arguments")))
            continue
        # ---- attributes
        pairs, dup = [], z3.BoolVal(False)
        sym = kw.get("**")
        flag = kw.get("toParseString")
        explicit = [(k, v) for k, v in kw.items() if k not in ("**", "tag", "toParseString")]
        bad_kind = None
        for k, v in explicit:
            alts = list(eng.split(s0, v)) if isinstance(v, UnionV) else [(s0, v)]
            if len(alts) != 1 or not isinstance(alts[0][1], StrV):
                bad_kind = (k, v)
                break
            pairs.append((z3.StringVal(k), alts[0][1].t))
        if bad_kind is not None:
            raise Unsupported(f"node(): attribute {bad_kind[0]} of {type(bad_kind[1]).__name__}")
        if sym is not None:
            if not (isinstance(sym, DictV) and sym.kk == K_STR and sym.vk == K_STR):
                raise Unsupported("node(): **mapping must be Dict[str,str]")
            for k, _ in explicit:
                dup = z3.Or(dup, z3.Contains(sym.keys, z3.Unit(z3.StringVal(k))))
            # 'tag' / 'toParseString' inside the mapping are consumed, not written: keep it simple and exclude
            special = z3.Or(z3.Contains(sym.keys, z3.Unit(z3.StringVal("tag"))),
                            z3.Contains(sym.keys, z3.Unit(z3.StringVal("toParseString"))))
            s_dup = s0.assume(dup)
            if not z3.is_false(z3.simplify(dup)) and eng.feasible(s_dup):
                outs.append((s_dup, RaiseV("TypeError", None, "node(): keyword given explicitly and in **mapping")))
            s0 = s0.assume(z3.Not(dup)).assume(z3.Not(special))
            vals = sym.vals
            for k, v in pairs:
                vals = z3.Store(vals, k, v)
            if not pairs:
                keys = sym.keys
            else:
                # explicit keywords first, then the mapping's keys: a fresh sequence characterised pointwise
                # (length, every position, membership) so that quantified clauses about it instantiate by matching
                ne = len(pairs)
                keys = z3.FreshConst(sym.keys.sort(), "akeys")
                s0 = s0.assume(z3.Length(keys) == ne + z3.Length(sym.keys))
                for i, (k, _) in enumerate(pairs):
                    s0 = s0.assume(keys[i] == k)
                jq = z3.FreshConst(z3.IntSort(), "jq")
                s0 = s0.assume(z3.ForAll([jq], z3.Implies(z3.And(jq >= 0, jq < z3.Length(sym.keys)),
                                                          keys[ne + jq] == sym.keys[jq])))
                xq = z3.FreshConst(z3.StringSort(), "kq")
                s0 = s0.assume(z3.ForAll([xq], z3.Contains(keys, z3.Unit(xq))
                                         == z3.Or(z3.Contains(sym.keys, z3.Unit(xq)), *[xq == k for k, _ in pairs])))
            attrs = ATTRS.sort().constructor(0)(keys, vals)
        else:
            attrs = mk_attrs(pairs)
        # ---- children
        results = [(s0, z3.Empty(KIDS.sort()))]
        # the single string argument comes first (text node or parsed children), whatever its position
        if strs:
            s_txt = strs[0].t
            nxt = []
            for s, acc in results:
                s2, t = text_node(eng, s, s_txt)
                plain = z3.Unit(t)
                if flag is None:
                    nxt.append((s2, plain))
                else:
                    from . import builtins_model as bm

                    is_true = bm.is_same(eng, flag, BoolV(True))
                    eng.trusted_used.add("defusedxml.parseString on a re-parsed label fragment: ParsedKids(tag, text) "
                                         "uninterpreted; assumed not to raise (well-formed fragment)")
                    nxt.append((s2, z3.If(is_true, parsed_kids()(tag.t, s_txt), plain)))
            results = nxt
        for a in args:
            if isinstance(a, StrV):
                continue
            nxt = []
            for s, acc in results:
                if isinstance(acc, RaiseV):
                    nxt.append((s, acc))
                    continue
                for s2, ks in _kids_of_child(eng, s, a):
                    if isinstance(ks, RaiseV):
                        nxt.append((s2, ks))
                    else:
                        nxt.append((s2, ks if _is_empty(acc) else z3.Concat(acc, ks)))
            results = nxt
        for s, kids in results:
            if isinstance(kids, RaiseV):
                outs.append((s, kids))
                continue
            r = z3.FreshConst(XNODE.sort(), "node")
            s = s.assume(z3.And(f_type()(r) == 1, f_tag()(r) == tag.t, f_attrs()(r) == attrs, f_kids()(r) == kids))
            elems = [a for a in args if not isinstance(a, StrV)]
            if elems and not strs and all(isinstance(a, OpaqueV) and a.kind == XNODE for a in elems):
                # children given one by one: their positions, as ground facts (the sequence solvers do not always derive
                # nth(concat(unit(a), unit(b)), 1) == b by themselves)
                s = s.assume(z3.And(z3.Length(f_kids()(r)) == len(elems),
                                    *[f_kids()(r)[i] == a.t for i, a in enumerate(elems)]))
            outs.append((s, OpaqueV(XNODE, r)))
    return outs


def _derive(eng, st, old, attrs=None, kids=None):
    r = z3.FreshConst(XNODE.sort(), "node")
    st = st.assume(z3.And(
        f_type()(r) == f_type()(old), f_tag()(r) == f_tag()(old), f_data()(r) == f_data()(old),
        f_attrs()(r) == (attrs if attrs is not None else f_attrs()(old)),
        f_kids()(r) == (kids if kids is not None else f_kids()(old))))
    return st, OpaqueV(XNODE, r)


def mutate_node(eng, st, recv: OpaqueV, meth, pos, kw, node):
    """Mutating DOM method on a named XNode. Returns [(state, new receiver, ret)] or None."""
    from . import builtins_model as bm

    if meth == "setAttribute" and len(pos) == 2:
        k, v = pos
        if not isinstance(k, StrV):
            raise Unsupported("setAttribute key kind")
        outs = []
        for s, v1 in eng.split(st, v):
            if not isinstance(v1, StrV):
                # minidom stores any object; serialisation later fails on non-strings
                outs.append((s, recv, RaiseV("TypeError", None, f"setAttribute({type(v1).__name__}) L{node.lineno}")))
                continue
            d = unbox(f_attrs()(recv.t), ATTRS)
            for s2, nd, ret in bm.setitem(eng, s, d, k, v1, node):
                if isinstance(ret, RaiseV):
                    outs.append((s2, recv, ret))
                    continue
                s3, r = _derive(eng, s2, recv.t, attrs=box(nd, ATTRS))
                outs.append((s3, r, NONE))
        return outs
    if meth == "appendChild" and len(pos) == 1:
        outs = []
        for s, c in eng.split(st, pos[0]):
            for s2, ks in _kids_of_child(eng, s, c):
                if isinstance(ks, RaiseV):
                    outs.append((s2, recv, ks))
                    continue
                old_kids = f_kids()(recv.t)
                s3, r = _derive(eng, s2, recv.t, kids=z3.Concat(old_kids, ks))
                if isinstance(c, OpaqueV):
                    # a fact of the theory of sequences that the solvers do not always derive: the appended child sits
                    # at index len(old children) of the new child list
                    s3 = s3.assume(And(f_kids()(r.t)[z3.Length(old_kids)] == c.t,
                                       z3.Length(f_kids()(r.t)) == z3.Length(old_kids) + 1))
                outs.append((s3, r, NONE))
        return outs
    if meth == "insertBefore" and len(pos) == 2:
        new, ref = pos
        if not (isinstance(new, OpaqueV) and isinstance(ref, OpaqueV)):
            raise Unsupported("insertBefore argument kinds")
        kids = f_kids()(recv.t)
        n = z3.Length(kids)
        # only the form used by pyxform: insert before the last child
        is_last = z3.And(n >= 1, kids[n - 1] == ref.t)
        eng.oblige("pre@call", f"L{node.lineno - eng.line0}:insertBefore-ref-is-last-child", st, is_last, node.lineno)
        newkids = z3.Concat(z3.SubSeq(kids, 0, n - 1), z3.Unit(new.t), z3.Unit(ref.t))
        s3, r = _derive(eng, st.assume(is_last), recv.t, kids=newkids)
        return [(s3, r, NONE)]
    return None


def ser_fn():
    """Ser(x, indent, addindent, newl): the text written by x.writexml(...) (family contract; contracts/utils.py)."""
    S = z3.StringSort()
    return z3.Function("Ser", XNODE.sort(), S, S, S, S)


def call_node_method(eng, st, recv: OpaqueV, meth, pos, kw, node):
    if meth in ("toxml", "toprettyxml"):
        # minidom Node.toxml() = toprettyxml("", ""); toprettyxml(indent, newl) = writexml(writer, "", indent, newl)
        eng.trusted_used.add("xml.dom.minidom Node.toxml/toprettyxml: writexml into a StringIO with (\"\", indent, newl)")
        if meth == "toxml":
            ind, nl = StrV(""), StrV("")
        else:
            ind = kw.get("indent", pos[0] if pos else StrV("\t"))
            nl = kw.get("newl", pos[1] if len(pos) > 1 else StrV("\n"))
        if not (isinstance(ind, StrV) and isinstance(nl, StrV)):
            raise Unsupported("toprettyxml layout argument kind")
        return [(st, StrV(ser_fn()(recv.t, z3.StringVal(""), ind.t, nl.t)))]
    if meth == "_get_lastChild" and not pos:
        kids = f_kids()(recv.t)
        n = z3.Length(kids)
        has = z3.simplify(n >= 1)
        outs = []
        s_ok = st.assume(n >= 1)
        if eng.feasible(s_ok):
            outs.append((s_ok, OpaqueV(XNODE, kids[n - 1])))
        s_no = st.assume(n < 1)
        if eng.feasible(s_no):
            outs.append((s_no, NONE))
        return outs
    return None
