"""Solver portfolio: obligations -> SMT-LIB2 text -> z3 (API, from_string) and cvc5 CLI."""
from __future__ import annotations

import os
import re
import subprocess
import tempfile
import time
from concurrent.futures import ProcessPoolExecutor

import z3

CVC5 = "/usr/bin/cvc5"


def _split_sexprs(text):
    """Top-level s-expressions (and comment lines) of an SMT-LIB text, in order."""
    out, i, n = [], 0, len(text)
    while i < n:
        ch = text[i]
        if ch in " \t\r\n":
            i += 1
        elif ch == ";":
            j = text.find("\n", i)
            j = n if j < 0 else j
            out.append(text[i:j])
            i = j
        elif ch == "(":
            depth, j, in_str, in_bar = 0, i, False, False
            while j < n:
                c = text[j]
                if in_str:
                    if c == '"':
                        in_str = False
                elif in_bar:
                    if c == "|":
                        in_bar = False
                elif c == '"':
                    in_str = True
                elif c == "|":
                    in_bar = True
                elif c == "(":
                    depth += 1
                elif c == ")":
                    depth -= 1
                    if depth == 0:
                        break
                j += 1
            out.append(text[i:j + 1])
            i = j + 1
        else:
            j = text.find("\n", i)
            j = n if j < 0 else j
            out.append(text[i:j])
            i = j
    return out


_TOKEN = re.compile(r"[^\s()]+")


def fix_decl_order(text: str) -> str:
    """z3's printer can emit a datatype before a sort it mentions through (Array K (Seq T)); sort declarations are
    re-ordered so that every declaration follows the sorts it mentions (stable otherwise)."""
    items = _split_sexprs(text)
    decl_idx = [k for k, it in enumerate(items) if it.startswith("(declare-datatypes") or it.startswith("(declare-sort")]
    if len(decl_idx) < 2:
        return text
    names = {}
    for k in decl_idx:
        toks = _TOKEN.findall(items[k])
        names[k] = toks[1] if len(toks) > 1 else ""
    by_name = {v: k for k, v in names.items()}
    deps = {k: {by_name[t] for t in set(_TOKEN.findall(items[k])) if t in by_name and by_name[t] != k} for k in decl_idx}
    order, done = [], set()

    def visit(k, stack=()):
        if k in done or k in stack:
            return
        for d in sorted(deps[k]):
            visit(d, (*stack, k))
        done.add(k)
        order.append(k)

    for k in decl_idx:
        visit(k)
    if order == decl_idx:
        return text
    out = list(items)
    for slot, k in zip(decl_idx, order):
        out[slot] = items[k]
    return "\n".join(out) + "\n"


def _smt2(solver) -> str:
    return fix_decl_order(solver.to_smt2())


def to_smt2(ob) -> str:
    s = z3.Solver()
    s.add(*ob.formula())
    return _smt2(s)


def _has_quantifier(t, _cache={}):
    key = t.get_id()
    if key in _cache:
        return _cache[key]
    hit, stack, seen = False, [t], set()
    while stack:
        x = stack.pop()
        i = x.get_id()
        if i in seen:
            continue
        seen.add(i)
        if z3.is_quantifier(x):
            hit = True
            break
        if z3.is_app(x):
            stack.extend(x.children())
    _cache[key] = hit
    return hit


def to_smt2_ground(ob):
    """The obligation with its quantified hypotheses dropped (a weaker hypothesis set: `unsat` still
    discharges the obligation).  None when nothing would be dropped or the goal itself is quantified."""
    if ob.expect != "unsat" or _has_quantifier(ob.goal):
        return None
    hyps = [h for h in ob.hyps if not _has_quantifier(h)]
    if len(hyps) == len(ob.hyps):
        return None
    s = z3.Solver()
    s.add(*hyps, z3.Not(ob.goal))
    return _smt2(s)


def _ground_subterms(t, acc, depth=0, _seen=None):
    """Ground (bound-variable free) subterms of t grouped by sort name."""
    seen = _seen if _seen is not None else set()
    stack = [t]
    while stack:
        x = stack.pop()
        i = x.get_id()
        if i in seen:
            continue
        seen.add(i)
        if z3.is_quantifier(x):
            continue  # terms under a binder may mention bound variables
        if z3.is_app(x):
            k = x.sort().kind()
            if k in (z3.Z3_INT_SORT, z3.Z3_SEQ_SORT, z3.Z3_UNINTERPRETED_SORT, z3.Z3_DATATYPE_SORT) and not z3.is_bool(x):
                acc.setdefault(str(x.sort()), {})[i] = x
            stack.extend(x.children())
    return acc


def _term_size(t, cap=400):
    """Number of distinct sub-terms (DAG size), capped: a cheap measure that never prints the term."""
    seen, stack = set(), [t]
    while stack and len(seen) < cap:
        x = stack.pop()
        i = x.get_id()
        if i in seen:
            continue
        seen.add(i)
        if z3.is_app(x):
            stack.extend(x.children())
    return len(seen)


def to_smt2_inst(ob, cap=10):
    """One-shot instantiation: the goal's universal variables are skolemised and every universally quantified
    hypothesis is instantiated with the skolem constants and the ground terms of matching sort that occur in
    the (negated) goal and in the quantifier-free hypotheses.  Only instances are kept, the quantified
    hypotheses themselves are dropped: a weaker hypothesis set, so `unsat` still discharges the obligation."""
    if ob.expect != "unsat":
        return None
    qh = [h for h in ob.hyps if z3.is_quantifier(h) and h.is_forall()]
    if not qh:
        return None
    goal = ob.goal
    skolems = []
    while z3.is_quantifier(goal) and goal.is_forall():
        vs = [z3.FreshConst(goal.var_sort(i), "sk") for i in range(goal.num_vars())]
        skolems.extend(vs)
        goal = z3.substitute_vars(goal.body(), *reversed(vs))
    neg = z3.Not(goal)
    ground_h = [h for h in ob.hyps if not _has_quantifier(h)]
    other_q = [h for h in ob.hyps if _has_quantifier(h) and not (z3.is_quantifier(h) and h.is_forall())]
    cands: dict = {}
    _ground_subterms(neg, cands)
    for sk in skolems:
        cands.setdefault(str(sk.sort()), {})[sk.get_id()] = sk
    goal_terms = {k: dict(v) for k, v in cands.items()}
    for h in ground_h:
        _ground_subterms(h, cands)
    inst = []
    for h in qh:
        n = h.num_vars()
        pools = []
        for i in range(n):
            sn = str(h.var_sort(i))
            pref = list(goal_terms.get(sn, {}).values())
            rest = [t for k, t in cands.get(sn, {}).items() if k not in goal_terms.get(sn, {})]
            # smallest terms first: skolems, constants and short applications are the useful instances
            pool = sorted(pref, key=_term_size)[:cap] + sorted(rest, key=_term_size)[: max(0, cap - len(pref))]
            pools.append(pool)
        if any(not p for p in pools) or n > 2:
            continue
        import itertools

        for combo in itertools.islice(itertools.product(*pools), 150):
            inst.append(z3.substitute_vars(h.body(), *reversed(combo)))
    if not inst:
        return None
    s = z3.Solver()
    s.add(*ground_h, *other_q, *inst, neg)
    return _smt2(s)


def z3_text_for_cvc5(text: str) -> str:
    t = re.sub(r"\(\(_ ([^\s()]+) 0\)", r"(\1", text)  # recursive function applications
    t = t.replace("(set-info :status unknown)", "")
    t = t.replace("seq.nth_i", "seq.nth").replace("seq.nth_u", "seq.nth")
    t = re.sub(r"\(_ is ([^\s()]+) \)", r"(_ is \1)", t)
    t = t.replace("(check-sat)", "")
    return "(set-logic ALL)\n" + t + "\n(check-sat)\n"


def ast_to_py(v, depth=0):
    """z3 model value -> plain Python value (best effort; None-tagged for unknown)."""
    if depth > 40:
        return "<deep>"
    if z3.is_int_value(v):
        return v.as_long()
    if z3.is_true(v):
        return True
    if z3.is_false(v):
        return False
    if z3.is_rational_value(v):
        return float(v.numerator_as_long()) / float(v.denominator_as_long())
    if z3.is_string_value(v):
        return v.as_string()
    if z3.is_seq(v):
        d = v.decl().kind()
        if d == z3.Z3_OP_SEQ_EMPTY:
            return []
        if d == z3.Z3_OP_SEQ_UNIT:
            return [ast_to_py(v.arg(0), depth + 1)]
        if d == z3.Z3_OP_SEQ_CONCAT:
            out = []
            for i in range(v.num_args()):
                out.extend(ast_to_py(v.arg(i), depth + 1))
            return out
    if z3.is_app(v) and v.sort().kind() == z3.Z3_DATATYPE_SORT:
        name = v.decl().name()
        args = [ast_to_py(v.arg(i), depth + 1) for i in range(v.num_args())]
        if name.startswith("none_"):
            return None
        if name.startswith("some_"):
            return args[0]
        if name.startswith("mk_"):
            return {"$mk": str(v.sort()), "fields": args}
        if re.fullmatch(r"U_.*_u\d+", name):
            return args[0] if args else None
        return {"$ctor": name, "args": args}
    return {"$raw": str(v)[:200]}


def _stage_quick(job):
    """Stage 1: quantifier-free hypotheses only, then plain z3 with a short budget.  An obligation that cvc5 discharged
    on the last baseline run is given to cvc5 first (an ordering hint only: every stage still follows if it fails)."""
    oid, text, timeout_ms, input_names, use_cvc5, ground = job[:6]
    prefer = job[6] if len(job) > 6 else None
    if prefer == "cvc5" and use_cvc5:
        c = _cvc5_run({"oid": oid, "verdict": "unknown", "solver": "cvc5", "reason": "", "model": None, "time": 0},
                      text, min(4000, timeout_ms))
        if c["verdict"] == "unsat":
            return c
    if ground is not None:
        g = _z3_run(oid, ground, 1500, input_names)
        if g["verdict"] == "unsat":
            g["solver"] = "z3 (quantifier-free hypotheses only)"
            return g
    return _z3_run(oid, text, min(2000, timeout_ms) if use_cvc5 else timeout_ms, input_names)


def _stage_inst(job):
    """Stage 2: hypotheses instantiated at the goal's terms (see to_smt2_inst)."""
    oid, inst, input_names = job
    g = _z3_run(oid, inst, 5000, input_names)
    if g["verdict"] == "unsat":
        g["solver"] = "z3 (hypotheses instantiated at goal terms)"
    else:
        g["verdict"] = "unknown"   # a weaker hypothesis set: only `unsat` means anything
    return g


def _stage_slow(job):
    """Stage 3: cvc5, then z3 with the full budget and other seeds."""
    oid, text, timeout_ms, input_names, quick = job
    res = _cvc5_run(quick, text, timeout_ms)
    if res["verdict"] in ("sat", "unsat"):
        return res
    spent = res.get("time", 0) + res.get("time_cvc5", 0)
    reasons = res.get("reason", "")
    slow = None
    for seed in (0, 7, 23):
        slow = _z3_run(oid, text, timeout_ms if seed == 0 else timeout_ms // 2, input_names, seed)
        spent += slow["time"]
        if slow["verdict"] in ("sat", "unsat"):
            break
        reasons += " | z3(seed=%d): %s" % (seed, slow.get("reason"))
    slow["reason"] = reasons if slow["verdict"] not in ("sat", "unsat") else ""
    slow["time"] = spent
    return slow


def _z3_run(oid, text, timeout_ms, input_names, seed=0):
    t0 = time.time()
    res = {"oid": oid, "verdict": "unknown", "solver": "z3", "reason": "", "model": None}
    try:
        ctx = z3.Context()
        s = z3.Solver(ctx=ctx)
        s.set("timeout", timeout_ms)
        if seed:
            s.set("random_seed", seed)
        s.from_string(text)
        r = s.check()
        res["verdict"] = str(r)
        if r == z3.unknown:
            res["reason"] = s.reason_unknown()
        if r == z3.sat:
            m = s.model()
            model = {}
            for d in m.decls():
                if d.name() in input_names and d.arity() == 0:
                    try:
                        model[d.name()] = ast_to_py(m[d])
                    except Exception as e:  # noqa: BLE001
                        model[d.name()] = {"$err": str(e)}
            res["model"] = model
            res["model_text"] = str(m)[:4000]
    except Exception as e:  # noqa: BLE001
        res["verdict"] = "error"
        res["reason"] = f"z3: {e}"
    res["time"] = time.time() - t0
    return res


def _cvc5_run(res, text, timeout_ms):
    res = dict(res)
    if True:
        t1 = time.time()
        try:
            with tempfile.NamedTemporaryFile("w", suffix=".smt2", delete=False) as f:
                f.write(z3_text_for_cvc5(text))
                path = f.name
            try:
                p = subprocess.run(
                    [CVC5, "--strings-exp", "--dt-nested-rec", f"--tlimit={timeout_ms}", path],
                    capture_output=True, text=True, timeout=timeout_ms / 1000 + 5,
                )
                out = (p.stdout or "").strip().splitlines()
                first = out[0] if out else ""
                if first in ("unsat", "sat"):
                    res["verdict"] = first
                    res["solver"] = "cvc5"
                    res["reason"] = ""
                else:
                    res["reason"] += f" | cvc5: {first or (p.stderr or '').strip()[:200]}"
            finally:
                os.unlink(path)
        except subprocess.TimeoutExpired:
            res["reason"] += " | cvc5: timeout"
        except Exception as e:  # noqa: BLE001
            res["reason"] += f" | cvc5: {e}"
        res["time_cvc5"] = time.time() - t1
    return res


def _pmap(fn, jobs, workers):
    if not jobs:
        return []
    if len(jobs) <= 2:
        return [fn(j) for j in jobs]
    with ProcessPoolExecutor(max_workers=min(workers, len(jobs))) as ex:
        return list(ex.map(fn, jobs, chunksize=1))


def solve_all(obligations, timeout_ms=10000, workers=None, use_cvc5=True, prefer=None, _split=True):
    """Discharge obligations in parallel, in three stages of increasing cost. Returns {oid: result-dict}.
    prefer: {oid: "cvc5"} ordering hints (which solver discharged the obligation on the baseline run)."""
    prefer = prefer or {}
    workers = workers or 16
    by_oid = {ob.oid: ob for ob in obligations}
    texts, names = {}, {}
    jobs = []
    for ob in obligations:
        texts[ob.oid] = to_smt2(ob)
        names[ob.oid] = [str(t) for t, _ in ob.inputs.values()] if ob.inputs else []
        jobs.append((ob.oid, texts[ob.oid], timeout_ms, names[ob.oid], use_cvc5, to_smt2_ground(ob), prefer.get(ob.oid)))
    results = {r["oid"]: r for r in _pmap(_stage_quick, jobs, workers)}
    if not use_cvc5:
        return results
    open_ = [o for o, r in results.items() if r["verdict"] not in ("sat", "unsat")]
    # stage 2 (only for the obligations still open): one-shot instantiation, built in this process
    jobs2 = []
    for o in open_:
        try:
            inst = to_smt2_inst(by_oid[o])
        except Exception:  # noqa: BLE001  (an optimisation: never fatal)
            inst = None
        if inst is not None:
            jobs2.append((o, inst, names[o]))
    for r in _pmap(_stage_inst, jobs2, workers):
        if r["verdict"] == "unsat":
            r["time"] = r.get("time", 0) + results[r["oid"]].get("time", 0)
            results[r["oid"]] = r
    open_ = [o for o, r in results.items() if r["verdict"] not in ("sat", "unsat")]
    jobs3 = [(o, texts[o], timeout_ms, names[o], results[o]) for o in open_]
    for r in _pmap(_stage_slow, jobs3, workers):
        results[r["oid"]] = r
    # stage 4 (only for what is still open): a goal of the form  P -> (A and B and ...)  is discharged conjunct by conjunct
    # (same hypotheses; all parts `unsat` = the obligation is discharged; anything else leaves the earlier verdict)
    if not _split:
        return results
    from .state import Obligation

    parts_of, subobs = {}, []
    for o, r in results.items():
        ob = by_oid[o]
        if r["verdict"] in ("sat", "unsat") or ob.expect != "unsat":
            continue
        parts = _goal_parts(ob.goal)
        if len(parts) < 2:
            continue
        parts_of[o] = []
        for k, g in enumerate(parts):
            sub = Obligation(f"{o}//part{k}", ob.kind, ob.hyps, g, ob.line, "unsat")
            parts_of[o].append(sub.oid)
            subobs.append(sub)
    if subobs:
        sub_res = solve_all(subobs, timeout_ms, workers, use_cvc5, None, _split=False)
        for o, ids in parts_of.items():
            if all(sub_res[i]["verdict"] == "unsat" for i in ids):
                results[o] = {"oid": o, "verdict": "unsat", "solver": f"goal split into {len(ids)} conjuncts ("
                              + ", ".join(sorted({sub_res[i]["solver"].split(" ")[0] for i in ids})) + ")",
                              "reason": "", "model": None,
                              "time": results[o].get("time", 0) + sum(sub_res[i].get("time", 0) for i in ids)}
    return results


def _goal_parts(goal):
    """[P -> A, P -> B, ...] for a goal  P -> (A and B ...)  (also written Or(Not P, And(...))), [A, B ...] for a plain
    conjunction, else [goal]."""
    g = z3.simplify(goal)
    if z3.is_and(g):
        return list(g.children())
    if z3.is_implies(g) and z3.is_and(g.arg(1)):
        return [z3.Implies(g.arg(0), c) for c in g.arg(1).children()]
    if z3.is_or(g):
        ands = [c for c in g.children() if z3.is_and(c)]
        if len(ands) == 1:
            rest = [c for c in g.children() if not c.eq(ands[0])]
            return [z3.Or(*rest, c) for c in ands[0].children()]
    return [goal]
