"""python -m pyvc.nativecheck [substring]  — run the bounded native contract search for the matching contracts."""
import os
import sys
import time

sys.path.insert(0, os.environ.get("VERIF_REPO", "/repo"))
from pyvc import native, vcheck  # noqa: E402


def main():
    flt = sys.argv[1] if len(sys.argv) > 1 else ""
    reg = vcheck.load_registry()
    env = native.base_env(reg)
    builders = reg.native_env.get("BUILDERS", {})
    bad = 0
    for fid, c in reg.contracts.items():
        if flt not in fid or not native.searchable(c, reg.native_env.get("EXHAUSTIVE", {}).get(fid)):
            continue
        nc = native.NativeContract(c, reg, env)
        t0 = time.time()
        try:
            w, st = native.search(nc, int(os.environ.get("VERIF_SEED", "0")), 1500, builders,
                                  exhaustive=reg.native_env.get("EXHAUSTIVE", {}).get(fid))
        except NotImplementedError as e:
            print(f"[skip] {fid}: {e}")
            continue
        print(f"[{'WITNESS' if w else 'ok'}] {fid}: {st['evaluations']} evaluations, {st['skipped']} skipped, {time.time() - t0:.1f}s")
        if w:
            bad += 1
            print("   ", {k: (repr(v)[:300]) for k, v in w.items()})
    sys.exit(1 if bad else 0)


if __name__ == "__main__":
    main()
