"""pyvc engine: path-splitting symbolic execution of a Python subset into proof obligations.

See DESIGN.md §2.  The executor reads real function ASTs (extract.py), evaluates them over
symbolic values (kinds.py) and emits Obligation objects (state.py).  Loops are cut by
invariants from the sidecar contract; calls to contracted functions use the contract only.
"""
from __future__ import annotations

import ast
import itertools

import z3

from .kinds import (
    K_BOOL, K_INT, K_NONE, K_REAL, K_STR, NONE, BoolV, ClosureV, ConstV, DictV, FuncV, IntV,
    KDict, KList, KObj, KOpaque, KOpt, KSet, KTuple, KUnion, Kind, ListV, NoneV, ObjV,
    OpaqueV, RaiseV, RealV, SetV, StrV, TupleV, UnionV, Unsupported, V, box, const_to_v,
    fits, fresh, unbox,
)
from .state import Obligation, Outcome, State

MUTATORS = {
    "append", "extend", "add", "update", "pop", "insert", "remove", "clear", "write",
    "setdefault", "appendChild", "setAttribute", "insertBefore", "sort", "discard",
    "popitem", "writerow",
}


class ContractMismatch(Exception):
    """The sidecar contract does not apply to the code as it is now (renamed local,
    loop removed...).  Reported as UNDECIDED, never as a violation."""


def And(*xs):
    xs = [x for x in xs if not z3.is_true(x)]
    if not xs:
        return z3.BoolVal(True)
    return xs[0] if len(xs) == 1 else z3.And(*xs)


def Or(*xs):
    xs = [x for x in xs if not z3.is_false(x)]
    if not xs:
        return z3.BoolVal(False)
    return xs[0] if len(xs) == 1 else z3.Or(*xs)


def simp(t):
    """Constant-fold only: z3.simplify rewrites seq.nth into bounds-guarded ite terms that
    blow formulas up, so the simplified term is used only when it is a literal."""
    r = z3.simplify(t)
    if z3.is_true(r) or z3.is_false(r) or z3.is_int_value(r) or z3.is_string_value(r):
        return r
    return t


class Engine:
    def __init__(self, module_name: str, module_ns: dict, registry, source_lines=None):
        self.module_name = module_name
        self.module_ns = module_ns  # real module globals (for constants / classes)
        self.registry = registry  # contracts registry (contracts.Registry)
        self.obligations: list[Obligation] = []
        self.axioms: list = []
        self.cur_fn = "?"
        self.inline_depth = 0
        self.trusted_used: set[str] = set()
        self.stats = {"paths": 0, "pruned": 0}
        self._prune_solver = None
        from . import builtins_model

        self.bm = builtins_model
        self.max_paths = 4000

    # ------------------------------------------------------------------ utilities
    def oblige(self, kind, where, st: State, goal, line=0, expect="unsat", info=None):
        oid = f"{self.cur_fn}#{kind}@{where}"
        n = sum(1 for o in self.obligations if o.oid.split("~")[0] == oid)
        if n:
            oid = f"{oid}~{n}"
        ob = Obligation(oid, kind, [*self.axioms, *st.pc], goal, line, expect, info)
        self.obligations.append(ob)
        return ob

    def feasible(self, st: State) -> bool:
        """Cheap pruning of infeasible paths (never prunes on unknown)."""
        if not st.pc:
            return True
        if getattr(self, "spec_mode", False) and not getattr(self, "defining", None):
            return True  # contract clauses are merged into one formula: pruning buys nothing there
        defining = getattr(self, "defining", None)
        pcs = st.pc
        if defining:
            # z3 gives an *undefined* recursive function a default interpretation: conditions that
            # mention a spec function still being defined are left out of the pruning query
            # (dropping conjuncts only weakens it, so 'unsat' stays a sound reason to prune)
            pcs = [c for c in st.pc if not self._mentions(c, defining)]
            if not pcs:
                return True
        last = st.pc[-1]
        if z3.is_false(simp(last)):
            self.stats["pruned"] += 1
            return False
        # quantified conjuncts are left out of the pruning query (z3 does not honour small timeouts
        # on them); dropping conjuncts only weakens the query, so 'unsat' stays a sound reason to prune
        pcs = [c for c in pcs if not self._has_quantifier(c)]
        if not pcs:
            return True
        s = z3.Solver()
        s.set("timeout", 40)
        s.add(*pcs)
        r = s.check()
        if r == z3.unsat:
            self.stats["pruned"] += 1
            return False
        return True

    def _has_quantifier(self, term, _cache={}):
        key = term.get_id()
        hit = _cache.get(key)
        if hit is None:
            hit = False
            stack, seen = [term], set()
            while stack:
                t = stack.pop()
                i = t.get_id()
                if i in seen:
                    continue
                seen.add(i)
                if z3.is_quantifier(t):
                    hit = True
                    break
                if z3.is_app(t):
                    stack.extend(t.children())
            _cache[key] = hit
        return hit

    def _mentions(self, term, names, _cache={}):
        key = term.get_id()
        hit = _cache.get(key)
        if hit is None:
            found = set()
            stack, seen = [term], set()
            while stack:
                t = stack.pop()
                i = t.get_id()
                if i in seen:
                    continue
                seen.add(i)
                if z3.is_quantifier(t):
                    stack.append(t.body())
                elif z3.is_app(t):
                    if t.decl().kind() in (z3.Z3_OP_UNINTERPRETED, z3.Z3_OP_RECURSIVE) if hasattr(z3, "Z3_OP_RECURSIVE") else (z3.Z3_OP_UNINTERPRETED,):
                        found.add(t.decl().name())
                    else:
                        found.add(t.decl().name())
                    stack.extend(t.children())
            _cache[key] = found
            hit = found
        return bool(hit & names)

    # ------------------------------------------------------------------ truthiness
    def truthy(self, v: V):
        """z3 Bool for Python truthiness of v."""
        if isinstance(v, BoolV):
            return v.t
        if isinstance(v, IntV):
            return v.t != 0
        if isinstance(v, RealV):
            return v.t != 0
        if isinstance(v, StrV):
            return z3.Length(v.t) > 0
        if isinstance(v, NoneV):
            return z3.BoolVal(False)
        if isinstance(v, ListV):
            return z3.Length(v.t) > 0
        if isinstance(v, TupleV):
            return z3.BoolVal(len(v.items) > 0)
        if isinstance(v, DictV):
            return z3.Length(v.keys) > 0
        if isinstance(v, UnionV):
            return Or(*[And(g, self.truthy(a)) for g, a in v.alts])
        if isinstance(v, ConstV):
            return z3.BoolVal(bool(v.obj))
        if isinstance(v, (ObjV, OpaqueV, FuncV, ClosureV)):
            tr = getattr(v, "truthy_override", None)
            if tr is not None:
                return tr
            return z3.BoolVal(True)
        if isinstance(v, SetV):
            raise Unsupported("truthiness of symbolic set")
        raise Unsupported(f"truthy({type(v).__name__})")

    # ------------------------------------------------------------------ splitting unions
    def split(self, st: State, v: V):
        """Yield (state, concrete-alternative) for each feasible alternative of a union."""
        if not isinstance(v, UnionV):
            yield st, v
            return
        for g, a in v.alts:
            g = simp(g)
            if z3.is_false(g):
                continue
            st2 = st.assume(g)
            if not z3.is_true(g) and not self.feasible(st2):
                continue
            yield from self.split(st2, a)

    def split_all(self, st: State, vals):
        """Split every union among vals; yields (state, [concrete alternatives])."""
        res = [(st, [])]
        for v in vals:
            nxt = []
            for s, acc in res:
                for s2, a in self.split(s, v):
                    nxt.append((s2, [*acc, a]))
            res = nxt
        return res

    # ------------------------------------------------------------------ equality
    def eq(self, a: V, b: V):
        """z3 Bool for Python `a == b` (structural)."""
        if isinstance(a, UnionV):
            return Or(*[And(g, self.eq(x, b)) for g, x in a.alts])
        if isinstance(b, UnionV):
            return Or(*[And(g, self.eq(a, x)) for g, x in b.alts])
        if isinstance(a, NoneV) or isinstance(b, NoneV):
            return z3.BoolVal(isinstance(a, NoneV) and isinstance(b, NoneV))
        num = (IntV, BoolV, RealV)
        if isinstance(a, num) and isinstance(b, num):
            if isinstance(a, RealV) or isinstance(b, RealV):
                return box(a, K_REAL) == box(b, K_REAL)
            if isinstance(a, BoolV) and isinstance(b, BoolV):
                return a.t == b.t
            return box(a, K_INT) == box(b, K_INT)
        if isinstance(a, StrV) and isinstance(b, StrV):
            return a.t == b.t
        if isinstance(a, TupleV) and isinstance(b, TupleV):
            if len(a.items) != len(b.items):
                return z3.BoolVal(False)
            return And(*[self.eq(x, y) for x, y in zip(a.items, b.items)])
        if isinstance(a, (ListV, TupleV)) and isinstance(b, (ListV, TupleV)):
            la = a if isinstance(a, ListV) else None
            lb = b if isinstance(b, ListV) else None
            ek = (la or lb).elem
            return box(a, KList(ek)) == box(b, KList(ek))
        if isinstance(a, OpaqueV) and isinstance(b, OpaqueV) and a.kind == b.kind:
            return a.t == b.t
        if isinstance(a, DictV) and isinstance(b, DictV) and a.kind == b.kind:
            # same key order not required by Python; we compare as sets of keys + values
            k = z3.FreshConst(a.kk.sort(), "k")
            return And(
                z3.Length(a.keys) == z3.Length(b.keys),
                z3.ForAll([k], z3.Contains(a.keys, z3.Unit(k)) == z3.Contains(b.keys, z3.Unit(k))),
                z3.ForAll([k], z3.Implies(z3.Contains(a.keys, z3.Unit(k)),
                                          z3.Select(a.vals, k) == z3.Select(b.vals, k))),
            )
        if isinstance(a, ObjV) and isinstance(b, ObjV) and a.cls == b.cls:
            return And(*[self.eq(a.fields[n], b.fields[n]) for n in a.fields])
        if isinstance(a, ConstV) and isinstance(b, ConstV):
            return z3.BoolVal(a.obj == b.obj)
        if isinstance(a, SetV) and isinstance(b, SetV) and a.elem == b.elem:
            return a.t == b.t
        # different python types are unequal
        simple = (IntV, BoolV, RealV, StrV, NoneV, ListV, TupleV, DictV)
        if isinstance(a, simple) and isinstance(b, simple):
            return z3.BoolVal(False)
        raise Unsupported(f"eq({type(a).__name__},{type(b).__name__})")

    # ------------------------------------------------------------------ expressions
    def eval(self, e: ast.expr, st: State) -> list[tuple[State, V]]:
        """Evaluate expression e; returns list of (state, value) where value may be RaiseV."""
        m = getattr(self, "e_" + type(e).__name__, None)
        if m is None:
            raise Unsupported(f"expression {type(e).__name__} (line {getattr(e, 'lineno', '?')})")
        return m(e, st)

    def eval_many(self, exprs, st: State) -> list[tuple[State, list | RaiseV]]:
        """Evaluate expressions left to right; list of (state, [values]) or (state, RaiseV)."""
        res = [(st, [])]
        for e in exprs:
            nxt = []
            for s, vals in res:
                if isinstance(vals, RaiseV):
                    nxt.append((s, vals))
                    continue
                for s2, v in self.eval(e, s):
                    if isinstance(v, RaiseV):
                        nxt.append((s2, v))
                    else:
                        nxt.append((s2, [*vals, v]))
            res = nxt
        return res

    def bind(self, results, fn):
        """Monadic bind: apply fn(state, value) to normal results, pass raises through."""
        out = []
        for s, v in results:
            if isinstance(v, RaiseV):
                out.append((s, v))
            else:
                out.extend(fn(s, v))
        return out

    def e_Constant(self, e, st):
        v = e.value
        if isinstance(v, (bool, int, str, float)) or v is None:
            return [(st, const_to_v(v))]
        if v is Ellipsis:
            return [(st, ConstV(Ellipsis))]
        raise Unsupported(f"constant {v!r}")

    def lookup(self, name: str, st: State) -> V:
        if name in st.vars:
            return st.vars[name]
        b = self.bm.BUILTINS.get(name)
        if b is not None:
            return b
        sp = self.registry.spec_value(name, self)
        if sp is not None:
            return sp
        if name in self.module_ns:
            return self.import_const(self.module_ns[name], name)
        import builtins

        if hasattr(builtins, name):
            return ConstV(getattr(builtins, name), name)
        raise Unsupported(f"unknown name {name!r}")

    def import_const(self, obj, name):
        """Real module-level object -> value (constants, tables, functions, classes)."""
        import enum
        import types

        if isinstance(obj, enum.Enum) and isinstance(obj, str):
            v = StrV(str(obj.value))
            v.pyobj = obj
            return v
        if isinstance(obj, (bool, int, str, float, tuple)) or obj is None:
            try:
                return const_to_v(obj)
            except Exception:
                return ConstV(obj, name)
        if isinstance(obj, (types.FunctionType, types.BuiltinFunctionType, type, types.ModuleType)):
            return ConstV(obj, name)
        if hasattr(obj, "__wrapped__") and callable(obj):  # lru_cache wrappers: identity decorator
            return ConstV(obj, name)
        return ConstV(obj, name)

    def e_Name(self, e, st):
        return [(st, self.lookup(e.id, st))]

    def e_Tuple(self, e, st):
        if any(isinstance(x, ast.Starred) for x in e.elts):
            raise Unsupported("starred in tuple")
        return [(s, v if isinstance(v, RaiseV) else TupleV(v)) for s, v in self.eval_many(e.elts, st)]

    def e_List(self, e, st):
        if any(isinstance(x, ast.Starred) for x in e.elts):
            raise Unsupported("starred in list")
        return [(s, v if isinstance(v, RaiseV) else TupleV(v, is_list=True))
                for s, v in self.eval_many(e.elts, st)]

    def e_Set(self, e, st):
        out = []
        for s, vals in self.eval_many(e.elts, st):
            if isinstance(vals, RaiseV):
                out.append((s, vals))
            else:
                out.append((s, self.bm.make_const_set(self, vals)))
        return out

    def e_Dict(self, e, st):
        if any(k is None for k in e.keys):
            raise Unsupported("dict unpacking in literal")
        out = []
        for s, vals in self.eval_many([*e.keys, *e.values], st):
            if isinstance(vals, RaiseV):
                out.append((s, vals))
                continue
            n = len(e.keys)
            if n == 1 and isinstance(vals[1], UnionV) and not (isinstance(vals[0], StrV) and z3.is_string_value(simp(vals[0].t))):
                # {key: value} with a symbolic key: one dict per feasible alternative of the value
                for s2, v1 in self.split(s, vals[1]):
                    out.append((s2, self.bm.make_dict_literal(self, vals[:1], [v1])))
                continue
            out.append((s, self.bm.make_dict_literal(self, vals[:n], vals[n:])))
        return out

    def e_JoinedStr(self, e, st):
        parts = []
        for p in e.values:
            if isinstance(p, ast.Constant):
                parts.append(p)
            elif isinstance(p, ast.FormattedValue):
                if p.format_spec is not None or p.conversion not in (-1, 115):
                    raise Unsupported("f-string format spec")
                parts.append(p.value)
        out = []
        for s, vals in self.eval_many(parts, st):
            if isinstance(vals, RaiseV):
                out.append((s, vals))
                continue
            strs = [self.bm.to_str(self, v) for v in vals]
            for combo_state, ts in self._combine_str_alts(s, strs):
                if not ts:
                    out.append((combo_state, StrV("")))
                elif len(ts) == 1:
                    out.append((combo_state, StrV(ts[0])))
                else:
                    out.append((combo_state, StrV(z3.Concat(*ts))))
        return out

    def _combine_str_alts(self, st, strs):
        return [(st, [s.t for s in strs])]

    def e_UnaryOp(self, e, st):
        def f(s, v):
            if isinstance(e.op, ast.Not):
                return [(s, BoolV(simp(z3.Not(self.truthy(v)))))]
            if isinstance(e.op, ast.USub):
                if isinstance(v, IntV):
                    return [(s, IntV(-v.t))]
                if isinstance(v, RealV):
                    return [(s, RealV(-v.t))]
            raise Unsupported(f"unary {type(e.op).__name__} on {type(v).__name__}")

        return self.bind(self.eval(e.operand, st), f)

    def e_BoolOp(self, e, st):
        is_and = isinstance(e.op, ast.And)
        guards = set()

        def go(i, s):
            res = self.eval(e.values[i], s)
            if i == len(e.values) - 1:
                return res
            out = []
            for s1, v in res:
                if isinstance(v, RaiseV):
                    out.append((s1, v))
                    continue
                c = simp(self.truthy(v))
                cont_c, stop_c = (c, z3.Not(c)) if is_and else (z3.Not(c), c)
                cont_c, stop_c = simp(cont_c), simp(stop_c)
                guards.add(cont_c.get_id())
                guards.add(stop_c.get_id())
                # pure boolean fast path: merge instead of forking when the rest is side-effect free
                if not z3.is_false(stop_c):
                    s_stop = s1.assume(stop_c)
                    if z3.is_true(stop_c) or self.feasible(s_stop):
                        out.append((s_stop, v))
                if not z3.is_false(cont_c):
                    s_cont = s1.assume(cont_c)
                    if z3.is_true(cont_c) or self.feasible(s_cont):
                        out.extend(go(i + 1, s_cont))
            return out

        res = go(0, st)
        return self._merge_bool_results(st, res, guards)

    def _merge_bool_results(self, st0, res, guards=None):
        """If all results are BoolV and states differ from st0 only by added path
        conditions, merge them into one BoolV (reduces path explosion)."""
        if len(res) <= 1:
            return res
        if not all(isinstance(v, BoolV) for _, v in res):
            return res
        n0 = len(st0.pc)
        for s, _ in res:
            if s.vars is not st0.vars and s.vars != st0.vars:
                return res
            if s.ghost != st0.ghost or s.pc[:n0] != st0.pc:
                return res
            if guards is not None and any(c.get_id() not in guards for c in s.pc[n0:]):
                # a path condition that is not one of this operator's own branch conditions (an assumption
                # from a callee's contract, an axiom on a fresh symbol): merging would turn it into a guard
                # that the solver may falsify, so the results are kept as separate paths
                return res
        t = None
        for s, v in reversed(res):
            g = And(*s.pc[n0:])
            t = v.t if t is None else z3.If(g, v.t, t)
        return [(st0, BoolV(simp(t)))]

    def e_IfExp(self, e, st):
        out = []
        for s, c in self.eval(e.test, st):
            if isinstance(c, RaiseV):
                out.append((s, c))
                continue
            t = simp(self.truthy(c))
            if not z3.is_false(t):
                s1 = s.assume(t)
                if z3.is_true(t) or self.feasible(s1):
                    out.extend(self.eval(e.body, s1))
            if not z3.is_true(t):
                s2 = s.assume(simp(z3.Not(t)))
                if z3.is_false(t) or self.feasible(s2):
                    out.extend(self.eval(e.orelse, s2))
        return self._merge_simple(st, out)

    def _merge_simple(self, st0, res):
        """Merge results of the same primitive kind produced under different added guards."""
        if len(res) <= 1:
            return res
        kinds = {type(v) for _, v in res}
        if len(kinds) != 1 or next(iter(kinds)) not in (IntV, BoolV, StrV, RealV):
            return res
        n0 = len(st0.pc)
        for s, _ in res:
            if s.vars != st0.vars or s.ghost != st0.ghost or s.pc[:n0] != st0.pc:
                return res
        cls = next(iter(kinds))
        t = None
        for s, v in reversed(res):
            g = And(*s.pc[n0:])
            t = v.t if t is None else z3.If(g, v.t, t)
        return [(st0, cls(simp(t)))]

    def e_BinOp(self, e, st):
        def f(s, vals):
            a, b = vals
            outs = []
            for s1, a1 in self.split(s, a):
                for s2, b1 in self.split(s1, b):
                    outs.append((s2, self.bm.binop(self, e.op, a1, b1, s2)))
            return outs

        return self.bind(self.eval_many([e.left, e.right], st), f)

    def e_Compare(self, e, st):
        def f(s, vals):
            conj = []
            for i, op in enumerate(e.ops):
                conj.append(self.bm.compare(self, op, vals[i], vals[i + 1], s))
            return [(s, BoolV(simp(And(*conj))))]

        return self.bind(self.eval_many([e.left, *e.comparators], st), f)

    def e_Attribute(self, e, st):
        def f(s, v):
            outs = []
            for s1, v1 in self.split(s, v):
                outs.extend(self.bm.get_attribute(self, s1, v1, e.attr, e))
            return outs

        return self.bind(self.eval(e.value, st), f)

    def e_Subscript(self, e, st):
        if isinstance(e.slice, ast.Slice):
            parts = [e.value]
            for p in (e.slice.lower, e.slice.upper, e.slice.step):
                parts.append(p if p is not None else ast.Constant(value=None))

            def f(s, vals):
                outs = []
                for s1, base in self.split(s, vals[0]):
                    outs.extend(self.bm.do_slice(self, s1, base, vals[1], vals[2], vals[3]))
                return outs

            return self.bind(self.eval_many(parts, st), f)

        def g(s, vals):
            outs = []
            for s1, base in self.split(s, vals[0]):
                for s2, idx in self.split(s1, vals[1]):
                    outs.extend(self.bm.index(self, s2, base, idx, e))
            return outs

        return self.bind(self.eval_many([e.value, e.slice], st), g)

    def e_Lambda(self, e, st):
        return [(st, ClosureV(e, dict(st.vars), "<lambda>"))]

    def e_Call(self, e, st):
        # method call on a name that mutates it -> handled here to rebind the receiver
        if any(isinstance(a, ast.Starred) for a in e.args) or any(k.arg is None for k in e.keywords):
            return self._call_with_unpacking(e, st)
        argexprs = [*e.args, *[k.value for k in e.keywords]]
        kwnames = [k.arg for k in e.keywords]

        if (isinstance(e.func, ast.Attribute) and isinstance(e.func.value, ast.Call)
                and isinstance(e.func.value.func, ast.Name) and e.func.value.func.id == "super"
                and not e.func.value.args and not e.func.value.keywords):
            return self._super_call(e, st, argexprs, kwnames)

        if isinstance(e.func, ast.Attribute):
            def f(s, vals):
                recv, args = vals[0], vals[1:]
                pos, kw = args[: len(e.args)], dict(zip(kwnames, args[len(e.args):]))
                outs = []
                for s1, r1 in self.split(s, recv):
                    outs.extend(self.bm.call_method(self, s1, r1, e.func.attr, pos, kw, e))
                return outs

            return self.bind(self.eval_many([e.func.value, *argexprs], st), f)

        def g(s, vals):
            fn, args = vals[0], vals[1:]
            pos, kw = args[: len(e.args)], dict(zip(kwnames, args[len(e.args):]))
            return self.call(s, fn, pos, kw, e)

        return self.bind(self.eval_many([e.func, *argexprs], st), g)

    def _super_call(self, e, st, argexprs, kwnames):
        """`super().meth(...)` inside a method under contract: the contract of the first class after the verified
        method's class in the *real* MRO that defines `meth` is applied to the same `self` (modular call)."""
        from . import extract

        c = getattr(self, "contract", None)
        if c is None or "." not in c.qualname or "self" not in st.vars:
            raise Unsupported("super() outside a method under contract")
        cls_name = c.qualname.split(".")[0]
        real = vars(extract.import_module(c.module)).get(cls_name)
        if not isinstance(real, type):
            raise Unsupported(f"super(): class {cls_name} not found")
        meth = e.func.attr
        target = None
        for base in real.__mro__[1:]:
            if meth in vars(base):
                target = self.registry.methods.get((base.__name__, meth))
                if target is None:
                    raise Unsupported(f"super().{meth}: {base.__name__}.{meth} has no contract")
                break
        if target is None:
            raise Unsupported(f"super().{meth}: no base class defines it")

        def f(s, vals):
            pos, kw = vals[: len(e.args)], dict(zip(kwnames, vals[len(e.args):]))
            return target.apply(self, s, [s.vars["self"], *pos], kw, e)

        return self.bind(self.eval_many(argexprs, st), f)

    def _call_with_unpacking(self, e, st):
        """f(*args, **kwargs) where the unpacked values are TupleV / concrete-key dicts."""
        exprs, layout = [], []
        for a in e.args:
            if isinstance(a, ast.Starred):
                exprs.append(a.value)
                layout.append("*")
            else:
                exprs.append(a)
                layout.append("p")
        for k in e.keywords:
            exprs.append(k.value)
            layout.append("**" if k.arg is None else ("k", k.arg))
        fexpr = e.func.value if isinstance(e.func, ast.Attribute) else e.func

        def f(s, vals):
            fn, rest = vals[0], vals[1:]
            pos, kw = [], {}
            extra_states = [(s, pos, kw)]
            for lay, v in zip(layout, rest):
                if lay == "p":
                    pos.append(v)
                elif lay == "*":
                    if isinstance(v, TupleV):
                        pos.extend(v.items)
                    elif isinstance(v, ListV):
                        from .dom_model import SplatV

                        pos.append(SplatV(v))  # accepted only by models that flatten it (node)
                    else:
                        raise Unsupported("*args of symbolic length")
                elif lay == "**":
                    items = self.bm.concrete_dict_items(self, v)
                    if items is None:
                        # symbolic kwargs: pass as a special marker for contract calls
                        kw["**"] = v
                    else:
                        for k2, v2 in items:
                            if k2 in kw:
                                return [(s, RaiseV("TypeError", StrV(f"duplicate keyword {k2}"), "dupkw"))]
                            kw[k2] = v2
                else:
                    kw[lay[1]] = v
            if isinstance(e.func, ast.Attribute):
                outs = []
                for s1, r1 in self.split(s, fn):
                    outs.extend(self.bm.call_method(self, s1, r1, e.func.attr, pos, kw, e))
                return outs
            return self.call(s, fn, pos, kw, e)

        return self.bind(self.eval_many([fexpr, *exprs], st), f)

    # ------------------------------------------------------------------ calls
    def call(self, st: State, fn: V, pos, kw, node=None) -> list[tuple[State, V]]:
        if isinstance(fn, FuncV):
            return fn.fn(self, st, pos, kw)
        if isinstance(fn, ClosureV):
            return self.inline_closure(st, fn, pos, kw)
        if isinstance(fn, ConstV):
            obj = fn.obj
            c = self.registry.contract_for_object(obj)
            if c is not None:
                return self.call_contract(st, c, pos, kw, node)
            m = self.bm.model_for_object(obj)
            if m is not None:
                return m(self, st, pos, kw)
            raise Unsupported(f"call to unmodelled {fn.name}")
        raise Unsupported(f"call of {type(fn).__name__}")

    def inline_closure(self, st: State, c: ClosureV, pos, kw) -> list[tuple[State, V]]:
        node = c.node
        if self.inline_depth > 6:
            raise Unsupported("inline depth")
        args = node.args
        if args.vararg or args.kwarg or args.posonlyargs:
            raise Unsupported("closure with *args/**kwargs")
        names = [a.arg for a in args.args] + [a.arg for a in args.kwonlyargs]
        env = dict(c.env)
        bound = {}
        for n, v in zip([a.arg for a in args.args], pos):
            bound[n] = v
        for k, v in kw.items():
            if k not in names or k in bound:
                return [(st, RaiseV("TypeError", StrV(f"bad keyword {k}"), "call"))]
            bound[k] = v
        defaults = dict(zip([a.arg for a in args.args][len(args.args) - len(args.defaults):], args.defaults))
        for a, d in zip(args.kwonlyargs, args.kw_defaults):
            if d is not None:
                defaults[a.arg] = d
        results = [(st, bound)]
        for n in names:
            if n not in bound:
                if n not in defaults:
                    return [(st, RaiseV("TypeError", StrV(f"missing argument {n}"), "call"))]
                nxt = []
                for s, b in results:
                    for s2, v in self.eval(defaults[n], State(env, s.pc, s.ghost)):
                        nxt.append((s, {**b, n: v}))
                results = nxt
        out = []
        self.inline_depth += 1
        is_gen = not isinstance(node, ast.Lambda) and any(
            isinstance(n, (ast.Yield, ast.YieldFrom)) for st_ in node.body for n in ast.walk(st_)
            if not isinstance(n, (ast.FunctionDef, ast.Lambda)))
        try:
            for s, b in results:
                inner = State({**env, **b}, s.pc, s.ghost)
                if is_gen:
                    # a generator function called from the analysed code: its body runs when the result is
                    # consumed; pyxform consumes every generator it creates exactly once and immediately
                    # (node(), tuple(), for), so it is evaluated eagerly here with its own yield list
                    outer_yield = s.ghost.get("yield")
                    inner.ghost["yield"] = []
                if isinstance(node, ast.Lambda):
                    for s2, v in self.eval(node.body, inner):
                        out.append((State(s.vars, s2.pc, s2.ghost), v))
                else:
                    for oc in self.exec_block(node.body, inner):
                        caller = State(s.vars, oc.state.pc, oc.state.ghost)
                        if is_gen:
                            from .dom_model import gen_value

                            ys = caller.ghost.pop("yield", [])
                            if outer_yield is not None:
                                caller.ghost["yield"] = outer_yield
                            if oc.kind in ("normal", "return"):
                                out.append((caller, gen_value(ys)))
                                continue
                        if oc.kind == "normal":
                            out.append((caller, NONE))
                        elif oc.kind == "return":
                            out.append((caller, oc.value))
                        elif oc.kind == "raise":
                            out.append((caller, oc.value))
                        else:
                            raise Unsupported("break/continue escaping function")
        finally:
            self.inline_depth -= 1
        return out

    def call_contract(self, st: State, c, pos, kw, node=None) -> list[tuple[State, V]]:
        """Modular call: assert requires, assume ensures (contracts.Contract.apply)."""
        return c.apply(self, st, pos, kw, node)

    # ------------------------------------------------------------------ comprehensions
    def e_ListComp(self, e, st):
        return self.bm.comprehension(self, st, e, "list")

    def e_GeneratorExp(self, e, st):
        return self.bm.comprehension(self, st, e, "gen")

    def e_SetComp(self, e, st):
        return self.bm.comprehension(self, st, e, "set")

    def e_DictComp(self, e, st):
        return self.bm.comprehension(self, st, e, "dict")

    # ------------------------------------------------------------------ statements
    def exec_block(self, stmts, st: State) -> list[Outcome]:
        outs = [Outcome("normal", st)]
        for stmt in stmts:
            nxt = []
            for oc in outs:
                if oc.kind != "normal":
                    nxt.append(oc)
                    continue
                nxt.extend(self.exec_stmt(stmt, oc.state))
            outs = nxt
            if len(outs) > self.max_paths:
                raise Unsupported(f"path explosion (> {self.max_paths}) at line {stmt.lineno}")
        return outs

    def exec_stmt(self, s: ast.stmt, st: State) -> list[Outcome]:
        m = getattr(self, "s_" + type(s).__name__, None)
        if m is None:
            raise Unsupported(f"statement {type(s).__name__} (line {s.lineno})")
        cuts = getattr(self, "cuts", None)
        if (cuts and isinstance(s, ast.Assign) and len(s.targets) == 1 and isinstance(s.targets[0], ast.Name)
                and s.targets[0].id in cuts and "_yield" in st.vars and not getattr(self, "spec_mode", False)):
            name = s.targets[0].id
            for k, inv in enumerate(cuts[name]):
                self.oblige("cut", f"{name}.{k}", st, self.eval_contract_expr(inv, st, {}, where=f"cut{k}"), s.lineno)
            y = st.vars["_yield"]
            st = st.bind("_yield", fresh(y.kind, "_yield_cut"))
            for inv in cuts[name]:
                st = st.assume(self.eval_contract_expr(inv, st, {}, where="assume"))
        return m(s, st)

    def _expr_outcomes(self, results, fn):
        outs = []
        for s, v in results:
            if isinstance(v, RaiseV):
                outs.append(Outcome("raise", s, v))
            else:
                outs.extend(fn(s, v))
        return outs

    def s_Pass(self, s, st):
        return [Outcome("normal", st)]

    def s_Expr(self, s, st):
        if isinstance(s.value, ast.Constant):  # docstring
            return [Outcome("normal", st)]
        if isinstance(s.value, (ast.Yield, ast.YieldFrom)):
            return self._yield(s.value, st)
        if isinstance(s.value, ast.Call) and isinstance(s.value.func, ast.Attribute):
            mu = self._mutating_call(s.value, st)
            if mu is not None:
                return mu
        return self._expr_outcomes(self.eval(s.value, st), lambda s2, v: [Outcome("normal", s2)])

    def _yield(self, y, st):
        if "_yield" in st.vars and "yield" not in st.ghost:
            return self._yield_symbolic(y, st)
        if "yield" not in st.ghost:
            raise Unsupported("yield outside generator contract")
        if isinstance(y, ast.Yield):
            def f(s2, v):
                return [Outcome("normal", self.bm.ghost_yield(self, s2, v))]
            return self._expr_outcomes(self.eval(y.value, st), f)
        def g(s2, v):
            return [Outcome("normal", self.bm.ghost_yield_from(self, s2, v))]
        return self._expr_outcomes(self.eval(y.value, st), g)

    def _yield_symbolic(self, y, st):
        """Generator under contract with a List[T] result: `_yield` accumulates the yielded values."""
        from .dom_model import SegGenV

        def add(s2, v):
            acc = s2.vars["_yield"]
            outs = []
            if isinstance(y, ast.Yield):
                for s3, v1 in self.split(s2, v):
                    if isinstance(v1, self.bm.LitDict) and any(isinstance(x, UnionV) for x in v1.items.values()):
                        # a record literal whose fields are unions: one outcome per feasible combination of alternatives
                        names = list(v1.items)
                        for s4, alts in self.split_all(s3, [v1.items[n] for n in names]):
                            v2 = self.bm.LitDict(dict(zip(names, alts)))
                            if not fits(v2, acc.elem):
                                raise Unsupported(f"yield of {v2.kind!r} into generator of {acc.elem!r}")
                            outs.append(Outcome("normal", s4.bind("_yield", ListV(acc.elem, z3.Concat(acc.t, z3.Unit(box(v2, acc.elem)))))))
                        continue
                    if isinstance(v1, TupleV) and any(isinstance(x, UnionV) for x in v1.items):
                        # a tuple whose components are unions: one outcome per feasible combination of alternatives
                        for s4, alts in self.split_all(s3, list(v1.items)):
                            v2 = TupleV(list(alts), v1.is_list)
                            if not fits(v2, acc.elem):
                                raise Unsupported(f"yield of {v2.kind!r} into generator of {acc.elem!r}")
                            outs.append(Outcome("normal", s4.bind("_yield", ListV(acc.elem, z3.Concat(acc.t, z3.Unit(box(v2, acc.elem)))))))
                        continue
                    if not fits(v1, acc.elem):
                        raise Unsupported(f"yield of {v1.kind!r} into generator of {acc.elem!r}")
                    if getattr(self, "pointwise_yield", False):
                        # opt-in (`pointwise_yield()`): the grown sequence is a fresh constant described position by
                        # position (equal to acc ++ [v]; easier for the solvers than nth over a concatenation)
                        r = z3.FreshConst(acc.t.sort(), "yld")
                        n0 = z3.Length(acc.t)
                        kq = z3.FreshConst(z3.IntSort(), "yk")
                        s5 = s3.assume(z3.Length(r) == n0 + 1).assume(r[n0] == box(v1, acc.elem))
                        s5 = s5.assume(z3.ForAll([kq], z3.Implies(And(kq >= 0, kq < n0), r[kq] == acc.t[kq])))
                        s5 = s5.assume(r == z3.Concat(acc.t, z3.Unit(box(v1, acc.elem))))
                        outs.append(Outcome("normal", s5.bind("_yield", ListV(acc.elem, r))))
                        continue
                    outs.append(Outcome("normal", s3.bind("_yield", ListV(acc.elem, z3.Concat(acc.t, z3.Unit(box(v1, acc.elem)))))))
                return outs
            for s3, v1 in self.split(s2, v):
                if isinstance(v1, (ListV, TupleV, SegGenV)) :
                    seq = box(v1, KList(acc.elem))
                    outs.append(Outcome("normal", s3.bind("_yield", ListV(acc.elem, z3.Concat(acc.t, seq)))))
                elif isinstance(v1, NoneV):
                    outs.append(Outcome("raise", s3, RaiseV("TypeError", None, f"yield from None L{y.lineno}")))
                else:
                    raise Unsupported(f"yield from {type(v1).__name__}")
            return outs

        if y.value is None:
            raise Unsupported("bare yield")
        return self._expr_outcomes(self.eval(y.value, st), add)

    def _mutating_call(self, call: ast.Call, st: State):
        """x.append(v) etc. where x is a Name (or self.attr): rebind the receiver."""
        meth = call.func.attr
        if meth not in MUTATORS:
            return None
        target = call.func.value
        path = self._lvalue_path(target)
        if path is None:
            return None
        if any(isinstance(a, ast.Starred) for a in call.args) or any(k.arg is None for k in call.keywords):
            raise Unsupported("unpacking in mutating call")
        argexprs = [*call.args, *[k.value for k in call.keywords]]
        kwnames = [k.arg for k in call.keywords]
        outs = []
        for s, vals in self.eval_many(argexprs, st):
            if isinstance(vals, RaiseV):
                outs.append(Outcome("raise", s, vals))
                continue
            pos, kw = vals[: len(call.args)], dict(zip(kwnames, vals[len(call.args):]))
            recv = self._read_path(s, path)
            for s1, r1 in self.split(s, recv):
                res = self.bm.mutate(self, s1, r1, meth, pos, kw, call)
                if res is None:
                    # not a mutator for this receiver type: plain method call
                    for s2, v in self.bm.call_method(self, s1, r1, meth, pos, kw, call):
                        outs.append(Outcome("raise", s2, v) if isinstance(v, RaiseV) else Outcome("normal", s2))
                    continue
                for s2, newrecv, ret in res:
                    if isinstance(ret, RaiseV):
                        outs.append(Outcome("raise", s2, ret))
                    else:
                        outs.append(Outcome("normal", self._write_path(s2, path, newrecv)))
        return outs

    def _lvalue_path(self, t):
        """Name or Name.attr.attr -> ['x','attr',...]; otherwise None."""
        if isinstance(t, ast.Name):
            return [t.id]
        if isinstance(t, ast.Attribute):
            p = self._lvalue_path(t.value)
            return None if p is None else [*p, t.attr]
        return None

    def _read_path(self, st, path):
        v = self.lookup(path[0], st)
        for a in path[1:]:
            if not isinstance(v, ObjV) or a not in v.fields:
                raise Unsupported(f"attribute path {'.'.join(path)}")
            v = v.fields[a]
        return v

    def _write_path(self, st, path, newv):
        if len(path) == 1:
            self._alias_check(st, path[0])
            return st.bind(path[0], newv)
        root = self.lookup(path[0], st)

        def upd(obj, rest):
            if len(rest) == 1:
                return obj.with_field(rest[0], newv)
            return obj.with_field(rest[0], upd(obj.fields[rest[0]], rest[1:]))

        if not isinstance(root, ObjV):
            raise Unsupported("attribute store on non-object")
        self._alias_check(st, path[0])
        return st.bind(path[0], upd(root, path[1:]))

    def _alias_check(self, st, name):
        cur = st.vars.get(name)
        if cur is None or isinstance(cur, (IntV, BoolV, StrV, NoneV, RealV, ConstV, FuncV)):
            return
        for n, v in st.vars.items():
            if n != name and v is cur:
                raise Unsupported(f"mutation of {name!r} while aliased by {n!r}")

    def s_Assign(self, s, st):
        # x = d.pop(k, default) and friends: a mutating method whose result is used
        if (isinstance(s.value, ast.Call) and isinstance(s.value.func, ast.Attribute) and s.value.func.attr in ("pop", "setdefault")
                and self._lvalue_path(s.value.func.value) is not None and len(s.targets) == 1
                and not any(isinstance(a, ast.Starred) for a in s.value.args) and not s.value.keywords):
            call = s.value
            path = self._lvalue_path(call.func.value)
            outs = []
            for s1, vals in self.eval_many(call.args, st):
                if isinstance(vals, RaiseV):
                    outs.append(Outcome("raise", s1, vals))
                    continue
                recv = self._read_path(s1, path)
                for s2, r2 in self.split(s1, recv):
                    res = self.bm.mutate(self, s2, r2, call.func.attr, vals, {}, call)
                    if res is None:
                        raise Unsupported(f"{call.func.attr} on {type(r2).__name__}")
                    for s3, newrecv, ret in res:
                        if isinstance(ret, RaiseV):
                            outs.append(Outcome("raise", s3, ret))
                        else:
                            outs.extend(self.assign(s.targets[0], ret, self._write_path(s3, path, newrecv)))
            return outs

        def f(s2, v):
            outs = [Outcome("normal", s2)]
            for tgt in s.targets:
                nxt = []
                for oc in outs:
                    nxt.extend(self.assign(tgt, v, oc.state) if oc.kind == "normal" else [oc])
                outs = nxt
            return outs

        return self._expr_outcomes(self.eval(s.value, st), f)

    def s_AnnAssign(self, s, st):
        if s.value is None:
            return [Outcome("normal", st)]
        return self._expr_outcomes(self.eval(s.value, st), lambda s2, v: self.assign(s.target, v, s2))

    def assign(self, tgt, v: V, st: State) -> list[Outcome]:
        if isinstance(tgt, ast.Name):
            if isinstance(v, (ListV, DictV, ObjV, SetV)) and any(x is v for x in st.vars.values()):
                # `a = b` for a mutable value: keep identity so that the alias check can see it
                pass
            return [Outcome("normal", st.bind(tgt.id, v))]
        if isinstance(tgt, (ast.Tuple, ast.List)):
            outs = []
            for s1, v1 in self.split(st, v):
                if isinstance(v1, TupleV):
                    if len(v1.items) != len(tgt.elts):
                        outs.append(Outcome("raise", s1, RaiseV("ValueError", None, "unpack")))
                        continue
                    cur = [Outcome("normal", s1)]
                    for t, item in zip(tgt.elts, v1.items):
                        nxt = []
                        for oc in cur:
                            nxt.extend(self.assign(t, item, oc.state) if oc.kind == "normal" else [oc])
                        cur = nxt
                    outs.extend(cur)
                else:
                    raise Unsupported(f"unpacking {type(v1).__name__}")
            return outs
        if isinstance(tgt, ast.Attribute):
            path = self._lvalue_path(tgt)
            if path is None:
                raise Unsupported("attribute store target")
            root = self.lookup(path[0], st)
            if not isinstance(root, ObjV):
                raise Unsupported("attribute store on non-object")
            hook = self.registry.setattr_hook(root.cls)
            if hook is not None:
                return hook(self, st, path, v)
            return [Outcome("normal", self._write_path(st, path, v))]
        if isinstance(tgt, ast.Subscript):
            path = self._lvalue_path(tgt.value)
            if path is None:
                raise Unsupported("subscript store on complex target")
            if isinstance(tgt.slice, ast.Slice):
                raise Unsupported("slice store")

            def f(s2, idx0):
                recv = self._read_path(s2, path)
                outs = []
                for s3, (r3, idx) in self.split_all(s2, [recv, idx0]):
                    for s4, newrecv, ret in self.bm.setitem(self, s3, r3, idx, v, tgt):
                        if isinstance(ret, RaiseV):
                            outs.append(Outcome("raise", s4, ret))
                        else:
                            outs.append(Outcome("normal", self._write_path(s4, path, newrecv)))
                return outs

            return self._expr_outcomes(self.eval(tgt.slice, st), f)
        raise Unsupported(f"assignment target {type(tgt).__name__}")

    def s_AugAssign(self, s, st):
        load = ast.copy_location(ast.BinOp(left=self._as_load(s.target), op=s.op, right=s.value), s)
        ast.fix_missing_locations(load)
        return self._expr_outcomes(self.eval(load, st), lambda s2, v: self.assign(s.target, v, s2))

    def _as_load(self, t):
        import copy

        t2 = copy.deepcopy(t)
        for n in ast.walk(t2):
            if hasattr(n, "ctx"):
                n.ctx = ast.Load()
        return t2

    def s_Return(self, s, st):
        if s.value is None:
            return [Outcome("return", st, NONE)]
        return self._expr_outcomes(self.eval(s.value, st), lambda s2, v: [Outcome("return", s2, v)])

    def s_Raise(self, s, st):
        if s.exc is None:
            cur = st.ghost.get("handling")
            if cur is None:
                raise Unsupported("bare raise outside handler")
            return [Outcome("raise", st, cur)]
        return self._expr_outcomes(
            self.eval(s.exc, st), lambda s2, v: [Outcome("raise", s2, self.bm.as_exception(self, v))]
        )

    def s_Assert(self, s, st):
        def f(s2, v):
            c = simp(self.truthy(v))
            self.oblige("assert", f"L{s.lineno - self.line0}", s2, c, s.lineno)
            return [Outcome("normal", s2.assume(c))]

        return self._expr_outcomes(self.eval(s.test, st), f)

    def s_If(self, s, st):
        outs = self._s_If(s, st)
        if getattr(self, "merge_paths", False) and not getattr(self, "spec_mode", False):
            outs = self._merge_normal(st, outs)
        return outs

    def _merge_normal(self, st0, outs):
        """Join the normal outcomes of one statement executed from st0 into a single state: path condition =
        st0.pc + [disjunction of the branches' extra conditions]; a variable that differs between branches becomes an
        ite term (same kind) or a union value guarded by the branch conditions.  Exact (no abstraction)."""
        from .kinds import unbox

        normal = [o for o in outs if o.kind == "normal"]
        if len(normal) < 2:
            return outs
        n0 = len(st0.pc)
        for o in normal:
            if len(o.state.pc) < n0 or any(a is not b for a, b in zip(o.state.pc[:n0], st0.pc)):
                return outs
            if o.state.ghost.keys() != normal[0].state.ghost.keys() or any(
                    o.state.ghost[k] is not normal[0].state.ghost[k] for k in o.state.ghost):
                return outs
        guards = [And(*o.state.pc[n0:]) for o in normal]
        names = set(normal[0].state.vars)
        for o in normal[1:]:
            names &= set(o.state.vars)
        merged = {}
        for n in normal[0].state.vars:
            if n not in names:
                continue
            vals = [o.state.vars[n] for o in normal]
            if all(v is vals[0] for v in vals):
                merged[n] = vals[0]
                continue
            v0 = vals[0]
            same_kind = False
            if not isinstance(v0, (UnionV, ConstV, FuncV, ClosureV)) and not isinstance(v0, self.bm.LitDict):
                try:
                    k = v0.kind
                    same_kind = all(type(v) is type(v0) and v.kind == k for v in vals)
                except Exception:  # noqa: BLE001
                    same_kind = False
            if same_kind:
                try:
                    t = box(vals[-1], k)
                    for g, v in zip(reversed(guards[:-1]), reversed(vals[:-1])):
                        t = z3.If(g, box(v, k), t)
                    merged[n] = unbox(t, k)
                    continue
                except Unsupported:
                    pass
            # group identical objects so that a union has one alternative per distinct value
            alts = []
            for g, v in zip(guards, vals):
                for i, (g2, v2) in enumerate(alts):
                    if v2 is v:
                        alts[i] = (Or(g2, g), v2)
                        break
                else:
                    alts.append((g, v))
            merged[n] = UnionV(alts)
        ms = State(merged, [*st0.pc, Or(*guards)], normal[0].state.ghost, normal[0].state.notes)
        return [Outcome("normal", ms), *[o for o in outs if o.kind != "normal"]]

    def _s_If(self, s, st):
        outs = []
        for s1, c in self.eval(s.test, st):
            if isinstance(c, RaiseV):
                outs.append(Outcome("raise", s1, c))
                continue
            t = simp(self.truthy(c))
            if not z3.is_false(t):
                sa = s1.assume(t)
                if z3.is_true(t) or self.feasible(sa):
                    outs.extend(self.exec_block(s.body, sa))
            if not z3.is_true(t):
                sb = s1.assume(simp(z3.Not(t)))
                if z3.is_false(t) or self.feasible(sb):
                    outs.extend(self.exec_block(s.orelse, sb))
        return outs

    def s_Break(self, s, st):
        return [Outcome("break", st)]

    def s_Continue(self, s, st):
        return [Outcome("continue", st)]

    def s_FunctionDef(self, s, st):
        # a nested function may have its own contract (qualname Outer.<locals>.inner): then calls use the contract
        c = None
        if getattr(self, "contract", None) is not None:
            c = self.registry.contracts.get(f"{self.contract.module}.{self.contract.qualname}.<locals>.{s.name}")
        if c is not None:
            captured = dict(st.vars)

            def call(eng, st2, pos, kw, c=c):
                return c.apply(eng, st2, pos, kw, None, closure_env={**captured, **st2.vars})

            return [Outcome("normal", st.bind(s.name, FuncV(call, s.name)))]
        return [Outcome("normal", st.bind(s.name, ClosureV(s, dict(st.vars), s.name)))]

    def s_Import(self, s, st):
        raise Unsupported("import inside function")

    def s_ImportFrom(self, s, st):
        import importlib

        mod = importlib.import_module(s.module)
        st2 = st.fork()
        for a in s.names:
            st2.vars[a.asname or a.name] = self.import_const(getattr(mod, a.name), a.name)
        return [Outcome("normal", st2)]

    def s_Delete(self, s, st):
        outs = [Outcome("normal", st)]
        for t in s.targets:
            nxt = []
            for oc in outs:
                if oc.kind != "normal":
                    nxt.append(oc)
                    continue
                if not isinstance(t, ast.Subscript):
                    raise Unsupported("del of non-subscript")
                path = self._lvalue_path(t.value)
                if path is None:
                    raise Unsupported("del target")

                def f(s2, idx, path=path, t=t):
                    recv = self._read_path(s2, path)
                    res = []
                    for s3, r3 in self.split(s2, recv):
                        for s4, newrecv, ret in self.bm.delitem(self, s3, r3, idx, t):
                            if isinstance(ret, RaiseV):
                                res.append(Outcome("raise", s4, ret))
                            else:
                                res.append(Outcome("normal", self._write_path(s4, path, newrecv)))
                    return res

                nxt.extend(self._expr_outcomes(self.eval(t.slice, oc.state), f))
            outs = nxt
        return outs

    # --- try / with
    def s_Try(self, s, st):
        body = self.exec_block(s.body, st)
        outs = []
        for oc in body:
            if oc.kind == "raise":
                handled = False
                remaining = oc.state
                for h in s.handlers:
                    match = self.bm.exc_matches(self, oc.value, h.type, remaining)
                    if match is True:
                        hs = remaining.fork()
                        hs.ghost["handling"] = oc.value
                        if h.name:
                            hs.vars[h.name] = self.bm.exc_object(self, oc.value)
                        for ho in self.exec_block(h.body, hs):
                            ho.state.ghost.pop("handling", None)
                            outs.append(ho)
                        handled = True
                        break
                    if match is False:
                        continue
                    raise Unsupported("symbolic exception class match")
                if not handled:
                    outs.append(oc)
            elif oc.kind == "normal" and s.orelse:
                outs.extend(self.exec_block(s.orelse, oc.state))
            else:
                outs.append(oc)
        if s.finalbody:
            final = []
            for oc in outs:
                for fo in self.exec_block(s.finalbody, oc.state):
                    if fo.kind == "normal":
                        final.append(Outcome(oc.kind, fo.state, oc.value))
                    else:
                        final.append(fo)
            outs = final
        return outs

    def s_With(self, s, st):
        return self.bm.with_stmt(self, s, st)

    # --- loops
    def s_For(self, s, st):
        from .loops import exec_for

        return exec_for(self, s, st)

    def s_While(self, s, st):
        from .loops import exec_while

        return exec_while(self, s, st)
