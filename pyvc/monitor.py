"""Run-time contract monitor: the *proved* tree-layer contracts evaluated natively on real pyxform objects.

The prover shows "body satisfies contract" over abstractions (record views, the DOM value model, uninterpreted
traversal/substitution functions).  This module wraps the real methods while a corpus of forms is converted and
evaluates the very same contract clauses in CPython, with the abstractions replaced by the real things (real survey
elements, real minidom nodes, the real callees).  A clause that the prover discharged but that fails here exposes an
unsound encoding (or an abstraction that does not match the code) — it is the CPython cross-check of DESIGN §2.5 for
the kernels that have no plain-data generator.  Bounded; never counted as proved.

    python -m pyvc.monitor [--tier quick|thorough]        (VERIF_REPO, VERIF_SEED respected)
"""
from __future__ import annotations

import copy
import json
import os
import sys
import time
import traceback

REPO = os.environ.get("VERIF_REPO", "/repo")
sys.path.insert(0, REPO)

from . import native, vcheck  # noqa: E402


# ---------------------------------------------------------------- views of real objects


class NodeView:
    """A minidom node seen through the observers of the DOM value model (tagName, nodeType, attrs, kids, data).
    Equality is structural (same serialisation): specification functions rebuild nodes by calling the real callees."""

    def __init__(self, n):
        self._n = n

    @property
    def nodeType(self):
        return self._n.nodeType

    @property
    def tagName(self):
        return getattr(self._n, "tagName", "")

    @property
    def data(self):
        return getattr(self._n, "data", "")

    @property
    def attrs(self):
        a = getattr(self._n, "_attrs", None) or {}
        return {k: v.value for k, v in a.items()}

    @property
    def kids(self):
        return [NodeView(c) for c in self._n.childNodes]

    childNodes = kids

    def _key(self):
        return self._n.toxml() if hasattr(self._n, "toxml") else repr(self._n)

    def __eq__(self, o):
        return isinstance(o, NodeView) and self._key() == o._key()

    def __hash__(self):
        return hash(self._key())

    def __repr__(self):
        return f"Node({self._key()[:120]})"


class RecView:
    """A real pyxform object seen as the record the contract declares: a declared slot that the object's class
    does not have reads as None (the prover's record always has the field); `overrides` holds entry values of the
    fields the call may modify.  Everything else is the real object's."""

    def __init__(self, obj, fields=(), overrides=None):
        object.__setattr__(self, "_o", obj)
        object.__setattr__(self, "_fields", tuple(fields))
        object.__setattr__(self, "_over", dict(overrides or {}))

    def __getattr__(self, name):
        if name in self._over:
            return self._over[name]
        if name in self._fields:
            return getattr(self._o, name, None)
        return getattr(self._o, name)

    def __eq__(self, o):
        return _unview(o) is self._o

    def __hash__(self):
        return id(self._o)

    def __repr__(self):
        return f"Rec({type(self._o).__name__} {getattr(self._o, 'name', '')!r})"


class RefView:
    """A survey element seen as a reference (opaque kind): equality is identity (SurveyElement.__eq__ compares dumps),
    attributes that hold elements are references again."""

    def __init__(self, obj):
        object.__setattr__(self, "_o", obj)

    def __getattr__(self, name):
        v = getattr(self._o, name)
        return RefView(v) if _is_element(v) else v

    def __eq__(self, o):
        return _unview(o) is self._o

    def __hash__(self):
        return id(self._o)

    def __bool__(self):
        return True

    def __repr__(self):
        return f"Ref({type(self._o).__name__} {getattr(self._o, 'name', '')!r})"


def _is_element(v):
    from pyxform.survey_element import SurveyElement

    return isinstance(v, SurveyElement)


class AttrView:
    """A plain result object (InstanceInfo) whose attribute values are seen through view()."""

    def __init__(self, obj):
        object.__setattr__(self, "_o", obj)

    def __getattr__(self, name):
        return view(getattr(self._o, name))

    def __repr__(self):
        return f"View({self._o!r})"


class SnapView(NodeView):
    """Entry-state snapshot of a node the call may modify (cloneNode needs an owner document; pyxform's nodes are detached)."""

    def __init__(self, n):  # noqa: D107
        nv = NodeView(n)
        self._n = n
        self._s = {"nodeType": nv.nodeType, "tagName": nv.tagName, "data": nv.data, "attrs": dict(nv.attrs),
                   "kids": list(nv.kids), "key": nv._key()}

    nodeType = property(lambda self: self._s["nodeType"])
    tagName = property(lambda self: self._s["tagName"])
    data = property(lambda self: self._s["data"])
    attrs = property(lambda self: self._s["attrs"])
    kids = property(lambda self: self._s["kids"])
    childNodes = kids

    def _key(self):
        return self._s["key"]


def fits(v, kind, depth=3):
    """The real value is an inhabitant of the contract's kind (the type invariant the prover assumes of a parameter).
    Opaque, record and callable kinds accept anything; containers are checked `depth` levels deep."""
    from . import kinds as K

    v = _unview(v)
    if depth == 0:
        return True
    if kind == K.K_NONE:
        return v is None
    if kind == K.K_BOOL:
        return isinstance(v, bool)
    if kind == K.K_INT:
        return isinstance(v, int) and not isinstance(v, bool)
    if kind == K.K_STR:
        return isinstance(v, str)
    if kind == K.K_REAL:
        return isinstance(v, float)
    if isinstance(kind, K.KOpt):
        return v is None or fits(v, kind.elem, depth)
    if isinstance(kind, K.KUnion):
        return any(fits(v, a, depth) for a in kind.alts)
    if isinstance(kind, K.KList):
        return isinstance(v, list | tuple) and all(fits(x, kind.elem, depth - 1) for x in v)
    if isinstance(kind, K.KDict):
        return isinstance(v, dict) and all(fits(a, kind.key, depth - 1) and fits(b, kind.val, depth - 1) for a, b in v.items())
    if isinstance(kind, K.KTuple):
        return isinstance(v, tuple) and len(v) == len(kind.items) and all(fits(x, k, depth - 1) for x, k in zip(v, kind.items))
    if isinstance(kind, K.KSet):
        return isinstance(v, set | frozenset)
    if isinstance(kind, K.KObj):
        return all(fits(getattr(v, f, None), fk, depth - 1) for f, fk in kind.fields.items())
    return True


def view(v):
    from xml.dom.minidom import Node
    import types

    if isinstance(v, Node):
        return NodeView(v)
    if _is_element(v):
        return RefView(v)
    if type(v).__name__ == "InstanceInfo":
        return AttrView(v)
    if isinstance(v, tuple) and any(_is_element(x) for x in v):
        return tuple(view(x) for x in v)
    if isinstance(v, types.GeneratorType):
        return [view(x) for x in v if x is not None]
    if isinstance(v, (list, tuple)) and any(isinstance(x, Node) for x in v):
        return type(v)(view(x) for x in v)
    return v


def survey_of(e):
    while getattr(e, "parent", None) is not None:
        e = e.parent
    return e


def _unview(x):
    if isinstance(x, NodeView):
        return x._n
    if isinstance(x, RecView | RefView | AttrView):
        return x._o
    return x


# ---------------------------------------------------------------- native meaning of the uninterpreted specification symbols


def monitor_env():
    import pyxform.survey as S
    from pyxform.utils import default_is_dynamic

    def descendants(root, src):
        cond = eval(src, vars(S))  # noqa: S307  the filter's own source text, evaluated in pyxform.survey's namespace
        return list(root.iter_descendants(cond))

    def is_a(e, name):
        return any(c.__name__ == name for c in type(e).__mro__)

    universe: list = []
    elements: list = []     # every element of the tree the current call belongs to (range of forall_of)

    def forall_str(fn):
        return all(fn(s) for s in list(universe))

    def parsed_kids(tag, text):
        from defusedxml.minidom import parseString

        doc = parseString(f'<?xml version="1.0" ?><{tag}>{text}</{tag}>'.encode()).documentElement
        return [NodeView(c) for c in doc.childNodes]

    def U(f):
        return lambda *a: f(*[_unview(x) for x in a])

    env = {
        "Descendants": descendants,
        "XPathOf": lambda e: e.get_xpath(),
        "Subst": lambda s, text, ctx: s.insert_xpaths(text, ctx),
        "SubstF": lambda s, text, ctx, cur, par: s.insert_xpaths(text, ctx, cur, par),
        "SubstIn": lambda s, text, ctx: s.insert_xpaths(text, ctx),
        "IsDynamic": lambda d, t: default_is_dynamic(d, t),
        "IovText": lambda s, text, ctx: s.insert_output_values(text, ctx)[0],
        "IovFlag": lambda s, text, ctx: s.insert_output_values(text, ctx)[1],
        "ElemBinds": lambda e: view(e.xml_bindings(survey=survey_of(e))) or [],
        "ElemDynDefault": lambda e: view(e.get_setvalue_node_for_dynamic_default(survey=survey_of(e))),
        "RepeatAncestors": lambda e: list(e.iter_ancestors(condition=lambda i: i.type == "repeat")),
        "ChildInst": lambda c, tmpl: view(c.xml_instance(survey=survey_of(c), append_template=tmpl)),
        "TemplateInst": lambda c: view(c.template_instance(survey=survey_of(c))),
        "TemplateNode": lambda c: view(c.generate_repeating_template(survey=survey_of(c))),
        "FlatKids": lambda c: view(c.xml_instance_array(survey=survey_of(c))),
        "ElemFlat": lambda c: c.get("flat") if hasattr(c, "flat") else None,
        "HintNode": lambda e, s: view(e.xml_hint(survey=s)),
        "SectionInstance": lambda sec, s: view(type(sec).__mro__[[c.__name__ for c in type(sec).__mro__].index("Section")].xml_instance(sec, survey=s)),
        "SplitExt": lambda p: __import__("os").path.splitext(p),
        "TagXml": lambda t: view(t.xml(survey=survey_of(t))),
        "BuiltControl": lambda q, s: view(q.build_xml(survey=s)),
        "ChildControl": lambda c: view(c.xml_control(survey=survey_of(c))),
        "LabelNode": lambda e, s: view(e.xml_label(survey=s)),
        "RepeatDynDefaults": lambda e: view(list(e._dynamic_defaults_helper(current=e, survey=survey_of(e)))),
        "ParsedKids": parsed_kids,
        "is_a": is_a,
        "has_attr": lambda e, a: hasattr(e, a),
        "ctx_of": lambda x: x,
        "some": lambda x: x,
        "same": lambda a, b: a == b and (not isinstance(a, dict) or list(a) == list(b)),
        "forall_str": forall_str,
        "forall_of": lambda kind, fn: all(fn(RefView(e)) for e in elements),
        "Depth": lambda e: sum(1 for _ in _unview(e).iter_ancestors()),
        "_elements": elements,
        "strip": lambda s: s.strip(),
        "_universe": universe,
    }
    for k in ("Descendants", "XPathOf", "Subst", "SubstF", "SubstIn", "IovText", "IovFlag", "ElemBinds", "ElemDynDefault",
              "RepeatAncestors", "ChildInst", "TemplateInst", "TemplateNode", "FlatKids", "ElemFlat",
              "SectionInstance", "is_a", "has_attr", "HintNode", "ChildControl", "LabelNode", "RepeatDynDefaults", "BuiltControl", "TagXml"):
        env[k] = U(env[k])
    return env


# contracts monitored: fid -> (class path, method)
MONITORED = [
    "pyxform.survey_element.SurveyElement.xml_bindings",
    "pyxform.survey_element.SurveyElement.get_setvalue_node_for_dynamic_default",
    "pyxform.survey_element.SurveyElement.xml_label",
    "pyxform.survey_element.SurveyElement.xml_hint",
    "pyxform.survey_element.SurveyElement.needs_itext_ref",
    "pyxform.survey_element.SurveyElement._translation_path",
    "pyxform.survey_element.SurveyElement.xml_label_and_hint",
    "pyxform.question.Question.xml_instance",
    "pyxform.question.Question.xml_action",
    "pyxform.question.Question._build_xml",
    "pyxform.question.Question.nest_set_nodes",
    "pyxform.section.Section.xml_instance",
    "pyxform.section.Section.generate_repeating_template",
    "pyxform.section.Section._validate_uniqueness_of_element_names",
    "pyxform.survey.Survey._setup_xpath_dictionary",
    "pyxform.survey.Survey.xml_instance",
    "pyxform.survey.Survey.xml_descendent_bindings",
    "pyxform.survey_element.SurveyElement.has_common_repeat_parent",
    "pyxform.survey.Survey._generate_static_instances",
    "pyxform.survey.Survey._generate_external_instances",
    "pyxform.survey.Survey._generate_from_file_instances",
    "pyxform.survey.Survey._get_last_saved_instance",
    "pyxform.question.Question.xml_control",
    "pyxform.question.MultipleChoiceQuestion.build_xml",
    "pyxform.question.InputQuestion.build_xml",
    "pyxform.question.OsmUploadQuestion.build_xml",
    "pyxform.question.Tag.xml",
    "pyxform.question.TriggerQuestion.build_xml",
    "pyxform.question.UploadQuestion.build_xml",
    "pyxform.question.RangeQuestion.build_xml",
    "pyxform.question.Question._validate_is_not_a_trigger",
    "pyxform.survey.Survey.get_trigger_values_for_question_name",
    "pyxform.section.Section.xml_control",
    "pyxform.section.GroupedSection.xml_control",
    "pyxform.section.RepeatingSection.xml_control",
]


class Monitor:
    def __init__(self, reg, only=None):
        self.only = only
        self.adapter_errors = []
        self.reg = reg
        self.base = native.base_env(reg)
        self.base.update(monitor_env())
        self.universe = self.base["_universe"]
        self.stats: dict = {}
        self.failures: list = []
        self.busy = False
        self.installed: list = []

    def collect_strings(self, *vals):
        seen, out, stack = set(), [], list(vals)
        n = 0
        while stack and n < 400:
            v = stack.pop()
            n += 1
            if isinstance(v, dict):
                for k, x in v.items():
                    if isinstance(k, str) and k not in seen:
                        seen.add(k)
                        out.append(k)
                    stack.append(x)
            elif isinstance(v, NodeView):
                stack.append(v.attrs)
            elif hasattr(v, "__slots__") or hasattr(v, "__dict__"):
                for a in ("bind", "control", "instance", "action", "attribute", "_xpath"):
                    try:
                        x = getattr(v, a, None)
                    except Exception:  # noqa: BLE001
                        x = None
                    if isinstance(x, dict):
                        stack.append(x)
        out += ["nodeset", "ref", "calculate", "id", "version", "zz-not-a-key"]
        return out

    def install(self):
        import importlib

        for fid in MONITORED:
            c = self.reg.contracts.get(fid)
            if c is None or c.trusted or (self.only is not None and not self.only(c)):
                continue
            mod = importlib.import_module(c.module)
            cls_name, meth = c.qualname.rsplit(".", 1)
            cls = getattr(mod, cls_name)
            real = cls.__dict__.get(meth)
            if real is None:
                continue
            is_static = isinstance(real, staticmethod)
            fn = real.__func__ if is_static else real
            nc = native.NativeContract(c, self.reg, self.base)
            w = self._wrap(fid, c, nc, fn)
            setattr(cls, meth, staticmethod(w) if is_static else w)
            self.installed.append((cls, meth, real))
            self.stats[fid] = {"calls": 0, "evaluated": 0, "skipped_pre": 0, "raised": 0}

    def uninstall(self):
        for cls, meth, real in self.installed:
            setattr(cls, meth, real)
        self.installed = []

    def _wrap(self, fid, c, nc, fn):
        mon = self
        names = [p[0] for p in c.params]

        def wrapper(*args, **kw):
            if mon.busy:
                return fn(*args, **kw)
            st = mon.stats[fid]
            st["calls"] += 1
            try:
                bound = dict(zip(names, args))
                extra_kw = {}
                for k, v in kw.items():
                    if k in names:
                        bound[k] = v
                    else:
                        extra_kw[k] = v
                for (n, _k, d) in c.params:
                    if n not in bound and d is not None:
                        import ast as _ast

                        bound[n] = _ast.literal_eval(d)
                if c.kwarg is not None:
                    bound[c.kwarg[0]] = dict(extra_kw)
                env = dict(mon.base)
                from .kinds import KObj, KOpaque

                kinds = {n: k for n, k, _ in c.params}
                # entry view of every parameter; record kinds read missing slots as None; fields the call may modify are
                # snapshotted (one level) so that `self` keeps meaning the entry state
                old = {}
                for n, v in bound.items():
                    over = {}
                    for fld in getattr(c, "modifies_fields", {}).get(n, []):
                        try:
                            over[fld] = copy.copy(getattr(v, fld))
                        except Exception:  # noqa: BLE001
                            pass
                    if hasattr(v, "cloneNode") and n in getattr(c, "modifies_fields", {}):
                        old[n] = SnapView(v)
                    elif isinstance(kinds.get(n), KObj):
                        old[n] = RecView(v, kinds[n].fields, over)
                    else:
                        old[n] = v
                env.update({k: view(v) for k, v in old.items()})
                plain = not all(fits(v, kinds[n]) for n, v in bound.items() if n in kinds)
                if plain:
                    st["skipped_kind"] = st.get("skipped_kind", 0) + 1
                else:
                    mon.universe[:] = mon.collect_strings(*bound.values())
                    if any(isinstance(k, KOpaque) and k.name == "ERef" for k in kinds.values()):
                        root = next(v for n, v in bound.items() if _is_element(v))
                        while getattr(root, "parent", None) is not None:
                            root = root.parent
                        mon.base["_elements"][:] = [root, *[e for e in root.iter_descendants(iter_into_section_items=True) if e is not root]]
            except Exception as e:  # noqa: BLE001  (an adapter error must never change the conversion's behaviour)
                st["adapter_errors"] = st.get("adapter_errors", 0) + 1
                mon.adapter_errors.append(f"{fid} (entry): {type(e).__name__}: {e} {traceback.format_exc()[-500:]}")
                plain = True
            if plain:
                return fn(*args, **kw)
            mon.busy = True
            try:
                try:
                    for kind, gname, _txt, code in nc.pre_items:
                        if kind == "ghost":
                            try:
                                env[gname] = eval(code, env)  # noqa: S307
                            except Exception:  # noqa: BLE001
                                env[gname] = None
                        elif not eval(code, env):  # noqa: S307
                            raise native.Skip()
                except native.Skip:
                    st["skipped_pre"] += 1
                    mon.busy = False
                    return fn(*args, **kw)
                except Exception:  # noqa: BLE001
                    st["skipped_pre"] += 1
                    mon.busy = False
                    return fn(*args, **kw)
            finally:
                mon.busy = False
            try:
                result = fn(*args, **kw)
            except BaseException as e:  # noqa: BLE001
                st["raised"] += 1
                allowed = any(type(e).__name__ == cls or cls in [b.__name__ for b in type(e).__mro__] for cls, _w, _c2, _x in nc.raises)
                if not allowed:
                    mon.fail(fid, "raises/safety", f"{type(e).__name__}: {e}", bound)
                raise
            import types as _t

            materialised = list(result) if isinstance(result, _t.GeneratorType) else result
            mon.busy = True
            try:
                env["result"] = view(materialised)
                for n, v in bound.items():
                    env["final_" + n] = RecView(v, kinds[n].fields) if isinstance(kinds.get(n), KObj) else view(v)
                mon.universe[:] = mon.collect_strings(*bound.values(), env["result"])
                for txt, code in nc.ensures:
                    try:
                        ok = eval(code, env)  # noqa: S307
                    except Exception as e:  # noqa: BLE001
                        mon.fail(fid, txt, f"clause raised {type(e).__name__}: {e}", bound, tb=traceback.format_exc()[-600:])
                        continue
                    if not ok:
                        mon.fail(fid, txt, "false", bound)
                st["evaluated"] += 1
            except Exception as e:  # noqa: BLE001  (an adapter error must never change the conversion's behaviour)
                st["adapter_errors"] = st.get("adapter_errors", 0) + 1
                mon.adapter_errors.append(f"{fid}: {type(e).__name__}: {e} {traceback.format_exc()[-500:]}")
            finally:
                mon.busy = False
            return iter(materialised) if isinstance(result, _t.GeneratorType) else result

        wrapper.__name__ = getattr(fn, "__name__", "wrapped")
        wrapper.__wrapped_by_monitor__ = True
        return wrapper

    def fail(self, fid, clause, observed, bound, tb=None):
        if len(self.failures) < 40:
            desc = {}
            for k, v in bound.items():
                try:
                    desc[k] = (f"{type(v).__name__}(name={getattr(v, 'name', None)!r}, type={getattr(v, 'type', None)!r})"
                               if hasattr(v, "name") else repr(v)[:120])
                except Exception:  # noqa: BLE001
                    desc[k] = type(v).__name__
            case = getattr(self, "current", None)
            self.failures.append({"function": fid, "clause": clause[:300], "observed": observed[:300], "args": desc, "tb": tb,
                                  "form": getattr(self, "current_case", None),
                                  "monitor_form_md": case.as_md() if case is not None else None,
                                  "convert_kwargs": {k: v for k, v in (case.kwargs if case is not None else {}).items()
                                                     if isinstance(v, str | int | bool | type(None))}})


def run(tier="quick", seed=0, budget_s=None, prop=None, reg=None, cases=None):
    """Convert the corpus with the monitors installed. Returns {"stats":…, "failures":…, "forms":…}.
    prop: monitor only contracts tagged with that property; cases: explicit corpus (replay)."""
    from bounded import corpus

    reg = reg or vcheck.load_registry()
    mon = Monitor(reg, (lambda c: prop in (c.properties or ())) if prop else None)
    mon.install()
    if not mon.installed:
        return None
    t0 = time.time()
    forms = 0
    budget_s = budget_s or (60 if tier == "quick" else 600)
    try:
        for case in (cases if cases is not None else corpus.corpus(tier, seed, 150 if tier == "quick" else 1500)):
            if time.time() - t0 > budget_s:
                break
            mon.current_case = case.name
            mon.current = case
            try:
                corpus.convert_case(case)
            except Exception:  # noqa: BLE001
                pass
            forms += 1
    finally:
        mon.uninstall()
    return {"stats": mon.stats, "failures": mon.failures, "forms": forms, "wall_s": round(time.time() - t0, 1),
            "adapter_errors": mon.adapter_errors[:5]}


def replay(payload: dict) -> int:
    """Re-run one recorded monitor failure: convert the recorded form with the monitors installed."""
    from bounded import corpus

    case = corpus.Case(payload.get("form") or "replay", md=payload["monitor_form_md"], kwargs=payload.get("convert_kwargs") or {})
    out = run("quick", 0, prop=payload.get("property"), cases=[case])
    hit = [f for f in (out or {}).get("failures", []) if f["function"] == payload.get("function") and f["clause"] == payload.get("clause")]
    print("replay:", "REPRODUCED" if hit else "not reproduced", payload.get("function"), payload.get("clause", "")[:200])
    return 1 if hit else 0


if __name__ == "__main__":
    tier = "thorough" if "--tier" in sys.argv and sys.argv[sys.argv.index("--tier") + 1] == "thorough" else "quick"
    out = run(tier, int(os.environ.get("VERIF_SEED", "0")))
    for f in out["failures"][:20]:
        print("MONITOR-FAIL", json.dumps({k: v for k, v in f.items() if k != "tb"})[:700])
        if f.get("tb"):
            print("   ", f["tb"].replace("\n", " | ")[-400:])
    for a in out["adapter_errors"]:
        print("ADAPTER-ERROR", a)
    print(json.dumps({"forms": out["forms"], "wall_s": out["wall_s"], "stats": out["stats"]}, indent=1))
    sys.exit(1 if out["failures"] else 0)
