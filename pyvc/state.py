"""Execution state and obligations for pyvc."""
from __future__ import annotations

import z3

from .kinds import V


class State:
    """Immutable-by-convention execution state: fork() before changing."""

    __slots__ = ("vars", "pc", "ghost", "notes")

    def __init__(self, vars=None, pc=None, ghost=None, notes=None):
        self.vars: dict[str, V] = dict(vars or {})
        self.pc: list = list(pc or [])
        self.ghost: dict = dict(ghost or {})
        self.notes: list = list(notes or [])

    def fork(self) -> "State":
        return State(self.vars, self.pc, self.ghost, self.notes)

    def assume(self, cond) -> "State":
        s = self.fork()
        if not z3.is_true(cond):
            s.pc.append(cond)
        return s

    def bind(self, name: str, v: V) -> "State":
        s = self.fork()
        s.vars[name] = v
        return s


class Outcome:
    """Result of executing a block: kind in normal|return|raise|break|continue."""

    __slots__ = ("kind", "state", "value")

    def __init__(self, kind, state, value=None):
        self.kind, self.state, self.value = kind, state, value


class Obligation:
    def __init__(self, oid, kind, hyps, goal, line=0, expect="unsat", info=None):
        self.oid = oid  # stable id  <module>.<qualname>#<kind>@<where>
        self.kind = kind
        self.hyps = list(hyps)
        self.goal = goal
        self.line = line
        self.expect = expect  # 'unsat' (normal) or 'sat' (cover / canary)
        self.info = info or {}
        self.inputs = {}  # name -> (term, kind) for model extraction

    def formula(self):
        """Assertion list whose unsatisfiability discharges the obligation."""
        return [*self.hyps, z3.Not(self.goal)]
