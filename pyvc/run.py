"""Development driver: verify contracts of one sidecar and print verdicts."""
import sys, time, glob, os
sys.path.insert(0, os.environ.get("VERIF_REPO", "/repo"))
from pyvc import contracts, extract, solve
from pyvc.kinds import Unsupported
from pyvc.engine import ContractMismatch


def run(sidecars, only=None, timeout_ms=10000, verbose=True):
    reg = contracts.Registry()
    wanted_modules = set()
    for sc in sorted(glob.glob("/verif/contracts/*.py")):   # callee contracts may live in any sidecar
        if os.path.basename(sc).startswith("native_"):
            continue
        before = set(reg.contracts) | {"lemma." + k for k in reg.lemmas}
        reg.load_sidecar(sc)
        if os.path.abspath(sc) in {os.path.abspath(x) for x in sidecars}:
            wanted_modules |= (set(reg.contracts) | {"lemma." + k for k in reg.lemmas}) - before
    reg.link()
    allobs, status = [], {}
    for fid, c in reg.contracts.items():
        if fid not in wanted_modules:
            continue
        if only and not any(fid.endswith(o) or ("." + o + ".") in fid or o in fid.rsplit(".", 1)[-1] for o in only):
            continue
        if c.trusted:
            status[fid] = ("trusted", c.trusted_reason)
            continue
        mod = extract.import_module(c.module)
        v = contracts.Verifier(c.module, vars(mod), reg)
        t0 = time.time()
        try:
            v.verify(c)
            status[fid] = ("ok", f"{len(v.obligations)} obligations, {v.stats['paths']} paths, {time.time()-t0:.2f}s gen")
            allobs.extend(v.obligations)
        except Unsupported as e:
            status[fid] = ("unsupported", str(e))
        except ContractMismatch as e:
            status[fid] = ("mismatch", str(e))
    for name, lem in reg.lemmas.items():
        if "lemma." + name not in wanted_modules:
            continue
        if only and not any(o in name for o in only):
            continue
        mod = extract.import_module("pyxform.utils")
        v = contracts.Verifier("lemma", vars(mod), reg)
        try:
            v.prove_lemma(lem)
            status["lemma." + name] = ("ok", f"{len(v.obligations)} obligations")
            allobs.extend(v.obligations)
        except Unsupported as e:
            status["lemma." + name] = ("unsupported", str(e))
    t0 = time.time()
    res = solve.solve_all(allobs, timeout_ms=timeout_ms)
    if verbose:
        for fid, (s, msg) in status.items():
            print(f"[{s}] {fid}: {msg}")
        bad = 0
        for ob in allobs:
            r = res[ob.oid]
            good = r["verdict"] == ob.expect
            if not good:
                bad += 1
            if not good or os.environ.get("PYVC_ALL"):
                print(f"  {'OK ' if good else 'FAIL'} {ob.oid} -> {r['verdict']} ({r['solver']}, {r['time']:.2f}s) {r.get('reason','')} {ob.info or ''}")
                if not good and r.get("model"):
                    print("       model:", r["model"])
        print(f"{len(allobs)} obligations, {bad} not as expected, solve {time.time()-t0:.1f}s")
    return allobs, res, status


if __name__ == "__main__":
    args = sys.argv[1:]
    files = [a for a in args if a.endswith(".py")]
    only = [a for a in args if not a.endswith(".py")]
    run(files or sorted(glob.glob("/verif/contracts/*.py")), only or None)
