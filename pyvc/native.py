"""Native (CPython) evaluation of sidecar contracts on the real functions.

Used for (1) replaying solver countermodels on the real code, (2) the bounded stand-in:
small-scope / boundary-structured / seeded random inputs run through the real function with
the contract evaluated natively, (3) the CPython cross-check of the symbolic models.
Contracts and spec functions are the *same text* the prover reads; here they are compiled
and executed with Python semantics.
"""
from __future__ import annotations

import ast
import copy
import itertools
import random
import re
import types

from . import extract
from .contracts import Contract, Registry
from .kinds import (
    K_BOOL, K_INT, K_NONE, K_REAL, K_STR, KDict, KFn, KList, KObj, KOpaque, KOpt, KSet, KTuple,
    KUnion, Kind,
)


class Skip(Exception):
    """Input outside the precondition."""


# ---------------------------------------------------------------- contract language, natively


def _forall(lo, hi, fn):
    return all(fn(k) for k in range(lo, hi))


def _exists(lo, hi, fn):
    return any(fn(k) for k in range(lo, hi))


def _implies(a, b):
    return (not a) or bool(b)


_XML_RE = {}


def _native_matches(s, name, how="match"):
    import importlib

    if name in ("XmlName", "NCName", "QName", "XmlChars"):
        if not _XML_RE:
            start = "A-Z_a-z\\u00C0-\\u00D6\\u00D8-\\u00F6\\u00F8-\\u02FF\\u0370-\\u037D\\u037F-\\u1FFF\\u200C-\\u200D\\u2070-\\u218F\\u2C00-\\u2FEF\\u3001-\\uD7FF\\uF900-\\uFDCF\\uFDF0-\\uFFFD\\U00010000-\\U000EFFFF"
            extra = "\\-.0-9\\u00B7\\u0300-\\u036F\\u203F-\\u2040"
            nc = f"[{start}][{start}{extra}]*"
            _XML_RE["NCName"] = re.compile(nc)
            _XML_RE["XmlName"] = re.compile(f"[:{start}][:{start}{extra}]*")
            _XML_RE["QName"] = re.compile(f"{nc}(:{nc})?")
            _XML_RE["XmlChars"] = re.compile("[\\t\\n\\r\\u0020-\\uD7FF\\uE000-\\uFFFD\\U00010000-\\U0010FFFF]*")
        return isinstance(s, str) and _XML_RE[name].fullmatch(s) is not None
    mod, _, attr = name.rpartition(".")
    pat = getattr(importlib.import_module(mod), attr)
    return isinstance(s, str) and getattr(pat, how)(s) is not None


class NativeWriter:
    """Stand-in for the writer object passed to writexml: records what was written."""

    def __init__(self, buf=""):
        self.buf = buf

    def write(self, s):
        self.buf += s

    def __eq__(self, o):
        return isinstance(o, NativeWriter) and o.buf == self.buf

    def __repr__(self):
        return f"Writer({self.buf!r})"


def _native_writer_append(w, text):
    return NativeWriter(w.buf + text)


def _native_translate(s, name):
    import importlib

    mod, _, attr = name.rpartition(".")
    return s.translate(getattr(importlib.import_module(mod), attr))


class _LazyImplies(ast.NodeTransformer):
    """implies(a, b) / ite(c, a, b) must not evaluate the unused branch natively."""

    def visit_Call(self, n):
        self.generic_visit(n)
        if isinstance(n.func, ast.Name) and n.func.id == "implies" and len(n.args) == 2:
            return ast.copy_location(
                ast.BoolOp(op=ast.Or(), values=[ast.UnaryOp(op=ast.Not(), operand=n.args[0]),
                                                ast.Call(func=ast.Name(id="bool", ctx=ast.Load()), args=[n.args[1]], keywords=[])]), n)
        if isinstance(n.func, ast.Name) and n.func.id == "ite" and len(n.args) == 3:
            return ast.copy_location(ast.IfExp(test=n.args[0], body=n.args[1], orelse=n.args[2]), n)
        if isinstance(n.func, ast.Name) and n.func.id == "old" and isinstance(n.args[0], ast.Name):
            return ast.copy_location(ast.Name(id="__old_" + n.args[0].id, ctx=ast.Load()), n)
        return n


def compile_expr(e: ast.expr):
    e2 = ast.fix_missing_locations(_LazyImplies().visit(copy.deepcopy(e)))
    return compile(ast.Expression(body=e2), "<contract>", "eval")


def _memo(fn):
    cache: dict = {}

    def wrapped(*args):
        try:
            key = args
            hash(key)
        except TypeError:
            return fn(*args)
        if key not in cache:
            if len(cache) > 200000:
                cache.clear()
            cache[key] = fn(*args)
        return cache[key]

    wrapped.__name__ = getattr(fn, "__name__", "spec")
    return wrapped


def base_env(registry: Registry) -> dict:
    env = {
        "some": lambda x: x,
        "ctx_of": lambda x: x,
        "same": lambda a, b: a == b and (not isinstance(a, dict) or list(a) == list(b)),
        "forall": _forall,
        "forall2": lambda n, fn: all(fn(a, b) for b in range(n) for a in range(b)), "exists": _exists, "implies": _implies, "keys": lambda d: list(d.keys()),
        "iff": lambda a, b: bool(a) == bool(b),
        "strip": lambda s: s.strip(),
        "re_sub": lambda pat, repl, s: re.sub(pat, repl, s),
        "ite": lambda c, a, b: a if c else b,
        "matches": _native_matches,
        "translate_table": _native_translate,
        "Writer_append": _native_writer_append,
    }
    env.update(registry.native_env)
    # spec functions: executed natively from the same source
    for name, sp in registry.specs.items():
        if sp.uninterpreted:
            continue
        fn = copy.deepcopy(sp.node)
        fn.decorator_list = []
        fn.returns = None
        for a in fn.args.args:
            a.annotation = None
        fn = _LazyImplies().visit(fn)
        mod = ast.fix_missing_locations(ast.Module(body=[fn], type_ignores=[]))
        exec(compile(mod, f"<spec {name}>", "exec"), env)  # noqa: S102
        env[name] = _memo(env[name])  # recursive specs (Lev) are exponential without it
    import sys

    sys.setrecursionlimit(max(sys.getrecursionlimit(), 20000))
    return env


class NativeContract:
    def __init__(self, c: Contract, registry: Registry, env: dict | None = None):
        self.c = c
        self.env = env if env is not None else base_env(registry)
        self.requires = [(ast.unparse(e), compile_expr(e)) for e in c.requires]
        self.ensures = [(ast.unparse(e), compile_expr(e)) for e in c.ensures]
        self.raises = [(cls, ast.unparse(w), compile_expr(w), exact) for cls, w, exact in c.raises]
        self.ghosts = [(n, compile_expr(e)) for n, e in c.ghosts]
        self.pre_items = [(k, n, ast.unparse(e), compile_expr(e)) for k, n, e in c.pre_items]

    def real_function(self):
        m = extract.import_module(self.c.module)
        obj = m
        for p in self.c.qualname.split("."):
            obj = getattr(obj, p)
        return getattr(obj, "__wrapped__", obj)

    def check(self, args: dict, fn=None):
        """Run the real function on args; returns None if the contract holds, else a dict
        describing the failed clause.  Raises Skip if args violate the precondition."""
        fn = fn or self.real_function()
        env = dict(self.env)
        env.update({k: v for k, v in args.items()})
        for kind, n, txt, code in self.pre_items:
            if kind == "ghost":
                try:
                    env[n] = eval(code, env)  # noqa: S307
                except Exception:  # noqa: BLE001
                    env[n] = None  # contract terms are total in the prover; natively an undefined ghost is None
                continue
            try:
                ok = eval(code, env)  # noqa: S307
            except Exception:  # noqa: BLE001
                ok = False
            if not ok:
                raise Skip(txt)
        call_args = copy.deepcopy(args)
        for k, v in args.items():
            env["__old_" + k] = v
        try:
            result = fn(**call_args)
            if isinstance(result, types.GeneratorType):
                result = list(result)
            exc = None
        except Skip:
            raise
        except BaseException as e:  # noqa: BLE001
            result, exc = None, e
        if exc is not None:
            allowed = False
            for cls, wtxt, wcode, exact in self.raises:
                pycls = self._exc_class(cls)
                if pycls is not None and isinstance(exc, pycls):
                    if eval(wcode, env):  # noqa: S307
                        allowed = True
            if not allowed:
                return {"clause": "raises/safety", "exception": f"{type(exc).__name__}: {exc}"[:300]}
            return None
        env["result"] = result
        for k, v in call_args.items():
            env["final_" + k] = v
        for cls, wtxt, wcode, exact in self.raises:
            if exact and eval(wcode, env):  # noqa: S307
                return {"clause": f"raises({cls}, when={wtxt})", "observed": "returned normally", "result": repr(result)[:300]}
        for txt, code in self.ensures:
            try:
                ok = eval(code, env)  # noqa: S307
            except Exception as e:  # noqa: BLE001
                return {"clause": f"ensures({txt})", "observed": f"clause raised {type(e).__name__}: {e}", "result": repr(result)[:300]}
            if not ok:
                return {"clause": f"ensures({txt})", "observed": "false", "result": repr(result)[:300]}
        return None

    def _exc_class(self, name):
        import builtins

        m = extract.import_module(self.c.module)
        for ns in (vars(m), vars(builtins)):
            c = ns.get(name)
            if isinstance(c, type) and issubclass(c, BaseException):
                return c
        import pyxform.errors as pe

        return getattr(pe, name, None)


# ---------------------------------------------------------------- input generation


ALPHABET = ["a", "b", " ", "A", " ", "/", "<", "&", "1", "é"]


def int_literals(c: Contract):
    ex = extract.find(c.module, c.qualname)
    lits = set()
    if ex is not None:
        for n in ast.walk(ex.node):
            if isinstance(n, ast.Constant) and isinstance(n.value, int) and not isinstance(n.value, bool):
                lits.add(n.value)
    return sorted(lits)


def string_literals(c: Contract):
    """String constants of the function under test and of its contract: vocabulary for keys/values."""
    out = []
    ex = extract.find(c.module, c.qualname)
    nodes = [c.node] + ([ex.node] if ex is not None else [])
    for root in nodes:
        for n in ast.walk(root):
            if isinstance(n, ast.Constant) and isinstance(n.value, str) and 0 < len(n.value) <= 24 and n.value not in out:
                out.append(n.value)
    # enum / constant names referenced through attributes (EC.ENTITY_ID ...) resolve natively
    if ex is not None:
        try:
            m = extract.import_module(c.module)
            for n in ast.walk(ex.node):
                if isinstance(n, ast.Attribute) and isinstance(n.value, ast.Name) and n.value.id in vars(m):
                    v = getattr(vars(m)[n.value.id], n.attr, None)
                    if isinstance(v, str) and 0 < len(v) <= 24 and str(v) not in out:
                        out.append(str(v.value) if hasattr(v, "value") else str(v))
        except Exception:  # noqa: BLE001
            pass
    return out


class Gen:
    def __init__(self, rng: random.Random, boundaries=(), max_len=6, alphabet=None, builders=None, vocab=None):
        self.vocab = list(vocab or [])
        self.rng = rng
        self.boundaries = [b for b in boundaries if 0 <= b <= 200]
        self.max_len = max_len
        self.alphabet = alphabet or ALPHABET
        self.builders = builders or {}

    def length(self):
        r = self.rng.random()
        if self.boundaries and r < 0.35:
            b = self.rng.choice(self.boundaries)
            return max(0, b + self.rng.choice([-1, 0, 0, 1, 2]))
        return self.rng.randint(0, self.max_len)

    def zeroish(self, k: Kind):
        if isinstance(k, KOpt):
            return self.rng.choice([None, self.zeroish(k.elem)])
        if k == K_STR:
            return self.rng.choice(["", " ", "  ", "\t"])
        if k == K_INT:
            return 0
        if isinstance(k, KList):
            return [self.zeroish(k.elem) for _ in range(self.rng.randint(0, 3))]
        if isinstance(k, KObj):
            return self.obj(k, {n: self.zeroish(fk) for n, fk in k.fields.items()})
        return self.value(k)

    def obj(self, k: KObj, fields):
        if k.cls == "Writer":
            return NativeWriter(fields.get("buf", ""))
        b = self.builders.get(k.cls)
        if b is not None:
            return b(**fields)
        return types.SimpleNamespace(**fields)

    def value(self, k: Kind, depth=0):
        r = self.rng
        if k == K_INT:
            if self.boundaries and r.random() < 0.4:
                return r.choice(self.boundaries) + r.choice([-1, 0, 1])
            return r.randint(-2, 8)
        if k == K_BOOL:
            return r.random() < 0.5
        if k == K_STR:
            if self.vocab and r.random() < 0.35:
                return r.choice(self.vocab)
            n = r.choice([0, 1, 1, 2, 2, 3, 4, 5])
            return "".join(r.choice(self.alphabet) for _ in range(n))
        if k == K_REAL:
            return r.choice([0.0, 1.0, 1.5, -2.0, 3.25, 1e3, 2.0000001])
        if k == K_NONE:
            return None
        if isinstance(k, KOpt):
            return None if r.random() < 0.3 else self.value(k.elem, depth + 1)
        if isinstance(k, KUnion):
            return self.value(r.choice(k.alts), depth + 1)
        if isinstance(k, KList):
            return self.run_list(k.elem, depth)
        if isinstance(k, KTuple):
            return tuple(self.value(i, depth + 1) for i in k.items)
        if isinstance(k, KSet):
            return {self.value(k.elem, depth + 1) for _ in range(r.randint(0, 3))}
        if isinstance(k, KDict):
            d = {}
            for _ in range(r.randint(0, 6)):
                key = r.choice(self.vocab) if (self.vocab and k.key == K_STR and r.random() < 0.85) else self.value(k.key, depth + 1)
                d[key] = self.value(k.val, depth + 1)
            return d
        if isinstance(k, KObj):
            return self.obj(k, {n: self.value(fk, depth + 1) for n, fk in k.fields.items()})
        if isinstance(k, KFn):
            return lambda *a, **kw: ("fn", tuple(repr(x) for x in a))
        if isinstance(k, KOpaque):
            b = self.builders.get(k.name)
            if b is not None:
                return b(self)
            return ("opaque", k.name, r.randint(0, 3))
        raise NotImplementedError(f"generator for {k!r}")

    def run_list(self, elem: Kind, depth):
        """List made of alternating runs of 'empty-ish' and ordinary elements; run lengths
        are drawn around the integer literals of the function under test."""
        r = self.rng
        if depth >= 2:
            return [self.value(elem, depth + 1) for _ in range(r.randint(0, 3))]
        out = []
        nseg = r.choice([0, 1, 1, 2, 3, 3, 4])
        empty = r.random() < 0.5
        for _ in range(nseg):
            n = self.length()
            if empty:
                out.extend(self.zeroish(elem) for _ in range(n))
            else:
                out.extend(self.value(elem, depth + 1) for _ in range(min(n, self.max_len)))
            empty = not empty
        return out


def small_strings(alphabet, max_len):
    for n in range(max_len + 1):
        for t in itertools.product(alphabet, repeat=n):
            yield "".join(t)


def searchable(c: Contract, exhaustive) -> bool:
    """Can the bounded native search produce meaningful inputs for this contract?  Record / opaque / callable
    parameters need a generator written for them (EXHAUSTIVE) or a builder; without one the contract is an
    abstraction used by the prover only and is not searched."""
    if c.no_native or not c.module.startswith("pyxform"):
        return False
    if exhaustive is not None:
        return True

    def plain(k):
        if isinstance(k, (KObj, KOpaque, KFn)):
            return k.cls == "Writer" if isinstance(k, KObj) else False
        if isinstance(k, (KList, KSet, KOpt)):
            return plain(k.elem)
        if isinstance(k, KDict):
            return plain(k.key) and plain(k.val)
        if isinstance(k, KTuple):
            return all(plain(i) for i in k.items)
        if isinstance(k, KUnion):
            return all(plain(i) for i in k.alts)
        return True

    return all(plain(k) for _, k, _ in c.params)


def search(nc: NativeContract, seed: int, budget: int, builders=None, exhaustive=None, max_len=6):
    """Bounded search for a contract violation. Returns (witness|None, stats)."""
    c = nc.c
    rng = random.Random(seed)
    gen = Gen(rng, boundaries=int_literals(c), builders=builders, max_len=max_len, vocab=string_literals(c))
    fn = nc.real_function()
    stats = {"evaluations": 0, "skipped": 0, "distinct": set()}
    kinds = [(n, k) for n, k, _ in c.params]

    def one(args):
        try:
            r = nc.check(args, fn)
        except Skip:
            stats["skipped"] += 1
            return None
        except RecursionError:
            stats["skipped"] += 1
            return None
        stats["evaluations"] += 1
        try:
            stats["distinct"].add(repr(args)[:200])
        except Exception:  # noqa: BLE001
            pass
        if r is not None:
            return {"args": args, **r}
        return None

    if exhaustive is not None:
        for args in exhaustive():
            w = one(args)
            if w:
                return w, stats
    if exhaustive is not None and getattr(c, "exhaustive_only", False):
        return None, stats
    for _ in range(budget):
        args = {n: gen.value(k) for n, k in kinds}
        w = one(args)
        if w:
            return w, stats
    return None, stats


def model_to_args(c: Contract, model: dict, builders=None):
    """Solver model (plain Python values from solve.ast_to_py) -> native arguments."""
    gen = Gen(random.Random(0), builders=builders)

    def conv(v, k: Kind):
        if isinstance(k, KObj):
            fields = v.get("fields", []) if isinstance(v, dict) else []
            return gen.obj(k, {n: conv(x, fk) for (n, fk), x in zip(k.fields.items(), fields)})
        if isinstance(k, KList):
            return [conv(x, k.elem) for x in (v if isinstance(v, list) else [])]
        if isinstance(k, KOpt):
            return None if v is None else conv(v, k.elem)
        if isinstance(k, KTuple):
            fields = v.get("fields", []) if isinstance(v, dict) else []
            return tuple(conv(x, fk) for fk, x in zip(k.items, fields))
        if isinstance(k, KFn):
            return lambda *a, **kw: ("fn", tuple(repr(x) for x in a))
        if isinstance(v, dict) and ("$raw" in v or "$ctor" in v or "$mk" in v):
            raise ValueError(f"cannot concretise {v}")
        return v

    args = {}
    for n, k, _ in c.params:
        key = f"p_{n}"
        if isinstance(k, KFn):
            args[n] = conv(None, k)
        elif key in model:
            args[n] = conv(model[key], k)
        else:
            args[n] = gen.zeroish(k) if not isinstance(k, KOpaque) else gen.value(k)
    return args
