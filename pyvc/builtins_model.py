"""Models of Python builtins, operators and container/str methods (trusted base of pyvc).

Every function here encodes the semantics CPython gives the operation for the value kinds
the subset supports; anything else raises Unsupported (the function under analysis then
falls back to its bounded stand-in).  The CPython cross-check (crosscheck.py) exercises
these models against the interpreter.
"""
from __future__ import annotations

import ast

import z3

from .kinds import (
    K_BOOL, K_INT, K_NONE, K_REAL, K_STR, NONE, BoolV, ClosureV, ConstV, DictV, FuncV, IntV,
    KDict, KList, KObj, KOpaque, KOpt, KSet, KTuple, KUnion, ListV, NoneV, ObjV, OpaqueV,
    RaiseV, RealV, SetV, StrV, TupleV, UnionV, Unsupported, V, box, const_to_v, fits, fresh,
    unbox,
)
from .state import Outcome, State


def _mangle_kind(k):
    from .kinds import _mangle

    return _mangle(k)


def _simp(t):
    r = z3.simplify(t)
    if z3.is_true(r) or z3.is_false(r) or z3.is_int_value(r) or z3.is_string_value(r):
        return r
    return t


def And(*xs):
    xs = [x for x in xs if not z3.is_true(x)]
    if not xs:
        return z3.BoolVal(True)
    return xs[0] if len(xs) == 1 else z3.And(*xs)


def Or(*xs):
    xs = [x for x in xs if not z3.is_false(x)]
    if not xs:
        return z3.BoolVal(False)
    return xs[0] if len(xs) == 1 else z3.Or(*xs)


WS_CHARS = " \t\n\r\x0b\x0c\x1c\x1d\x1e\x1f\x85\xa0"


def re_union(chars):
    rs = [z3.Re(z3.StringVal(c)) for c in chars]
    return rs[0] if len(rs) == 1 else z3.Union(*rs)


def _seq_of(eng, v, st=None):
    """Return (elem_kind, seq_term) view of a list-like value."""
    if isinstance(v, ListV):
        return v.elem, v.t
    if isinstance(v, TupleV):
        if not v.items:
            raise Unsupported("empty literal sequence of unknown element kind")
        k = v.items[0].kind
        if not all(fits(i, k) for i in v.items):
            ks = []
            for i in v.items:
                if i.kind not in ks:
                    ks.append(i.kind)
            k = KUnion(ks)
        return k, box(v, KList(k))
    raise Unsupported(f"sequence view of {type(v).__name__}")


def elem_at(elem_kind, seq_t, idx_t) -> V:
    return unbox(seq_t[idx_t], elem_kind)


# ------------------------------------------------------------------------------ str()


def to_str(eng, v: V) -> StrV:
    if isinstance(v, DictV):
        f = z3.Function("py_str_of_" + _mangle_kind(v.kind), v.kind.sort(), z3.StringSort())
        return StrV(f(box(v, v.kind)))
    if isinstance(v, StrV):
        return v
    if isinstance(v, IntV):
        neg = v.t < 0
        return StrV(z3.If(neg, z3.Concat(z3.StringVal("-"), z3.IntToStr(-v.t)), z3.IntToStr(v.t)))
    if isinstance(v, BoolV):
        return StrV(z3.If(v.t, z3.StringVal("True"), z3.StringVal("False")))
    if isinstance(v, NoneV):
        return StrV("None")
    if isinstance(v, UnionV):
        t = None
        for g, a in reversed(v.alts):
            s = to_str(eng, a).t
            t = s if t is None else z3.If(g, s, t)
        return StrV(t)
    if isinstance(v, ObjV) and "__str__" in v.fields:
        return v.fields["__str__"]
    if isinstance(v, OpaqueV):
        f = z3.Function(f"str_{v.kind.name}", v.kind.sort(), z3.StringSort())
        return StrV(f(v.t))
    if isinstance(v, ConstV) and isinstance(v.obj, (str, int)):
        return StrV(str(v.obj))
    raise Unsupported(f"str() of {type(v).__name__}")


# ------------------------------------------------------------------------------ operators


def binop(eng, op, a: V, b: V, st) -> V:
    num = (IntV, BoolV)
    if isinstance(a, num) and isinstance(b, num):
        x, y = box(a, K_INT), box(b, K_INT)
        if isinstance(op, ast.Add):
            return IntV(x + y)
        if isinstance(op, ast.Sub):
            return IntV(x - y)
        if isinstance(op, ast.Mult):
            return IntV(x * y)
        if isinstance(op, (ast.FloorDiv, ast.Mod)):
            # Python floor semantics; divisor must be a non-zero literal for now
            yv = _simp(y)
            if not z3.is_int_value(yv) or yv.as_long() <= 0:
                raise Unsupported("// or % by non-literal / non-positive")
            return IntV(x / y) if isinstance(op, ast.FloorDiv) else IntV(x % y)
    if isinstance(a, (IntV, BoolV, RealV)) and isinstance(b, (IntV, BoolV, RealV)):
        x, y = box(a, K_REAL), box(b, K_REAL)
        if isinstance(op, ast.Add):
            return RealV(x + y)
        if isinstance(op, ast.Sub):
            return RealV(x - y)
        if isinstance(op, ast.Mult):
            return RealV(x * y)
    if isinstance(a, StrV) and isinstance(b, StrV) and isinstance(op, ast.Add):
        return StrV(z3.Concat(a.t, b.t))
    if isinstance(op, ast.Add) and isinstance(a, (ListV, TupleV)) and isinstance(b, (ListV, TupleV)):
        if isinstance(a, TupleV) and isinstance(b, TupleV):
            return TupleV([*a.items, *b.items], a.is_list)
        ek = a.elem if isinstance(a, ListV) else b.elem
        if isinstance(a, TupleV) and not a.items:
            return b
        if isinstance(b, TupleV) and not b.items:
            return a
        return ListV(ek, z3.Concat(box(a, KList(ek)), box(b, KList(ek))))
    if isinstance(op, ast.Mod) and isinstance(a, StrV):
        return percent_format(eng, a, b)
    if isinstance(op, ast.BitOr) and isinstance(a, ConstV) and isinstance(b, ConstV):
        return ConstV(a.obj | b.obj)
    raise Unsupported(f"binop {type(op).__name__} on {type(a).__name__},{type(b).__name__}")


def percent_format(eng, fmt: StrV, arg: V) -> StrV:
    f = _simp(fmt.t)
    if not z3.is_string_value(f):
        raise Unsupported("% with symbolic format")
    s = f.as_string()
    args = arg.items if isinstance(arg, TupleV) else [arg]
    parts, i, ai = [], 0, 0
    while i < len(s):
        j = s.find("%", i)
        if j < 0:
            parts.append(z3.StringVal(s[i:]))
            break
        if j > i:
            parts.append(z3.StringVal(s[i:j]))
        c = s[j + 1 : j + 2]
        if c == "%":
            parts.append(z3.StringVal("%"))
        elif c in ("s", "d"):
            if ai >= len(args):
                raise Unsupported("% format arity")
            parts.append(to_str(eng, args[ai]).t)
            ai += 1
        else:
            raise Unsupported(f"% format code {c!r}")
        i = j + 2
    if ai != len(args):
        raise Unsupported("% format arity")
    return StrV(parts[0] if len(parts) == 1 else z3.Concat(*parts)) if parts else StrV("")


def compare(eng, op, a: V, b: V, st):
    if isinstance(op, ast.Eq):
        return eng.eq(a, b)
    if isinstance(op, ast.NotEq):
        return z3.Not(eng.eq(a, b))
    if isinstance(op, (ast.Is, ast.IsNot)):
        r = is_same(eng, a, b)
        return r if isinstance(op, ast.Is) else z3.Not(r)
    if isinstance(op, (ast.In, ast.NotIn)):
        r = contains(eng, b, a, st)
        return r if isinstance(op, ast.In) else z3.Not(r)
    if isinstance(a, UnionV) or isinstance(b, UnionV):
        raise Unsupported("ordering on union")
    num = (IntV, BoolV, RealV)
    if isinstance(a, num) and isinstance(b, num):
        if isinstance(a, RealV) or isinstance(b, RealV):
            x, y = box(a, K_REAL), box(b, K_REAL)
        else:
            x, y = box(a, K_INT), box(b, K_INT)
        return {ast.Lt: x < y, ast.LtE: x <= y, ast.Gt: x > y, ast.GtE: x >= y}[type(op)]
    if isinstance(a, TupleV) and isinstance(b, TupleV) and all(isinstance(i, IntV) for i in [*a.items, *b.items]):
        raise Unsupported("tuple ordering")
    raise Unsupported(f"compare {type(op).__name__} on {type(a).__name__},{type(b).__name__}")


def is_same(eng, a: V, b: V):
    """`a is b`: supported for None, bool singletons, sentinel constants, opaque refs."""
    if isinstance(a, UnionV):
        return Or(*[And(g, is_same(eng, x, b)) for g, x in a.alts])
    if isinstance(b, UnionV):
        return Or(*[And(g, is_same(eng, a, x)) for g, x in b.alts])
    if isinstance(a, NoneV) or isinstance(b, NoneV):
        return z3.BoolVal(isinstance(a, NoneV) and isinstance(b, NoneV))
    if isinstance(a, BoolV) and isinstance(b, BoolV):
        return a.t == b.t
    if isinstance(a, BoolV) or isinstance(b, BoolV):
        return z3.BoolVal(False)  # True/False are singletons; other types are never them
    if isinstance(a, OpaqueV) and isinstance(b, OpaqueV) and a.kind == b.kind:
        return a.t == b.t
    if isinstance(a, ConstV) and isinstance(b, ConstV):
        return z3.BoolVal(a.obj is b.obj)
    if isinstance(a, ConstV) or isinstance(b, ConstV):
        return z3.BoolVal(False)
    if isinstance(a, IntV) and isinstance(b, IntV):
        # small-int identity is an implementation detail; xlrd ctype constants are small ints
        return a.t == b.t
    raise Unsupported(f"`is` on {type(a).__name__},{type(b).__name__}")


def contains(eng, container: V, item: V, st):
    if isinstance(container, UnionV):
        alts = []
        for g, c in container.alts:
            if isinstance(c, NoneV) and not getattr(eng, "spec_mode", False) and st is not None \
                    and not eng.feasible(st.assume(g)):
                continue  # the None alternative is excluded on this path
            alts.append(And(g, contains(eng, c, item, st)))
        return Or(*alts)
    if isinstance(container, StrV):
        if isinstance(item, UnionV):
            raise Unsupported("union in str")
        if not isinstance(item, StrV):
            raise Unsupported("non-str in str")
        return z3.Contains(container.t, item.t)
    if isinstance(container, TupleV):
        return Or(*[eng.eq(item, x) for x in container.items])
    if isinstance(container, ListV):
        if isinstance(item, UnionV) or fits(item, container.elem):
            return z3.Contains(container.t, z3.Unit(box(item, container.elem)))
        return z3.BoolVal(False)
    if isinstance(item, UnionV) and isinstance(container, (DictV, SetV, ListV)):
        # an Optional / union item: decide per alternative (None is never equal to a str key, etc.)
        return Or(*[And(g, contains(eng, container, a, st)) for g, a in item.alts])
    if isinstance(container, DictV):
        if fits(item, container.kk):
            return z3.Contains(container.keys, z3.Unit(box(item, container.kk)))
        return z3.BoolVal(False)
    if isinstance(container, SetV):
        if fits(item, container.elem):
            return z3.Select(container.t, box(item, container.elem))
        return z3.BoolVal(False)
    if isinstance(container, ConstV):
        obj = container.obj
        if isinstance(obj, (dict, set, frozenset, tuple, list)):
            keys = list(obj.keys()) if isinstance(obj, dict) else list(obj)
            return Or(*[eng.eq(item, const_to_v(k)) for k in keys])
    if isinstance(container, NoneV) and getattr(eng, "spec_mode", False):
        return z3.BoolVal(False)  # contract clauses are total: membership in None is false
    raise Unsupported(f"`in` on {type(container).__name__}")


# ------------------------------------------------------------------------------ indexing


def norm_index(idx_t, len_t):
    return z3.If(idx_t < 0, idx_t + len_t, idx_t)


def index(eng, st, base: V, idx: V, node):
    if isinstance(base, TupleV):
        if isinstance(idx, IntV):
            iv = _simp(idx.t)
            if z3.is_int_value(iv):
                i = iv.as_long()
                if -len(base.items) <= i < len(base.items):
                    return [(st, base.items[i])]
                return [(st, RaiseV("IndexError", None, "index"))]
            ek, seq = _seq_of(eng, base)
            return index(eng, st, ListV(ek, seq), idx, node)
        raise Unsupported("tuple index kind")
    if isinstance(base, (ListV, StrV)):
        if not isinstance(idx, (IntV, BoolV)):
            raise Unsupported("sequence index kind")
        n = z3.Length(base.t)
        if getattr(eng, "spec_mode", False):
            i0 = box(idx, K_INT)
            if isinstance(base, StrV):
                return [(st, StrV(z3.SubString(base.t, i0, 1)))]
            return [(st, elem_at(base.elem, base.t, i0))]
        i = norm_index(box(idx, K_INT), n)
        ok = _simp(And(i >= 0, i < n))
        outs = []
        if not z3.is_false(ok):
            s_ok = st.assume(ok)
            if z3.is_true(ok) or eng.feasible(s_ok):
                if isinstance(base, StrV):
                    outs.append((s_ok, StrV(z3.SubString(base.t, i, 1))))
                else:
                    outs.append((s_ok, elem_at(base.elem, base.t, i)))
        if not z3.is_true(ok):
            s_bad = st.assume(_simp(z3.Not(ok)))
            if eng.feasible(s_bad):
                outs.append((s_bad, RaiseV("IndexError", None, f"L{getattr(node, 'lineno', 0)}")))
        return outs
    if isinstance(base, DictV):
        if isinstance(idx, UnionV):
            outs = []
            for s1, i1 in eng.split(st, idx):
                outs.extend(index(eng, s1, base, i1, node))
            return outs
        if not fits(idx, base.kk):
            return [(st, RaiseV("KeyError", None, "dict key kind"))]
        k = box(idx, base.kk)
        if getattr(eng, "spec_mode", False):
            return [(st, unbox(z3.Select(base.vals, k), base.vk))]
        has = _simp(z3.Contains(base.keys, z3.Unit(k)))
        outs = []
        s_ok = st.assume(has)
        if z3.is_true(has) or (not z3.is_false(has) and eng.feasible(s_ok)):
            outs.append((s_ok, unbox(z3.Select(base.vals, k), base.vk)))
        if not z3.is_true(has):
            s_bad = st.assume(_simp(z3.Not(has)))
            if eng.feasible(s_bad):
                outs.append((s_bad, RaiseV("KeyError", None, f"L{getattr(node, 'lineno', 0)}")))
        return outs
    if isinstance(base, ConstV):
        obj = base.obj
        if isinstance(obj, dict):
            outs = []
            none_of = []
            for k, v in obj.items():
                c = _simp(eng.eq(idx, const_to_v(k)))
                if z3.is_false(c):
                    continue
                s1 = st.assume(And(*[z3.Not(x) for x in none_of], c))
                if z3.is_true(c) or eng.feasible(s1):
                    outs.append((s1, eng.import_const(v, f"{base.name}[{k!r}]")))
                if z3.is_true(c):
                    return outs
                none_of.append(c)
            s_bad = st.assume(And(*[z3.Not(x) for x in none_of]))
            if eng.feasible(s_bad):
                outs.append((s_bad, RaiseV("KeyError", None, f"L{getattr(node, 'lineno', 0)}")))
            return outs
        if isinstance(obj, (tuple, list)) and isinstance(idx, IntV):
            iv = _simp(idx.t)
            if z3.is_int_value(iv):
                try:
                    return [(st, eng.import_const(obj[iv.as_long()], base.name))]
                except IndexError:
                    return [(st, RaiseV("IndexError", None, "index"))]
    if isinstance(base, LitDict):
        ks = _simp(idx.t) if isinstance(idx, StrV) else None
        if ks is not None and z3.is_string_value(ks):
            if ks.as_string() in base.items:
                return [(st, base.items[ks.as_string()])]
            return [(st, RaiseV("KeyError", None, f"L{getattr(node, 'lineno', 0)}"))]
        raise Unsupported("symbolic key into literal dict")
    if isinstance(base, ObjV):
        h = eng.registry.getitem_hook(base.cls)
        if h is not None:
            return h(eng, st, base, idx, node)
        if isinstance(idx, StrV) and z3.is_string_value(_simp(idx.t)):
            key = _simp(idx.t).as_string()   # SurveyElement.__getitem__ = getattr on the slot
            if key in base.fields:
                return [(st, base.fields[key])]
            return [(st, RaiseV("AttributeError", None, f"{base.cls}[{key}] L{getattr(node, 'lineno', 0)}"))]
    if isinstance(base, NoneV):
        return [(st, RaiseV("TypeError", None, f"subscript None L{getattr(node, 'lineno', 0)}"))]
    raise Unsupported(f"index on {type(base).__name__}")


def do_slice(eng, st, base: V, lo: V, hi: V, step: V):
    if not isinstance(step, NoneV):
        raise Unsupported("slice step")
    if isinstance(base, TupleV):
        def lit(v, default):
            if isinstance(v, NoneV):
                return default
            if isinstance(v, IntV):
                iv = _simp(v.t)
                if z3.is_int_value(iv):
                    return iv.as_long()
            return None

        a, b = lit(lo, 0), lit(hi, len(base.items))
        if a is not None and b is not None:
            return [(st, TupleV(base.items[a:b], base.is_list))]
        ek, seq = _seq_of(eng, base)
        base = ListV(ek, seq)
    if not isinstance(base, (ListV, StrV)):
        raise Unsupported(f"slice of {type(base).__name__}")
    n = z3.Length(base.t)

    def clamp(v, default):
        if isinstance(v, NoneV):
            return default
        if not isinstance(v, (IntV, BoolV)):
            raise Unsupported("slice bound kind")
        x = box(v, K_INT)
        x = z3.If(x < 0, x + n, x)
        return z3.If(x < 0, 0, z3.If(x > n, n, x))

    a, b = clamp(lo, z3.IntVal(0)), clamp(hi, n)
    ln = z3.If(b > a, b - a, 0)
    t = z3.SubSeq(base.t, a, ln) if isinstance(base, ListV) else z3.SubString(base.t, a, ln)
    return [(st, ListV(base.elem, t) if isinstance(base, ListV) else StrV(t))]


# ------------------------------------------------------------------------------ containers


def make_const_set(eng, vals):
    return TupleSet(vals)


class TupleSet(TupleV):
    """A set literal with statically known elements (membership tests only)."""

    def __init__(self, items):
        super().__init__(items)
        self.is_set = True


def make_dict_literal(eng, keys, vals):
    if all(isinstance(k, StrV) and z3.is_string_value(_simp(k.t)) for k in keys):
        return LitDict({_simp(k.t).as_string(): v for k, v in zip(keys, vals)})
    if len(keys) == 1 and isinstance(keys[0], StrV) and not isinstance(vals[0], (UnionV, NoneV)):
        # {key: value} with a symbolic string key: a one-entry dict
        try:
            vk = vals[0].kind
            vt = box(vals[0], vk)
        except Exception as ex:  # noqa: BLE001
            raise Unsupported(f"dict literal with non-literal key: value {ex}")
        return DictV(K_STR, vk, z3.Unit(keys[0].t), z3.Store(z3.K(z3.StringSort(), z3.StringVal("") if vk == K_STR else z3.Const("dflt_lit_" + str(vk.sort()).replace(" ", "_"), vk.sort())), keys[0].t, vt))
    raise Unsupported("dict literal with non-literal keys")


class LitDict(V):
    """Dict with statically known string keys (kwargs, attribute dicts)."""

    def __init__(self, items: dict):
        self.items = dict(items)

    @property
    def kind(self):
        return KObj("litdict", {k: v.kind for k, v in self.items.items()})


def concrete_dict_items(eng, v):
    if isinstance(v, LitDict):
        return list(v.items.items())
    if isinstance(v, ConstV) and isinstance(v.obj, dict):
        return [(k, eng.import_const(x, k)) for k, x in v.obj.items()]
    return None


def setitem(eng, st, recv, idx, val, node):
    """Return list of (state, new_receiver, ret-or-RaiseV)."""
    if isinstance(recv, ListV):
        if not isinstance(idx, (IntV, BoolV)):
            raise Unsupported("list store index kind")
        n = z3.Length(recv.t)
        i = norm_index(box(idx, K_INT), n)
        ok = _simp(And(i >= 0, i < n))
        outs = []
        s_ok = st.assume(ok)
        if z3.is_true(ok) or (not z3.is_false(ok) and eng.feasible(s_ok)):
            if not fits(val, recv.elem):
                raise Unsupported(f"list store of {val.kind!r} into {recv.elem!r}")
            newt = z3.Concat(
                z3.SubSeq(recv.t, 0, i), z3.Unit(box(val, recv.elem)), z3.SubSeq(recv.t, i + 1, n - i - 1)
            )
            # use a fresh constant constrained pointwise: much easier for the solvers
            r = z3.FreshConst(recv.t.sort(), "upd")
            k = z3.FreshConst(z3.IntSort(), "k")
            s2 = s_ok.assume(z3.Length(r) == n)
            s2 = s2.assume(r[i] == box(val, recv.elem))
            s2 = s2.assume(z3.ForAll([k], z3.Implies(And(k >= 0, k < n, k != i), r[k] == recv.t[k])))
            s2.notes.append(("upd", r, newt))
            outs.append((s2, ListV(recv.elem, r), NONE))
        if not z3.is_true(ok):
            s_bad = st.assume(_simp(z3.Not(ok)))
            if eng.feasible(s_bad):
                outs.append((s_bad, recv, RaiseV("IndexError", None, f"L{node.lineno}")))
        return outs
    if isinstance(recv, DictV):
        if not fits(idx, recv.kk) or not fits(val, recv.vk):
            raise Unsupported(f"dict store kinds {idx.kind!r}:{val.kind!r} into {recv.kind!r}")
        k, v = box(idx, recv.kk), box(val, recv.vk)
        has = _simp(z3.Contains(recv.keys, z3.Unit(k)))
        vals2 = z3.Store(recv.vals, k, v)
        if z3.is_true(has) or (not z3.is_false(has) and not eng.feasible(st.assume(z3.Not(has)))):
            # the key is known to be present on this path: the key sequence is unchanged
            return [(st, DictV(recv.kk, recv.vk, recv.keys, vals2), NONE)]
        # no path split: an existing key keeps its position, a new key is appended.  The new key
        # sequence is a fresh constant characterised pointwise (length, membership, every position):
        # the solvers instantiate these axioms by matching, whereas they get lost in seq.contains
        # over nested concat/ite terms
        n0 = z3.Length(recv.keys)
        keys = z3.FreshConst(recv.keys.sort(), "keys")
        s2 = st.assume(z3.Length(keys) == n0 + z3.If(has, 0, 1))
        xq = z3.FreshConst(recv.kk.sort(), "kq")
        s2 = s2.assume(z3.ForAll([xq], z3.Contains(keys, z3.Unit(xq)) == z3.Or(z3.Contains(recv.keys, z3.Unit(xq)), xq == k)))
        jq = z3.FreshConst(z3.IntSort(), "jq")
        s2 = s2.assume(z3.ForAll([jq], z3.Implies(And(jq >= 0, jq < n0), keys[jq] == recv.keys[jq])))
        s2 = s2.assume(z3.Implies(z3.Not(has), keys[n0] == k))
        return [(s2, DictV(recv.kk, recv.vk, keys, vals2), NONE)]
    if isinstance(recv, LitDict):
        ks = _simp(idx.t) if isinstance(idx, StrV) else None
        if ks is not None and z3.is_string_value(ks):
            d = dict(recv.items)
            d[ks.as_string()] = val
            return [(st, LitDict(d), NONE)]
        raise Unsupported("symbolic key store into literal dict")
    if isinstance(recv, ObjV):
        h = eng.registry.setitem_hook(recv.cls)
        if h is not None:
            return h(eng, st, recv, idx, val, node)
    raise Unsupported(f"item store on {type(recv).__name__}")


def delitem(eng, st, recv, idx, node):
    raise Unsupported("del item")


def mutate(eng, st, recv, meth, pos, kw, node):
    """Mutating method on a named receiver. Returns list of (state, new_recv, ret) or None."""
    if isinstance(recv, (ListV, TupleV)) and meth == "append":
        v = pos[0]
        if isinstance(recv, TupleV):
            if not recv.is_list:
                return [(st, recv, RaiseV("AttributeError", None, "tuple.append"))]
            if not recv.items:
                want = eng.elem_hint.get(id(node)) if hasattr(eng, "elem_hint") else None
                ek = want or v.kind
                return [(st, ListV(ek, z3.Unit(box(v, ek))), NONE)]
            ek, seq = _seq_of(eng, recv)
            recv = ListV(ek, seq)
        if not fits(v, recv.elem):
            raise Unsupported(f"append of {v.kind!r} to list of {recv.elem!r}")
        return [(st, ListV(recv.elem, z3.Concat(recv.t, z3.Unit(box(v, recv.elem)))), NONE)]
    if isinstance(recv, ListV) and meth == "extend":
        o = pos[0]
        ek, seq = _seq_of(eng, o) if not (isinstance(o, TupleV) and not o.items) else (recv.elem, None)
        if seq is None:
            return [(st, recv, NONE)]
        if ek != recv.elem:
            seq = box(o, KList(recv.elem))
        return [(st, ListV(recv.elem, z3.Concat(recv.t, seq)), NONE)]
    if isinstance(recv, (ListV, TupleV)) and meth == "insert" and len(pos) == 2 and isinstance(pos[0], IntV):
        iv = _simp(pos[0].t)
        v = pos[1]
        if isinstance(recv, TupleV):
            if not recv.is_list:
                return [(st, recv, RaiseV("AttributeError", None, "tuple.insert"))]
            if z3.is_int_value(iv):
                i = iv.as_long()
                items = list(recv.items)
                items.insert(i, v)
                return [(st, TupleV(items, True), NONE)]
            ek, seq = _seq_of(eng, recv)
            recv = ListV(ek, seq)
        if not fits(v, recv.elem):
            raise Unsupported(f"insert of {v.kind!r} into list of {recv.elem!r}")
        n = z3.Length(recv.t)
        i = z3.If(pos[0].t < 0, z3.If(pos[0].t + n < 0, 0, pos[0].t + n), z3.If(pos[0].t > n, n, pos[0].t))
        unit = z3.Unit(box(v, recv.elem))
        if z3.is_int_value(iv) and iv.as_long() == 0:
            return [(st, ListV(recv.elem, z3.Concat(unit, recv.t)), NONE)]
        return [(st, ListV(recv.elem, z3.Concat(z3.SubSeq(recv.t, 0, i), unit, z3.SubSeq(recv.t, i, n - i))), NONE)]
    if isinstance(recv, LitDict) and meth == "pop" and pos and isinstance(pos[0], StrV) and z3.is_string_value(_simp(pos[0].t)):
        key = _simp(pos[0].t).as_string()
        d = dict(recv.items)
        if key in d:
            v = d.pop(key)
            return [(st, LitDict(d), v)]
        if len(pos) > 1:
            return [(st, recv, pos[1])]
        return [(st, recv, RaiseV("KeyError", None, f"pop L{node.lineno}"))]
    if isinstance(recv, LitDict) and meth == "update" and len(pos) == 1 and not kw:
        outs = []
        for s2, o in eng.split(st, pos[0]):
            if isinstance(o, LitDict):
                outs.append((s2, LitDict({**recv.items, **o.items}), NONE))
            elif isinstance(o, DictV) and not recv.items:
                outs.append((s2, clone(o), NONE))      # {}.update(d): a copy of d
            elif isinstance(o, NoneV):
                outs.append((s2, recv, RaiseV("TypeError", None, f"update(None) L{node.lineno}")))
            else:
                raise Unsupported(f"dict literal .update({type(o).__name__})")
        return outs
    if isinstance(recv, SetV) and meth == "add":
        return [(st, SetV(recv.elem, z3.Store(recv.t, box(pos[0], recv.elem), True)), NONE)]
    if isinstance(recv, ObjV) and recv.cls == "Writer" and meth == "write" and "buf" in recv.fields:
        data = to_str(eng, pos[0]) if isinstance(pos[0], StrV) else None
        if data is None:
            return [(st, recv, RaiseV("TypeError", None, "write non-str"))]
        return [(st, recv.with_field("buf", StrV(z3.Concat(recv.fields["buf"].t, data.t))), NONE)]
    if isinstance(recv, ObjV):
        h = eng.registry.mutator_hook(recv.cls, meth)
        if h is not None:
            return h(eng, st, recv, pos, kw, node)
    if isinstance(recv, OpaqueV) and recv.kind.name == "XNode":
        from . import dom_model

        return dom_model.mutate_node(eng, st, recv, meth, pos, kw, node)
    return None


# ------------------------------------------------------------------------------ attributes


def get_attribute(eng, st, v: V, attr: str, node):
    if isinstance(v, ObjV):
        if attr in v.fields:
            return [(st, v.fields[attr])]
        m = eng.registry.method_for(v.cls, attr)
        if m is not None:
            return [(st, BoundMethod(v, m, attr))]
        return [(st, RaiseV("AttributeError", None, f"{v.cls}.{attr} L{getattr_line(node)}"))]
    if isinstance(v, ConstV):
        import builtins as _b

        if hasattr(v.obj, attr):
            return [(st, eng.import_const(_b.getattr(v.obj, attr), f"{v.name}.{attr}"))]
        return [(st, RaiseV("AttributeError", None, f"{v.name}.{attr}"))]
    if isinstance(v, OpaqueV):
        f = eng.registry.field_function(v.kind, attr)
        if f is not None:
            return [(st, f(eng, st, v))]
        raise Unsupported(f"attribute {attr} of opaque {v.kind!r}")
    if isinstance(v, NoneV):
        return [(st, RaiseV("AttributeError", None, f"None.{attr} L{getattr_line(node)}"))]
    if isinstance(v, StrV) and hasattr(v, "pyobj") and attr in ("value", "name"):
        return [(st, eng.import_const(getattr(v.pyobj, attr), attr))]
    if isinstance(v, (StrV, ListV, DictV, TupleV, IntV, RealV, LitDict)):
        return [(st, BoundMethod(v, None, attr))]
    raise Unsupported(f"getattr {attr} on {type(v).__name__}")


def getattr_line(node):
    return getattr(node, "lineno", 0)


class BoundMethod(V):
    def __init__(self, recv, contract, name):
        self.recv, self.contract, self.name = recv, contract, name


def call_method(eng, st, recv: V, meth: str, pos, kw, node):
    """Non-mutating method call (or a mutating one on a temporary)."""
    if isinstance(recv, StrV):
        return str_method(eng, st, recv, meth, pos, kw, node)
    if isinstance(recv, ObjV):
        if meth in recv.fields:
            return eng.call(st, recv.fields[meth], pos, kw, node)
        m = eng.registry.method_for(recv.cls, meth)
        if m is not None:
            if m.params and m.params[0][0] in ("self", "cls"):
                return m.apply(eng, st, [recv, *pos], kw, node)
            return m.apply(eng, st, list(pos), kw, node)   # a staticmethod reached through the instance
        if meth == "get" and pos and isinstance(pos[0], StrV) and z3.is_string_value(_simp(pos[0].t)):
            # SurveyElement.get(key[, default]) = getattr on the slot (Mapping over the object's slots)
            key = _simp(pos[0].t).as_string()
            if key in recv.fields:
                return [(st, recv.fields[key])]
            if len(pos) > 1:
                return [(st, pos[1])]
            return [(st, RaiseV("AttributeError", None, f"{recv.cls}.get({key}) L{node.lineno}"))]
        return [(st, RaiseV("AttributeError", None, f"{recv.cls}.{meth} L{node.lineno}"))]
    if isinstance(recv, OpaqueV):
        m = eng.registry.method_for(recv.kind.name, meth)
        if m is not None:
            return m.apply(eng, st, [recv, *pos], kw, node)
        if recv.kind.name == "XNode":
            from . import dom_model

            r = dom_model.call_node_method(eng, st, recv, meth, pos, kw, node)
            if r is not None:
                return r
        raise Unsupported(f"method {meth} on opaque {recv.kind!r}")
    if isinstance(recv, NoneV):
        return [(st, RaiseV("AttributeError", None, f"None.{meth} L{node.lineno}"))]
    if isinstance(recv, (IntV, BoolV, RealV)):
        if meth == "is_integer" and isinstance(recv, RealV):
            return [(st, BoolV(z3.IsInt(recv.t)))]
        return [(st, RaiseV("AttributeError", None, f"{type(recv).__name__}.{meth} L{node.lineno}"))]
    if isinstance(recv, DictV):
        return dict_method(eng, st, recv, meth, pos, kw, node)
    if isinstance(recv, LitDict):
        if meth == "items" and not pos:
            return [(st, TupleV([TupleV([StrV(k), v]) for k, v in recv.items.items()], True))]
        if meth == "get":
            ks = _simp(pos[0].t) if isinstance(pos[0], StrV) else None
            if ks is not None and z3.is_string_value(ks):
                d = pos[1] if len(pos) > 1 else NONE
                return [(st, recv.items.get(ks.as_string(), d))]
        raise Unsupported(f"literal dict method {meth}")
    if isinstance(recv, ConstV):
        import builtins as _b

        obj = recv.obj
        if isinstance(obj, dict) and meth == "get":
            res = index(eng, st, recv, pos[0], node)
            d = pos[1] if len(pos) > 1 else NONE
            return [(s, d if isinstance(v, RaiseV) and v.cls == "KeyError" else v) for s, v in res]
        if isinstance(obj, dict) and meth in ("items", "keys", "values"):
            if meth == "items":
                return [(st, TupleV([TupleV([const_to_v(k), eng.import_const(x, str(k))]) for k, x in obj.items()], True))]
            if meth == "keys":
                return [(st, TupleV([const_to_v(k) for k in obj], True))]
            return [(st, TupleV([eng.import_const(x, "v") for x in obj.values()], True))]
        import re as _re

        if isinstance(obj, _re.Pattern):
            return regex_method(eng, st, obj, meth, pos, kw, node)
        if hasattr(obj, meth):
            return eng.call(st, eng.import_const(_b.getattr(obj, meth), f"{recv.name}.{meth}"), pos, kw, node)
        return [(st, RaiseV("AttributeError", None, f"{recv.name}.{meth}"))]
    if isinstance(recv, (ListV, TupleV)):
        if meth == "copy" and not pos:
            return [(st, clone(recv))]
        if meth == "index" or meth == "count":
            raise Unsupported(f"list.{meth}")
        if meth in ("append", "extend"):
            # mutation of a temporary: no observable effect
            return [(st, NONE)]
    raise Unsupported(f"method {meth} on {type(recv).__name__}")


def clone(v: V) -> V:
    if isinstance(v, ListV):
        return ListV(v.elem, v.t)
    if isinstance(v, TupleV):
        return TupleV(v.items, v.is_list)
    if isinstance(v, DictV):
        return DictV(v.kk, v.vk, v.keys, v.vals)
    if isinstance(v, ObjV):
        return ObjV(v.cls, v.fields, v._kind)
    return v


def dict_method(eng, st, d: DictV, meth, pos, kw, node):
    if meth == "get":
        if isinstance(pos[0], UnionV):
            # an Optional / union key: one path per alternative (a value of another kind than the keys' is never a key)
            outs = []
            for s1, k1 in eng.split(st, pos[0]):
                outs.extend(dict_method(eng, s1, d, meth, [k1, *pos[1:]], kw, node))
            return outs
        if not fits(pos[0], d.kk):
            return [(st, pos[1] if len(pos) > 1 else NONE)]
        k = box(pos[0], d.kk)
        has = _simp(z3.Contains(d.keys, z3.Unit(k)))
        dflt = pos[1] if len(pos) > 1 else kw.get("default", NONE)
        val = unbox(z3.Select(d.vals, k), d.vk)
        if z3.is_true(has):
            return [(st, val)]
        if z3.is_false(has):
            return [(st, dflt)]
        return [(st, UnionV([(has, val), (z3.Not(has), dflt)]))]
    if meth == "keys" and not pos:
        return [(st, ListV(d.kk, d.keys))]
    if meth in ("items", "values"):
        return [(st, DictView(d, meth))]
    if meth == "copy":
        return [(st, clone(d))]
    raise Unsupported(f"dict.{meth}")


class DictView(V):
    def __init__(self, d: DictV, which: str):
        self.d, self.which = d, which


def _str_format(eng, st, s: StrV, pos, kw):
    """template.format(*pos, **kw) for a constant template whose fields are plain {}, {0}, {name} (no conversions,
    no format specs, no attribute/index access)."""
    import string

    tt = _simp(s.t)
    if not z3.is_string_value(tt) or "**" in kw:
        raise Unsupported("str.format on a non-constant template")
    parts, auto = [], 0
    for lit, field, spec, conv in string.Formatter().parse(tt.as_string()):
        if lit:
            parts.append(z3.StringVal(lit))
        if field is None:
            continue
        if spec or conv or any(ch in field for ch in ".[]"):
            raise Unsupported("str.format with a format spec / conversion / attribute access")
        if field == "":
            if auto >= len(pos):
                return [(st, RaiseV("IndexError", None, "format: positional index out of range"))]
            v = pos[auto]
            auto += 1
        elif field.isdigit():
            if int(field) >= len(pos):
                return [(st, RaiseV("IndexError", None, "format: positional index out of range"))]
            v = pos[int(field)]
        else:
            if field not in kw:
                return [(st, RaiseV("KeyError", None, f"format: no field {field}"))]
            v = kw[field]
        parts.append(to_str(eng, v).t)
    if not parts:
        return [(st, StrV(""))]
    return [(st, StrV(parts[0] if len(parts) == 1 else z3.Concat(*parts)))]


def str_method(eng, st, s: StrV, meth, pos, kw, node):
    t = s.t
    if meth == "format":
        return _str_format(eng, st, s, pos, kw)
    if meth == "startswith" and len(pos) == 1 and isinstance(pos[0], StrV):
        return [(st, BoolV(z3.PrefixOf(pos[0].t, t)))]
    if meth == "endswith" and len(pos) == 1 and isinstance(pos[0], StrV):
        return [(st, BoolV(z3.SuffixOf(pos[0].t, t)))]
    if meth in ("startswith", "endswith") and len(pos) == 1:
        # a tuple of alternatives: true iff one of them matches
        alts = concrete_items(eng, pos[0])
        if alts is not None and all(isinstance(a, StrV) for a in alts):
            op = z3.PrefixOf if meth == "startswith" else z3.SuffixOf
            return [(st, BoolV(z3.Or(*[op(a.t, t) for a in alts]) if alts else z3.BoolVal(False)))]
    if meth == "isspace" and not pos:
        return [(st, BoolV(z3.InRe(t, z3.Plus(re_union(WS_CHARS)))))]
    if meth in ("strip", "lstrip", "rstrip") and not pos:
        f = z3.Function(f"py_{meth}", z3.StringSort(), z3.StringSort())
        eng.trusted_used.add(f"str.{meth} (uninterpreted + axioms)")
        r = f(t)
        ws = z3.Star(re_union(WS_CHARS))
        # axioms sufficient for the kernels: result is a substring without outer whitespace
        st2 = st.assume(z3.Contains(t, r))
        st2 = st2.assume(z3.Length(r) <= z3.Length(t))
        st2 = st2.assume(z3.InRe(t, ws) == (z3.Length(r) == 0))
        return [(st2, StrV(r))]
    if meth in ("lower", "upper") and not pos:
        f = z3.Function(f"py_{meth}", z3.StringSort(), z3.StringSort())
        eng.trusted_used.add(f"str.{meth} (uninterpreted, length-preserving axiom)")
        r = f(t)
        # global axiom (not a path assumption: inside quantified contract clauses a path
        # assumption would become a guard that the solver may falsify)
        key = f"ax_py_{meth}"
        if not getattr(eng, "_global_ax", None):
            eng._global_ax = set()
        if key not in eng._global_ax:
            eng._global_ax.add(key)
            x = z3.String(f"ax_{meth}!s")
            eng.axioms.append(z3.ForAll([x], z3.Length(f(x)) == z3.Length(x), patterns=[f(x)]))
        return [(st, StrV(r))]
    if meth == "replace" and len(pos) == 2 and all(isinstance(p, StrV) for p in pos):
        eng.trusted_used.add("str.replace = SMT-LIB str.replace_all")
        return [(st, StrV(z3.ReplaceAll(t, pos[0].t, pos[1].t) if hasattr(z3, "ReplaceAll") else _replace_all(t, pos[0].t, pos[1].t)))]
    if meth == "find" and len(pos) == 1 and isinstance(pos[0], StrV):
        return [(st, IntV(z3.IndexOf(t, pos[0].t, 0)))]
    if meth == "join" and len(pos) == 1:
        seq = pos[0]
        if isinstance(seq, TupleV):
            parts = []
            for i, it in enumerate(seq.items):
                if not isinstance(it, StrV):
                    return [(st, RaiseV("TypeError", None, "join non-str"))]
                if i:
                    parts.append(t)
                parts.append(it.t)
            if not parts:
                return [(st, StrV(""))]
            return [(st, StrV(parts[0] if len(parts) == 1 else z3.Concat(*parts)))]
        if isinstance(seq, ListV) and seq.elem == K_STR:
            sp = eng.registry.spec_value("Join", eng)
            if sp is None:
                f = z3.Function("py_str_join", z3.StringSort(), seq.t.sort(), z3.StringSort())
                eng.trusted_used.add("str.join over a symbolic list: uninterpreted pure function")
                return [(st, StrV(f(t, seq.t)))]
            return eng.call(st, sp, [s, seq], {}, node)
        raise Unsupported("str.join arg")
    if meth == "format":
        raise Unsupported("str.format")
    if meth == "partition" or meth == "split" or meth == "splitlines":
        sp = eng.registry.spec_value("Str_" + meth, eng)
        if sp is not None:
            return eng.call(st, sp, [s, *pos], kw, node)
    if meth == "translate" and len(pos) == 1 and isinstance(pos[0], ConstV) and isinstance(pos[0].obj, dict):
        eng.trusted_used.add("str.translate(table): per-character map, defined recursively over the string (builtin model)")
        return [(st, StrV(translate_fn(pos[0].obj)(t)))]
    # any other str method with str/int arguments: a pure function of its arguments, left uninterpreted
    RET = {"split": KList(K_STR), "rsplit": KList(K_STR), "splitlines": KList(K_STR),
           "partition": KTuple([K_STR, K_STR, K_STR]), "rpartition": KTuple([K_STR, K_STR, K_STR]),
           "title": K_STR, "capitalize": K_STR, "casefold": K_STR, "swapcase": K_STR, "strip": K_STR, "lstrip": K_STR,
           "rstrip": K_STR, "replace": K_STR, "zfill": K_STR, "center": K_STR, "ljust": K_STR, "rjust": K_STR,
           "removeprefix": K_STR, "removesuffix": K_STR, "expandtabs": K_STR, "format": K_STR,
           "isdigit": K_BOOL, "isalpha": K_BOOL, "isalnum": K_BOOL, "isnumeric": K_BOOL, "isdecimal": K_BOOL,
           "islower": K_BOOL, "isupper": K_BOOL, "isidentifier": K_BOOL, "istitle": K_BOOL, "isascii": K_BOOL,
           "count": K_INT, "index": K_INT, "rfind": K_INT, "rindex": K_INT, "find": K_INT}
    if meth in RET and not kw and all(isinstance(p, (StrV, IntV, NoneV)) for p in pos):
        rk = RET[meth]
        args = [p for p in pos if not isinstance(p, NoneV)]
        sig = "_".join("s" if isinstance(p, StrV) else "i" for p in args)
        f = z3.Function(f"py_str_{meth}_{len(pos)}_{sig}", z3.StringSort(), *[p.t.sort() for p in args], rk.sort())
        eng.trusted_used.add(f"str.{meth}: uninterpreted pure function of its arguments")
        r = f(t, *[p.t for p in args])
        if meth == "split" and len(args) == 1 and isinstance(args[0], StrV):
            # facts of str.split(sep) for a non-empty separator: at least one piece; no separator -> the string itself;
            # otherwise the first piece is the text before the first separator and there is a second piece
            sep = args[0].t
            has = z3.Contains(t, sep)
            eng.trusted_used.add("str.split(sep): head facts (first piece = text before the first separator)")
            st = st.assume(z3.Implies(z3.Length(sep) > 0, And(
                z3.Length(r) >= 1,
                z3.Implies(z3.Not(has), r == z3.Unit(t)),
                z3.Implies(has, And(z3.Length(r) >= 2, r[0] == z3.SubString(t, 0, z3.IndexOf(t, sep, 0)))))))
        return [(st, unbox(r, rk))]
    raise Unsupported(f"str.{meth}")


_TRANSLATE_CACHE: dict = {}


def translate_fn(table: dict):
    """Recursive function implementing str.translate for a constant {ord: str|None} table."""
    import hashlib

    items = tuple(sorted((int(k), v) for k, v in table.items()))
    if items in _TRANSLATE_CACHE:
        return _TRANSLATE_CACHE[items]
    h = hashlib.sha1(repr(items).encode()).hexdigest()[:8]
    f = z3.RecFunction(f"translate_{h}", z3.StringSort(), z3.StringSort())
    x = z3.String(f"translate_{h}!s")
    c = z3.SubString(x, 0, 1)
    m = c
    for k, v in reversed(items):
        rep = z3.StringVal("" if v is None else (v if isinstance(v, str) else chr(v)))
        m = z3.If(c == z3.StringVal(chr(k)), rep, m)
    z3.RecAddDefinition(f, [x], z3.If(z3.Length(x) == 0, z3.StringVal(""),
                                      z3.Concat(m, f(z3.SubString(x, 1, z3.Length(x) - 1)))))
    _TRANSLATE_CACHE[items] = f
    return f


def re_sub_fn(pattern: str):
    import hashlib

    h = hashlib.sha1(pattern.encode()).hexdigest()[:8]
    return z3.Function(f"re_sub_{h}", z3.StringSort(), z3.StringSort(), z3.StringSort())


def abstract_match(pattern: str, how: str):
    import hashlib

    h = hashlib.sha1(pattern.encode()).hexdigest()[:8]
    return z3.Function(f"re_{how}_{h}", z3.StringSort(), z3.BoolSort())


def regex_method(eng, st, pat, meth, pos, kw, node):
    """Compiled-regex methods: uninterpreted functions of (pattern, arguments) — trusted."""
    if any(isinstance(p, UnionV) for p in pos):
        outs = []
        for s1, vals in eng.split_all(st, list(pos)):
            if any(isinstance(v, NoneV) for v in vals):
                outs.append((s1, RaiseV("TypeError", None, f"regex {meth} on None")))
            else:
                outs.extend(regex_method(eng, s1, pat, meth, vals, kw, node))
        return outs
    if meth == "sub" and len(pos) == 2 and all(isinstance(p, StrV) for p in pos):
        eng.trusted_used.add(f"re.sub for pattern {pat.pattern!r}: uninterpreted function of (repl, text)")
        return [(st, StrV(re_sub_fn(pat.pattern)(pos[0].t, pos[1].t)))]
    if meth in ("match", "search", "fullmatch") and len(pos) == 1 and isinstance(pos[0], StrV):
        from . import regexinc

        if pat.pattern in getattr(eng, "abstract_patterns", ()):
            # the contract only needs the code and the specification to use the *same* predicate
            hit = abstract_match(pat.pattern, meth)(pos[0].t)
        else:
            lang = regexinc.match_language(pat, meth)
            eng.trusted_used.add(f"re.{meth} for pattern {pat.pattern[:40]!r}: translated to an SMT regex (pyvc/regexinc.py); match object abstracted")
            hit = z3.InRe(pos[0].t, lang)
        m = ObjV("Match", {"string": pos[0], "_pattern": ConstV(pat)})
        return [(st, UnionV([(hit, m), (z3.Not(hit), NONE)]))]
    raise Unsupported(f"regex method {meth}")


def _replace_all(t, a, b):
    f = z3.Function("str_replace_all", z3.StringSort(), z3.StringSort(), z3.StringSort(), z3.StringSort())
    return f(t, a, b)


# ------------------------------------------------------------------------------ exceptions


def as_exception(eng, v: V) -> RaiseV:
    if isinstance(v, RaiseV):
        return v
    if isinstance(v, ExcObj):
        return RaiseV(v.cls, v.msg, "raise")
    if isinstance(v, ConstV) and isinstance(v.obj, type) and issubclass(v.obj, BaseException):
        return RaiseV(v.obj.__name__, None, "raise")
    raise Unsupported(f"raise of {type(v).__name__}")


class ExcObj(V):
    def __init__(self, cls, msg, pycls=None):
        self.cls, self.msg, self.pycls = cls, msg, pycls


def exc_class_of(eng, name: str):
    """Map an exception class name to the real class (for subclass tests)."""
    import builtins as _b

    for ns in (eng.module_ns, vars(_b), eng.registry.exception_classes):
        c = ns.get(name)
        if isinstance(c, type) and issubclass(c, BaseException):
            return c
    return None


def exc_matches(eng, raised: RaiseV, type_expr, st):
    """True/False: does `except <type_expr>` catch the raised class?"""
    if type_expr is None:
        return True
    res = eng.eval(type_expr, st)
    if len(res) != 1 or isinstance(res[0][1], RaiseV):
        raise Unsupported("except clause expression")
    tv = res[0][1]
    classes = []
    for item in tv.items if isinstance(tv, TupleV) else [tv]:
        if isinstance(item, ConstV) and isinstance(item.obj, type):
            classes.append(item.obj)
        else:
            raise Unsupported("except clause class")
    rc = exc_class_of(eng, raised.cls)
    if rc is None:
        raise Unsupported(f"unknown exception class {raised.cls}")
    return any(issubclass(rc, c) for c in classes)


def exc_object(eng, raised: RaiseV):
    return ExcObj(raised.cls, raised.msg)


def with_stmt(eng, s, st):
    h = eng.registry.with_hook
    if h is None:
        raise Unsupported("with statement")
    return h(eng, s, st)


# ------------------------------------------------------------------------------ generators (ghost)


def ghost_yield(eng, st, v):
    s = st.fork()
    y = s.ghost["yield"]
    s.ghost["yield"] = [*y, v]
    return s


def ghost_yield_from(eng, st, v):
    from .dom_model import ManyV, SegGenV

    s = st.fork()
    y = list(s.ghost["yield"])
    if isinstance(v, SegGenV):
        y.extend(ManyV(seg) if how == "many" else seg for how, seg in v.segments)
    elif isinstance(v, TupleV):  # list literal / concrete generator
        y.extend(v.items)
    elif isinstance(v, ListV):
        y.append(ManyV(v))
    else:
        raise Unsupported(f"yield from {type(v).__name__}")
    s.ghost["yield"] = y
    return s


# ------------------------------------------------------------------------------ comprehensions


def comprehension(eng, st, e, kind):
    if len(e.generators) != 1:
        raise Unsupported("nested comprehension")
    gen = e.generators[0]
    if gen.is_async:
        raise Unsupported("async comprehension")
    outs = []
    for s, it in eng.eval(gen.iter, st):
        if isinstance(it, RaiseV):
            outs.append((s, it))
            continue
        for s1, it1 in eng.split(s, it):
            items = concrete_items(eng, it1)
            if items is not None:
                outs.extend(_comp_concrete(eng, s1, e, gen, items, kind))
            else:
                outs.extend(_comp_symbolic(eng, s1, e, gen, it1, kind))
    return outs


def concrete_items(eng, it):
    """Items of an iterable with statically known length, else None."""
    if isinstance(it, TupleV):
        return list(it.items)
    if isinstance(it, LitDict):
        return [StrV(k) for k in it.items]
    if isinstance(it, ConstV):
        obj = it.obj
        if isinstance(obj, (tuple, list, dict, set, frozenset)):
            keys = sorted(obj) if isinstance(obj, (set, frozenset)) and all(isinstance(x, str) for x in obj) else list(obj)
            return [const_to_v(k) for k in keys]
    if isinstance(it, GenV):
        return list(it.items)
    return None


class GenV(TupleV):
    """Generator with statically known items (result of a concrete comprehension)."""


def _comp_concrete(eng, st, e, gen, items, kind):
    results = [(st, [])]
    for item in items:
        nxt = []
        for s, acc in results:
            if isinstance(acc, RaiseV):
                nxt.append((s, acc))
                continue
            saved = {n: s.vars.get(n) for n in _target_names(gen.target)}
            for oc in eng.assign(gen.target, item, s):
                if oc.kind != "normal":
                    nxt.append((oc.state, oc.value))
                    continue
                cond_states = [(oc.state, True)]
                for cond in gen.ifs:
                    cs2 = []
                    for cs, keep in cond_states:
                        if keep is not True:
                            cs2.append((cs, keep))
                            continue
                        for s3, c in eng.eval(cond, cs):
                            if isinstance(c, RaiseV):
                                cs2.append((s3, c))
                                continue
                            t = _simp(eng.truthy(c))
                            if not z3.is_false(t):
                                sa = s3.assume(t)
                                if z3.is_true(t) or eng.feasible(sa):
                                    cs2.append((sa, True))
                            if not z3.is_true(t):
                                sb = s3.assume(_simp(z3.Not(t)))
                                if z3.is_false(t) or eng.feasible(sb):
                                    cs2.append((sb, False))
                    cond_states = cs2
                for cs, keep in cond_states:
                    if isinstance(keep, RaiseV):
                        nxt.append((_restore(cs, saved), keep))
                    elif keep is False:
                        nxt.append((_restore(cs, saved), acc))
                    else:
                        if kind == "dict":
                            for s4, kv in eng.eval_many([e.key, e.value], cs):
                                nxt.append((_restore(s4, saved), kv if isinstance(kv, RaiseV) else [*acc, TupleV(kv)]))
                        else:
                            for s4, v in eng.eval(e.elt, cs):
                                nxt.append((_restore(s4, saved), v if isinstance(v, RaiseV) else [*acc, v]))
        results = nxt
        if len(results) > 512:
            raise Unsupported("comprehension path explosion")
    out = []
    for s, acc in results:
        if isinstance(acc, RaiseV):
            out.append((s, acc))
        elif kind == "list":
            out.append((s, TupleV(acc, is_list=True)))
        elif kind == "gen":
            out.append((s, GenV(acc)))
        elif kind == "set":
            out.append((s, TupleSet(acc)))
        else:
            out.append((s, make_dict_literal(eng, [kv.items[0] for kv in acc], [kv.items[1] for kv in acc])))
    return out


def _target_names(t):
    return [n.id for n in ast.walk(t) if isinstance(n, ast.Name)]


def _restore(st, saved):
    s = st.fork()
    for n, v in saved.items():
        if v is None:
            s.vars.pop(n, None)
        else:
            s.vars[n] = v
    return s


def _fresh_mark():
    m = z3.FreshConst(z3.IntSort(), "mark")
    return int(str(m).rsplit("!", 1)[1])


def _locals_since(mark, terms):
    """Fresh constants (name!N with N > mark) occurring in the terms: symbols created while a comprehension body was
    evaluated at the generic element; under the pointwise quantifier they are existentially bound per element."""
    out, seen, stack = {}, set(), list(terms)
    while stack:
        t = stack.pop()
        i = t.get_id()
        if i in seen:
            continue
        seen.add(i)
        if z3.is_quantifier(t):
            stack.append(t.body())
            continue
        if z3.is_app(t):
            if t.num_args() == 0 and t.decl().kind() == z3.Z3_OP_UNINTERPRETED:
                name = t.decl().name()
                if "!" in name:
                    tail = name.rsplit("!", 1)[1]
                    if tail.isdigit() and int(tail) > mark:
                        out[i] = t
            else:
                stack.extend(t.children())
    return list(out.values())


def _eliminate_locals(loc, facts, goal):
    """Locals defined by an equation among the facts (c == t, t free of c) are substituted away; returns the remaining
    locals, facts and the rewritten goal."""
    loc = list(loc)
    facts = [f for f in facts]
    changed = True
    while changed and loc:
        changed = False
        for fi, f in enumerate(facts):
            if not (z3.is_eq(f) and f.num_args() == 2):
                continue
            a, b = f.arg(0), f.arg(1)
            for c, t in ((a, b), (b, a)):
                hit = next((x for x in loc if x.eq(c)), None)
                if hit is None or _locals_in(t, [hit]):
                    continue
                facts = [z3.substitute(g, (hit, t)) for gi, g in enumerate(facts) if gi != fi]
                goal = z3.substitute(goal, (hit, t))
                loc = [x for x in loc if not x.eq(hit)]
                changed = True
                break
            if changed:
                break
    return loc, facts, goal


def _locals_in(term, loc):
    ids = {x.get_id() for x in loc}
    seen, stack = set(), [term]
    while stack:
        t = stack.pop()
        if t.get_id() in seen:
            continue
        seen.add(t.get_id())
        if t.get_id() in ids:
            return True
        if z3.is_quantifier(t):
            stack.append(t.body())
        elif z3.is_app(t):
            stack.extend(t.children())
    return False


def _pointwise_body(mark, facts, goal, result_const):
    loc = [x for x in _locals_since(mark, [*facts, goal]) if not x.eq(result_const)]
    loc, facts, goal = _eliminate_locals(loc, facts, goal)
    body = And(*facts, goal)
    return z3.Exists(loc, body) if loc else body


def _pointwise(eng, st, inner, expr, what):
    """Evaluate a comprehension body at the generic element (state `inner`).  Returns (facts, value, raises): the
    path conditions the body added on its single normal path together with its value, and the raising outcomes."""
    n0 = len(inner.pc)
    res = eng.eval(expr, inner)
    normal = [(s, v) for s, v in res if not isinstance(v, RaiseV)]
    raises = [v for s, v in res if isinstance(v, RaiseV)]
    if len(normal) != 1:
        raise Unsupported(f"{what}: comprehension body forks")
    s1, v = normal[0]
    return list(s1.pc[n0:]), v, raises


def _comp_symbolic_dict(eng, st, e, gen, it):
    """{k: f(k, v) for k, v in d.items()} over a symbolic dict: same keys in the same order, values pointwise."""
    if gen.ifs:
        raise Unsupported("filtered dict comprehension over a symbolic dict")
    if not (isinstance(it, DictView) and it.which == "items" and isinstance(gen.target, ast.Tuple)
            and len(gen.target.elts) == 2 and all(isinstance(x, ast.Name) for x in gen.target.elts)
            and isinstance(e.key, ast.Name) and e.key.id == gen.target.elts[0].id):
        raise Unsupported("symbolic dict comprehension of another shape than {k: f(k, v) for k, v in d.items()}")
    d = it.d
    k = z3.FreshConst(d.kk.sort(), "ck")
    mark = _fresh_mark()
    inner = st.bind(gen.target.elts[0].id, unbox(k, d.kk)).bind(gen.target.elts[1].id, unbox(z3.Select(d.vals, k), d.vk))
    facts, v, raises = _pointwise(eng, st, inner, e.value, "dict")
    vk = v.kind
    vals = z3.FreshConst(z3.ArraySort(d.kk.sort(), vk.sort()), "dcomp")
    body = _pointwise_body(mark, facts, z3.Select(vals, k) == box(v, vk), vals)
    s2 = st.assume(z3.ForAll([k], z3.Implies(z3.Contains(d.keys, z3.Unit(k)), body)))
    outs = [(s2, DictV(d.kk, vk, d.keys, vals))]
    for rv in raises:
        outs.append((st, rv))      # some element's body raised (which one is not tracked)
    return outs


def _comp_symbolic(eng, st, e, gen, it, kind):
    """[f(x) for x in seq] over a symbolic sequence: fresh result with pointwise axiom.
    Filters need a spec function and are out of subset here."""
    if kind == "dict":
        return _comp_symbolic_dict(eng, st, e, gen, it)
    if kind not in ("list", "gen"):
        raise Unsupported("symbolic set comprehension")
    if gen.ifs:
        # filtered comprehension over a symbolic sequence: over-approximated by an unconstrained list of the
        # element kind, no longer than the source (sound for postconditions: nothing about its content is known)
        from . import loops as _loops

        view = _loops.iter_view(eng, st, it) if not isinstance(it, ListV) else None
        if isinstance(it, ListV):
            sample, n_src = fresh(it.elem, "cx"), z3.Length(it.t)
        elif view is not None and view.item is not None:
            sample, n_src = view.item(z3.FreshConst(z3.IntSort(), "cxi")), view.length
        else:
            raise Unsupported("filtered comprehension over " + type(it).__name__)
        probes = [oc.state for oc in eng.assign(gen.target, sample, st) if oc.kind == "normal"]
        if not probes:
            raise Unsupported("comprehension target")
        res = [r for r in eng.eval(e.elt, probes[0]) if not isinstance(r[1], RaiseV)]
        if not res:
            raise Unsupported("comprehension body always raises")
        ek = res[0][1].kind
        r = z3.FreshConst(z3.SeqSort(ek.sort()), "fcomp")
        if (getattr(eng, "exact_filters", False) and isinstance(it, ListV) and isinstance(gen.target, ast.Name)
                and isinstance(e.elt, ast.Name) and e.elt.id == gen.target.id and len(gen.ifs) == 1):
            # (x for x in xs if cond(x)), opt-in (`exact_filters()`): the members of the result are exactly the members
            # of xs that satisfy cond (order and multiplicity are not described)
            x = z3.FreshConst(it.elem.sort(), "fx")
            sx = st.bind(gen.target.id, unbox(x, it.elem))
            cres = [(s2, c) for s2, c in eng.eval(gen.ifs[0], sx)]
            if len(cres) == 1 and not isinstance(cres[0][1], RaiseV) and len(cres[0][0].pc) == len(st.pc):
                cond = eng.truthy(cres[0][1])
                ax = z3.ForAll([x], z3.Contains(r, z3.Unit(x)) == And(z3.Contains(it.t, z3.Unit(x)), cond))
                return [(st.assume(z3.Length(r) <= n_src).assume(ax), ListV(ek, r))]
        eng.trusted_used.add("filtered comprehension over a symbolic list: over-approximated (unconstrained result)")
        return [(st.assume(z3.Length(r) <= n_src), ListV(ek, r))]
    if isinstance(it, RangeV):
        n = it.length()
        k = z3.FreshConst(z3.IntSort(), "ci")
        mark = _fresh_mark()
        inner = st.bind(gen.target.id, IntV(it.start + k)) if isinstance(gen.target, ast.Name) else None
        if inner is None:
            raise Unsupported("comprehension target")
        return _comp_list_result(eng, st, inner, e.elt, k, n, mark)
    if isinstance(it, ListV):
        n = z3.Length(it.t)
        k = z3.FreshConst(z3.IntSort(), "ci")
        if not isinstance(gen.target, ast.Name):
            raise Unsupported("comprehension target")
        mark = _fresh_mark()
        inner = st.bind(gen.target.id, elem_at(it.elem, it.t, k))
        return _comp_list_result(eng, st, inner, e.elt, k, n, mark)
    raise Unsupported(f"comprehension over {type(it).__name__}")


def _comp_list_result(eng, st, inner, elt, k, n, mark):
    facts, v, raises = _pointwise(eng, st, inner, elt, "list")
    ek = v.kind
    r = z3.FreshConst(z3.SeqSort(ek.sort()), "comp")
    body = _pointwise_body(mark, facts, r[k] == box(v, ek), r)
    s2 = st.assume(z3.Length(r) == n)
    s2 = s2.assume(z3.ForAll([k], z3.Implies(And(k >= 0, k < n), body)))
    outs = [(s2, ListV(ek, r))]
    for rv in raises:
        outs.append((st, rv))
    return outs


class RangeV(V):
    def __init__(self, start, stop):
        self.start, self.stop = start, stop

    def length(self):
        return z3.If(self.stop > self.start, self.stop - self.start, 0)


class EnumV(V):
    def __init__(self, inner, start):
        self.inner, self.start = inner, start


class ChainV(V):
    """itertools.chain(a, b, ...): iterated as the concatenation of its parts (dicts by their keys)."""

    def __init__(self, parts):
        self.parts = parts

    @property
    def kind(self):
        return None

    def to_seq(self, kind):
        """As a list of kind.elem: the concatenation of the parts (lists, tuples of constants, nested chains)."""
        seqs = []
        for p in self.parts:
            if isinstance(p, UnionV):
                raise Unsupported("box: chain over a union-valued part")
            if isinstance(p, DictV) and p.kk == kind.elem:
                seqs.append(p.keys)     # a dict is iterated by its keys
            else:
                seqs.append(box(p, kind))
        if not seqs:
            return z3.Empty(kind.sort())
        return seqs[0] if len(seqs) == 1 else z3.Concat(*seqs)


# ------------------------------------------------------------------------------ builtins


def _b_len(eng, st, pos, kw):
    outs = []
    for s, v in eng.split(st, pos[0]):
        if isinstance(v, (StrV, ListV)):
            outs.append((s, IntV(z3.Length(v.t))))
        elif isinstance(v, TupleV):
            outs.append((s, IntV(len(v.items))))
        elif isinstance(v, DictV):
            outs.append((s, IntV(z3.Length(v.keys))))
        elif isinstance(v, LitDict):
            outs.append((s, IntV(len(v.items))))
        elif isinstance(v, ConstV) and hasattr(v.obj, "__len__"):
            outs.append((s, IntV(len(v.obj))))
        elif isinstance(v, (NoneV, IntV, BoolV)):
            outs.append((s, RaiseV("TypeError", None, "len()")))
        elif isinstance(v, ObjV) and "__len__" in v.fields:
            outs.append((s, v.fields["__len__"]))
        else:
            raise Unsupported(f"len({type(v).__name__})")
    return outs


def _b_range(eng, st, pos, kw):
    if len(pos) == 1:
        return [(st, RangeV(z3.IntVal(0), box(pos[0], K_INT)))]
    if len(pos) == 2:
        return [(st, RangeV(box(pos[0], K_INT), box(pos[1], K_INT)))]
    raise Unsupported("range with step")


def _b_enumerate(eng, st, pos, kw):
    start = kw.get("start", pos[1] if len(pos) > 1 else IntV(0))
    return [(st, EnumV(pos[0], box(start, K_INT)))]


def _b_isinstance(eng, st, pos, kw):
    v, c = pos
    classes = []
    for item in c.items if isinstance(c, TupleV) else [c]:
        if isinstance(item, FuncV) and item.name in ("str", "int", "bool", "list", "tuple", "set"):
            import builtins as _bb

            classes.append(_bb.__dict__[item.name])
        elif isinstance(item, ConstV) and (isinstance(item.obj, type) or hasattr(item.obj, "__args__")):
            classes.extend(getattr_args(item.obj))
        else:
            raise Unsupported("isinstance class arg")
    return [(st, BoolV(_simp(isinstance_term(eng, v, classes))))]


def getattr_args(obj):
    import types

    if isinstance(obj, types.UnionType):
        return list(obj.__args__)
    return [obj]


def isinstance_term(eng, v: V, classes):
    import collections.abc as cabc

    if isinstance(v, UnionV):
        return Or(*[And(g, isinstance_term(eng, a, classes)) for g, a in v.alts])
    pyt = {
        StrV: str, IntV: int, BoolV: bool, RealV: float, NoneV: type(None), ListV: list,
        DictV: dict, LitDict: dict,
    }.get(type(v))
    if isinstance(v, TupleV):
        pyt = list if v.is_list else tuple
    if isinstance(v, GenV):
        pyt = cabc.Generator
    if pyt is not None:
        return z3.BoolVal(any(isinstance(c, type) and issubclass(pyt, c) for c in classes))
    if isinstance(v, ObjV):
        real = eng.registry.real_class(v.cls)
        if real is not None:
            return z3.BoolVal(any(isinstance(c, type) and issubclass(real, c) for c in classes))
        return z3.BoolVal(False) if all(c in (str, int, float, bool, list, dict, tuple, bytes) for c in classes) else _unsup("isinstance on object")
    if isinstance(v, OpaqueV):
        f = eng.registry.isinstance_function(v.kind)
        if f is not None:
            return f(eng, v, classes)
        if all(c in (str, int, float, bool, list, dict, tuple, bytes) for c in classes):
            return z3.BoolVal(False)
    if isinstance(v, ConstV):
        return z3.BoolVal(isinstance(v.obj, tuple(c for c in classes if isinstance(c, type))))
    raise Unsupported(f"isinstance on {type(v).__name__}")


def _unsup(msg):
    raise Unsupported(msg)


def _b_str(eng, st, pos, kw):
    if not pos:
        return [(st, StrV(""))]
    return [(s, to_str(eng, v)) for s, v in eng.split(st, pos[0])]


def _b_int(eng, st, pos, kw):
    outs = []
    for s, v in eng.split(st, pos[0]):
        if isinstance(v, (IntV, BoolV)):
            outs.append((s, IntV(box(v, K_INT))))
        elif isinstance(v, RealV):
            # truncation toward zero
            t = z3.If(v.t >= 0, z3.ToInt(v.t), -z3.ToInt(-v.t))
            outs.append((s, IntV(t)))
        elif isinstance(v, StrV):
            # digits only (optionally signed, surrounding whitespace ignored by CPython — modelled strictly)
            digits = z3.Plus(z3.Range("0", "9"))
            ok = z3.InRe(v.t, digits)
            s_ok = s.assume(ok)
            if eng.feasible(s_ok):
                outs.append((s_ok, IntV(z3.StrToInt(v.t))))
            s_bad = s.assume(z3.Not(ok))
            if eng.feasible(s_bad):
                eng.trusted_used.add("int(str): only unsigned ASCII digit strings are decoded; anything else is treated as possibly ValueError or a value (havoc)")
                outs.append((s_bad, RaiseV("ValueError", None, "int()")))
                outs.append((s_bad, fresh(K_INT, "int_of_str")))
        else:
            raise Unsupported(f"int({type(v).__name__})")
    return outs


def _b_bool(eng, st, pos, kw):
    return [(st, BoolV(_simp(eng.truthy(pos[0]))))]


def _b_min_max(which):
    def f(eng, st, pos, kw):
        items = pos[0].items if len(pos) == 1 and isinstance(pos[0], TupleV) else pos
        if len(pos) == 1 and not isinstance(pos[0], TupleV):
            raise Unsupported(f"{which} over symbolic iterable")
        if not all(isinstance(i, (IntV, BoolV)) for i in items):
            raise Unsupported(f"{which} of non-int")
        t = box(items[0], K_INT)
        for i in items[1:]:
            x = box(i, K_INT)
            t = z3.If(x < t, x, t) if which == "min" else z3.If(x > t, x, t)
        return [(st, IntV(t))]

    return f


def _b_any_all(which):
    def f(eng, st, pos, kw):
        items = concrete_items(eng, pos[0])
        if items is None and isinstance(pos[0], ListV) and pos[0].elem == K_BOOL:
            k = z3.FreshConst(z3.IntSort(), "ak")
            rng = And(k >= 0, k < z3.Length(pos[0].t))
            if which == "any":
                return [(st, BoolV(z3.Exists([k], And(rng, pos[0].t[k]))))]
            return [(st, BoolV(z3.ForAll([k], z3.Implies(rng, pos[0].t[k]))))]
        if items is None:
            raise Unsupported(f"{which} over symbolic iterable")
        ts = [eng.truthy(i) for i in items]
        return [(st, BoolV(_simp(Or(*ts) if which == "any" else And(*ts))))]

    return f


def _b_list(eng, st, pos, kw):
    if not pos:
        return [(st, TupleV([], is_list=True))]
    v = pos[0]
    if isinstance(v, RangeV):
        n = v.length()
        r = z3.FreshConst(z3.SeqSort(z3.IntSort()), "rng")
        k = z3.FreshConst(z3.IntSort(), "k")
        s2 = st.assume(z3.Length(r) == n)
        s2 = s2.assume(z3.ForAll([k], z3.Implies(And(k >= 0, k < n), r[k] == v.start + k)))
        return [(s2, ListV(K_INT, r))]
    if isinstance(v, TupleV):
        return [(st, TupleV(v.items, is_list=True))]
    if isinstance(v, ListV):
        return [(st, clone(v))]
    if isinstance(v, EnumV):
        inner = v.inner
        if isinstance(inner, TupleV):
            st0 = _simp(v.start)
            if z3.is_int_value(st0):
                return [(st, TupleV([TupleV([IntV(st0.as_long() + i), x]) for i, x in enumerate(inner.items)], True))]
        return [(st, v)]  # list(enumerate(xs)) iterated later: keep lazy view (pure)
    if isinstance(v, DictView):
        return [(st, v)]
    if isinstance(v, ConstV):
        items = concrete_items(eng, v)
        if items is not None:
            return [(st, TupleV(items, is_list=True))]
    raise Unsupported(f"list({type(v).__name__})")


def _b_tuple(eng, st, pos, kw):
    if not pos:
        return [(st, TupleV([]))]
    v = pos[0]
    if isinstance(v, TupleV):
        return [(st, TupleV(v.items))]
    items = concrete_items(eng, v)
    if items is not None:
        return [(st, TupleV(items))]
    if isinstance(v, ListV):
        return [(st, clone(v))]   # tuple(xs) of a symbolic sequence: same items (it is only iterated / tested afterwards)
    if hasattr(v, "to_seq"):
        return [(st, ListV(v.kind.elem, v.to_seq(v.kind)))]
    raise Unsupported(f"tuple({type(v).__name__})")


def _b_set(eng, st, pos, kw):
    if not pos:
        return [(st, TupleSet([]))]
    v = pos[0]
    if isinstance(v, StrV):
        return [(st, CharSet(v))]
    items = concrete_items(eng, v)
    if items is not None:
        return [(st, TupleSet(items))]
    raise Unsupported(f"set({type(v).__name__})")


class CharSet(V):
    """set(text): membership of 1-char strings."""

    def __init__(self, s: StrV):
        self.s = s


_orig_contains = contains


def contains(eng, container, item, st):  # noqa: F811  (extend with CharSet / RangeV)
    if isinstance(container, CharSet):
        if isinstance(item, StrV):
            return And(z3.Length(item.t) == 1, z3.Contains(container.s.t, item.t))
        return z3.BoolVal(False)
    if isinstance(container, RangeV) and isinstance(item, (IntV, BoolV)):
        x = box(item, K_INT)
        return And(x >= container.start, x < container.stop)
    return _orig_contains(eng, container, item, st)


def _b_hasattr(eng, st, pos, kw):
    v, name = pos
    n = _simp(name.t) if isinstance(name, StrV) else None
    if n is None or not z3.is_string_value(n):
        raise Unsupported("hasattr with symbolic name")
    attr = n.as_string()
    outs = []
    for s, v1 in eng.split(st, v):
        if isinstance(v1, ObjV):
            has = attr in v1.fields or eng.registry.method_for(v1.cls, attr) is not None
            outs.append((s, BoolV(has)))
        elif isinstance(v1, OpaqueV):
            f = eng.registry.hasattr_function(v1.kind)
            if f is None:
                raise Unsupported("hasattr on opaque")
            outs.append((s, f(eng, v1, attr)))
        elif isinstance(v1, ConstV):
            outs.append((s, BoolV(hasattr(v1.obj, attr))))
        elif isinstance(v1, NoneV):
            outs.append((s, BoolV(hasattr(None, attr))))
        elif isinstance(v1, StrV):
            outs.append((s, BoolV(hasattr("", attr))))
        elif isinstance(v1, (DictV, LitDict)):
            outs.append((s, BoolV(hasattr({}, attr))))
        else:
            raise Unsupported(f"hasattr on {type(v1).__name__}")
    return outs


def _b_getattr(eng, st, pos, kw):
    """getattr(obj, "name"[, default]) with a literal name: attribute access, the default on AttributeError."""
    if len(pos) not in (2, 3) or kw:
        raise Unsupported("getattr arity")
    v, name = pos[0], pos[1]
    n = _simp(name.t) if isinstance(name, StrV) else None
    if n is None or not z3.is_string_value(n):
        raise Unsupported("getattr with symbolic name")
    attr = n.as_string()
    outs = []
    for s, v1 in eng.split(st, v):
        for s2, r in get_attribute(eng, s, v1, attr, None):
            if isinstance(r, RaiseV) and r.cls == "AttributeError" and len(pos) == 3:
                outs.append((s2, pos[2]))
            else:
                outs.append((s2, r))
    return outs


def _b_next(eng, st, pos, kw):
    items = concrete_items(eng, pos[0])
    if items is None and isinstance(pos[0], ListV):
        # first element of a freshly created generator whose items are a symbolic list
        lst = pos[0]
        n = z3.Length(lst.t)
        first = elem_at(lst.elem, lst.t, z3.IntVal(0))
        outs = []
        s1 = st.assume(n > 0)
        if eng.feasible(s1):
            outs.append((s1, first))
        s0 = st.assume(n <= 0)
        if eng.feasible(s0):
            outs.append((s0, pos[1] if len(pos) > 1 else RaiseV("StopIteration", None, "next")))
        return outs
    if items is None:
        raise Unsupported("next over symbolic iterator")
    if items:
        return [(st, items[0])]
    if len(pos) > 1:
        return [(st, pos[1])]
    return [(st, RaiseV("StopIteration", None, "next"))]


def _b_sorted(eng, st, pos, kw):
    raise Unsupported("sorted")


def _mk_exc(cls):
    def f(eng, st, pos, kw):
        return [(st, ExcObj(cls, to_str(eng, pos[0]) if pos else None))]

    return f


def _b_callable(eng, st, pos, kw):
    v = pos[0]
    return [(st, BoolV(isinstance(v, (FuncV, ClosureV, BoundMethod)) or (isinstance(v, ConstV) and callable(v.obj))))]


BUILTINS = {
    "len": FuncV(_b_len, "len"),
    "range": FuncV(_b_range, "range"),
    "enumerate": FuncV(_b_enumerate, "enumerate"),
    "isinstance": FuncV(_b_isinstance, "isinstance"),
    "str": FuncV(_b_str, "str"),
    "int": FuncV(_b_int, "int"),
    "bool": FuncV(_b_bool, "bool"),
    "min": FuncV(_b_min_max("min"), "min"),
    "max": FuncV(_b_min_max("max"), "max"),
    "any": FuncV(_b_any_all("any"), "any"),
    "all": FuncV(_b_any_all("all"), "all"),
    "list": FuncV(_b_list, "list"),
    "tuple": FuncV(_b_tuple, "tuple"),
    "set": FuncV(_b_set, "set"),
    "hasattr": FuncV(_b_hasattr, "hasattr"),
    "getattr": FuncV(_b_getattr, "getattr"),
    "next": FuncV(_b_next, "next"),
    "sorted": FuncV(_b_sorted, "sorted"),
    "callable": FuncV(_b_callable, "callable"),
}


def model_for_object(obj):
    """Models for real callables reached through module globals."""
    import builtins as _b
    import copy as _copy

    if isinstance(obj, type) and issubclass(obj, BaseException):
        return _mk_exc(obj.__name__)
    if obj is _copy.copy:
        return lambda eng, st, pos, kw: [(st, clone(pos[0]))]
    import itertools as _it

    if obj is _it.chain:
        def _chain(eng, st, pos, kw):
            if any(isinstance(p, UnionV) for p in pos):
                # a part that is a union on this path (an Optional already tested against None): one chain per
                # feasible combination of alternatives
                return [(s2, ChainV(list(alts))) for s2, alts in eng.split_all(st, list(pos))]
            return [(st, ChainV(list(pos)))]

        return _chain
    if getattr(obj, "__name__", "") == "node" and getattr(obj, "__module__", "") == "pyxform.utils":
        from . import dom_model

        return dom_model.node_model
    for name, fv in BUILTINS.items():
        if getattr_safe(_b, name) is obj:
            return fv.fn
    import re as _re

    if obj in (_re.search, _re.match, _re.fullmatch):
        def _re_fn(eng, st, pos, kw, _name=obj.__name__):
            pat = pos[0]
            if isinstance(pat, ConstV) and isinstance(pat.obj, _re.Pattern):
                cp = pat.obj
            elif isinstance(pat, StrV) and z3.is_string_value(_simp(pat.t)):
                cp = _re.compile(_simp(pat.t).as_string())
            else:
                raise Unsupported("re function with symbolic pattern")
            outs = []
            for s2, text in eng.split(st, pos[1]):
                if isinstance(text, StrV):
                    outs.extend(regex_method(eng, s2, cp, _name, [text], kw, None))
                else:
                    outs.append((s2, RaiseV("TypeError", None, f"re.{_name} on {type(text).__name__}")))
            return outs
        return _re_fn
    if obj is _re.escape:
        def _re_escape(eng, st, pos, kw):
            if len(pos) != 1 or not isinstance(pos[0], StrV):
                raise Unsupported("re.escape argument")
            eng.trusted_used.add("re.escape: uninterpreted pure function str -> str")
            return [(st, StrV(z3.Function("py_re_escape", z3.StringSort(), z3.StringSort())(pos[0].t)))]
        return _re_escape
    if obj is _re.sub:
        def _re_sub(eng, st, pos, kw):
            if len(pos) != 3 or not all(isinstance(p, StrV) for p in pos) or kw:
                raise Unsupported("re.sub arguments")
            eng.trusted_used.add("re.sub(pattern, repl, text) with a computed pattern: uninterpreted pure function of its three "
                                 "string arguments (assumed not to raise: the pattern is built from re.escape'd text)")
            f = z3.Function("py_re_sub3", z3.StringSort(), z3.StringSort(), z3.StringSort(), z3.StringSort())
            return [(st, StrV(f(pos[0].t, pos[1].t, pos[2].t)))]
        return _re_sub
    if obj is chr:
        def _chr(eng, st, pos, kw):
            iv = _simp(pos[0].t)
            if z3.is_int_value(iv):
                return [(st, StrV(chr(iv.as_long())))]
            raise Unsupported("chr of symbolic int")
        return _chr
    return None


def getattr_safe(mod, name):
    return mod.__dict__.get(name)
