"""Python `re` patterns (the real compiled objects from /repo) -> z3 regular expressions.

Supported: literals, character classes (ranges, negation, categories \\d \\w \\s), '.', branches,
groups (capturing / non-capturing), greedy and lazy repeats (same language), anchors ^ and $ at the
ends (with Python's `$`-before-trailing-newline rule), IGNORECASE for ASCII letters.
Unsupported constructs raise Unsupported (back-references, look-around, \\b ...).
"""
from __future__ import annotations

import re

try:
    import re._parser as sre_parse
    import re._constants as sre_c
except ImportError:  # pragma: no cover
    import sre_parse  # type: ignore
    import sre_constants as sre_c  # type: ignore

import z3

from .kinds import Unsupported

MAXCH = 0x2FFFF  # z3 string solver character bound


def _ch(c: int):
    return z3.StringVal(chr(c)) if c <= MAXCH else None


def _range(lo: int, hi: int):
    hi = min(hi, MAXCH)
    if lo > hi:
        return None
    return z3.Range(chr(lo), chr(hi)) if lo != hi else z3.Re(chr(lo))


def _union(rs):
    rs = [r for r in rs if r is not None]
    if not rs:
        return z3.Empty(z3.ReSort(z3.StringSort()))
    return rs[0] if len(rs) == 1 else z3.Union(*rs)


ANY = None


def any_char():
    return z3.Range(chr(0), chr(MAXCH))


def any_but_newline():
    return z3.Union(z3.Range(chr(0), chr(9)), z3.Range(chr(11), chr(MAXCH)))


CATS = {
    "CATEGORY_DIGIT": lambda: z3.Range("0", "9"),  # ASCII digits only: \d also matches other Nd (over-approx noted)
    "CATEGORY_SPACE": lambda: _union([z3.Re(c) for c in " \t\n\r\x0b\x0c"]),
    "CATEGORY_WORD": lambda: z3.Union(z3.Range("a", "z"), z3.Range("A", "Z"), z3.Range("0", "9"), z3.Re("_")),
}


def _case_fold(lo, hi, ignorecase):
    out = [_range(lo, hi)]
    if ignorecase:
        for a, b, d in ((65, 90, 32), (97, 122, -32)):
            l2, h2 = max(lo, a), min(hi, b)
            if l2 <= h2:
                out.append(_range(l2 + d, h2 + d))
    return out


def _in(items, ignorecase):
    neg = False
    parts = []
    for op, av in items:
        name = str(op)
        if name == "NEGATE":
            neg = True
        elif name == "LITERAL":
            parts.extend(_case_fold(av, av, ignorecase))
        elif name == "RANGE":
            parts.extend(_case_fold(av[0], av[1], ignorecase))
        elif name == "CATEGORY":
            c = str(av)
            if c in CATS:
                parts.append(CATS[c]())
            elif c.startswith("CATEGORY_NOT_") and "CATEGORY_" + c[13:] in CATS:
                parts.append(z3.Intersect(any_char(), z3.Complement(CATS["CATEGORY_" + c[13:]]())))
            else:
                raise Unsupported(f"regex category {c}")
        else:
            raise Unsupported(f"regex class item {name}")
    u = _union(parts)
    if neg:
        return z3.Intersect(any_char(), z3.Complement(u))
    return u


def _seq(items, ignorecase, at_end_ok):
    rs = []
    n = len(items)
    for i, (op, av) in enumerate(items):
        name = str(op)
        if name == "LITERAL":
            rs.append(_union(_case_fold(av, av, ignorecase)))
        elif name == "NOT_LITERAL":
            rs.append(z3.Intersect(any_char(), z3.Complement(_union(_case_fold(av, av, ignorecase)))))
        elif name == "ANY":
            rs.append(any_but_newline())
        elif name == "IN":
            rs.append(_in(av, ignorecase))
        elif name == "BRANCH":
            rs.append(_union([_seq(list(b), ignorecase, at_end_ok and i == n - 1) for b in av[1]]))
        elif name == "SUBPATTERN":
            rs.append(_seq(list(av[3]), ignorecase, at_end_ok and i == n - 1))
        elif name in ("MAX_REPEAT", "MIN_REPEAT"):
            lo, hi, sub = av
            r = _seq(list(sub), ignorecase, False)
            if hi == sre_c.MAXREPEAT:
                rs.append(z3.Star(r) if lo == 0 else (z3.Plus(r) if lo == 1 else z3.Concat(*([r] * lo), z3.Star(r))))
            else:
                rs.append(z3.Loop(r, lo, hi))
        elif name == "AT":
            pos = str(av)
            if pos in ("AT_BEGINNING", "AT_BEGINNING_STRING") and i == 0:
                continue
            if pos == "AT_END" and i == n - 1 and at_end_ok:
                rs.append(z3.Option(z3.Re("\n")))  # Python: $ also matches before a trailing newline
                continue
            if pos == "AT_END_STRING" and i == n - 1 and at_end_ok:
                continue
            raise Unsupported(f"regex anchor {pos} in the middle")
        else:
            raise Unsupported(f"regex construct {name}")
    if not rs:
        return z3.Re("")
    return rs[0] if len(rs) == 1 else z3.Concat(*rs)


def anchored(pat: re.Pattern):
    """(starts_anchored, ends_anchored) for the top-level sequence."""
    items = list(sre_parse.parse(pat.pattern, pat.flags))
    s = bool(items) and str(items[0][0]) == "AT" and str(items[0][1]).startswith("AT_BEGINNING")
    e = bool(items) and str(items[-1][0]) == "AT" and str(items[-1][1]).startswith("AT_END")
    return s, e


def to_z3(pat: re.Pattern):
    """Language of full strings s such that pat.fullmatch-like acceptance holds, with anchors
    interpreted at the ends only."""
    items = list(sre_parse.parse(pat.pattern, pat.flags))
    return _seq(items, bool(pat.flags & re.IGNORECASE), True)


def match_language(pat: re.Pattern, how: str):
    """Set of strings on which pat.<how>(s) is not None  (how in match|search|fullmatch)."""
    core = to_z3(pat)
    s_anch, e_anch = anchored(pat)
    allc = z3.Star(any_char())
    if how == "fullmatch":
        return core
    pre = z3.Re("") if (how == "match" or s_anch) else allc
    post = z3.Re("") if e_anch else allc
    parts = [p for p in (pre, core, post)]
    return z3.Concat(*parts)


# XML 1.0 (5th ed.) Name productions, as z3 regexes ---------------------------------------

_NAME_START = [(0x3A, 0x3A), (0x41, 0x5A), (0x5F, 0x5F), (0x61, 0x7A), (0xC0, 0xD6), (0xD8, 0xF6), (0xF8, 0x2FF),
               (0x370, 0x37D), (0x37F, 0x1FFF), (0x200C, 0x200D), (0x2070, 0x218F), (0x2C00, 0x2FEF),
               (0x3001, 0xD7FF), (0xF900, 0xFDCF), (0xFDF0, 0xFFFD), (0x10000, 0xEFFFF)]
_NAME_EXTRA = [(0x2D, 0x2E), (0x30, 0x39), (0xB7, 0xB7), (0x300, 0x36F), (0x203F, 0x2040)]


def xml_name(ncname=False):
    start = [r for r in _NAME_START if not (ncname and r == (0x3A, 0x3A))]
    sc = _union([_range(a, b) for a, b in start])
    nc = _union([_range(a, b) for a, b in [*start, *_NAME_EXTRA]])
    return z3.Concat(sc, z3.Star(nc))


def xml_qname():
    n = xml_name(ncname=True)
    return z3.Union(n, z3.Concat(n, z3.Re(":"), n))


def xml_chars():
    """Strings made only of XML 1.0 Char."""
    c = _union([z3.Re("\t"), z3.Re("\n"), z3.Re("\r"), _range(0x20, 0xD7FF), _range(0xE000, 0xFFFD), _range(0x10000, MAXCH)])
    return z3.Star(c)


def included(a, b, timeout_ms=20000):
    """L(a) ⊆ L(b)?  returns (True, None) | (False, witness) | (None, reason)."""
    s = z3.Solver()
    s.set("timeout", timeout_ms)
    x = z3.String("x")
    s.add(z3.InRe(x, a), z3.Not(z3.InRe(x, b)))
    r = s.check()
    if r == z3.unsat:
        return True, None
    if r == z3.sat:
        return False, s.model()[x].as_string()
    return None, s.reason_unknown()
