"""Sidecar contracts: parsing, registry, modular call rule, per-function verification.

A sidecar file is Python source that is parsed with `ast` and never executed by the prover.
Vocabulary (see DESIGN.md appendix A):

    MODULE = "pyxform.some.module"

    @contract("qualname")                  # or @contract("Class.method")
    def _(a: List[T], n: int) -> List[T]:
        requires(expr); ensures(expr)
        raises(PyXFormError, when=expr)    # exactly when;  may_raise(E, when=expr): only if
        locals(name=Kind, ...)             # kind hints for locals that start as [] / {}
        K = expr                           # ghost definition (entry state)
        @loop(0, index="i")                # loop ordinal in source order
        def _():
            invariant(expr); hint(expr); exit_hint(expr); decreases(expr); modifies("x")

    @spec
    def Lev(a: str, i: int, b: str, j: int) -> int: ...   # pure, may recurse

    @lemma
    def name(x: int, ...): requires(...); ensures(...)     # proved as an obligation; usable as hint
"""
from __future__ import annotations

import ast
import copy
import os

import z3

from . import builtins_model as bm
from . import extract
from .engine import And, ContractMismatch, Engine, Or, simp
from .kinds import (
    K_BOOL, K_INT, K_NONE, K_REAL, K_STR, NONE, BoolV, ClosureV, ConstV, DictV, FuncV, IntV,
    KDict, KFn, KList, KObj, KOpaque, KOpt, KSet, KTuple, KUnion, Kind, ListV, NoneV, ObjV,
    OpaqueV, RaiseV, RealV, StrV, TupleV, UnionV, Unsupported, V, box, fits, fresh, named,
    unbox,
)
from .state import Obligation, Outcome, State


# ------------------------------------------------------------------ kind expressions


def parse_kind(e: ast.expr, env: dict) -> Kind:
    if isinstance(e, ast.Constant) and e.value is None:
        return K_NONE
    if isinstance(e, ast.Name):
        base = {"int": K_INT, "str": K_STR, "bool": K_BOOL, "float": K_REAL, "None": K_NONE}
        if e.id in base:
            return base[e.id]
        if e.id in env:
            return env[e.id]
        if len(e.id) <= 2 and e.id.isupper():
            return KOpaque(e.id)
        raise Unsupported(f"unknown kind {e.id}")
    if isinstance(e, ast.Subscript) and isinstance(e.value, ast.Name):
        args = e.slice.elts if isinstance(e.slice, ast.Tuple) else [e.slice]
        ks = [parse_kind(a, env) for a in args]
        n = e.value.id
        if n == "List":
            return KList(ks[0])
        if n == "Opt":
            return KOpt(ks[0])
        if n == "Set":
            return KSet(ks[0])
        if n == "Dict":
            return KDict(ks[0], ks[1])
        if n == "Tuple":
            return KTuple(ks)
        if n == "Union":
            return KUnion(ks)
    if isinstance(e, ast.Call) and isinstance(e.func, ast.Name):
        if e.func.id == "Opaque":
            return KOpaque(e.args[0].value)
        if e.func.id == "Fn":

            ret = [parse_kind(k.value, env) for k in e.keywords if k.arg == "ret"][0]
            return KFn([parse_kind(a, env) for a in e.args], ret)
        if e.func.id == "Obj":
            return KObj(e.args[0].value, {k.arg: parse_kind(k.value, env) for k in e.keywords})
    raise Unsupported(f"kind expression {ast.unparse(e)}")


def is_typevar(k):
    return isinstance(k, KOpaque) and len(k.name) <= 2 and k.name.isupper()


def unify(decl: Kind, actual: Kind, subst: dict):
    if is_typevar(decl):
        subst.setdefault(decl.name, actual)
        return
    if isinstance(decl, (KList, KSet, KOpt)) and type(decl) is type(actual):
        unify(decl.elem, actual.elem, subst)
    elif isinstance(decl, KDict) and isinstance(actual, KDict):
        unify(decl.key, actual.key, subst)
        unify(decl.val, actual.val, subst)
    elif isinstance(decl, KTuple) and isinstance(actual, KTuple) and len(decl.items) == len(actual.items):
        for d, a in zip(decl.items, actual.items):
            unify(d, a, subst)


def instantiate(k: Kind, subst: dict) -> Kind:
    if not subst:
        return k
    if is_typevar(k):
        return subst.get(k.name, k)
    if isinstance(k, KList):
        return KList(instantiate(k.elem, subst))
    if isinstance(k, KSet):
        return KSet(instantiate(k.elem, subst))
    if isinstance(k, KOpt):
        return KOpt(instantiate(k.elem, subst))
    if isinstance(k, KDict):
        return KDict(instantiate(k.key, subst), instantiate(k.val, subst))
    if isinstance(k, KTuple):
        return KTuple([instantiate(i, subst) for i in k.items])
    return k


# ------------------------------------------------------------------ contract structures


class LoopContract:
    def __init__(self, ordinal):
        self.ordinal = ordinal
        self.index = None
        self.header = None
        self.invariants: list[ast.expr] = []
        self.hints: list[ast.expr] = []
        self.exit_hints: list[ast.expr] = []
        self.decreases = None
        self.extra_modifies: list[str] = []


class Contract:
    def __init__(self, module, qualname, node: ast.FunctionDef, registry, kind_env):
        self.module, self.qualname, self.node, self.registry = module, qualname, node, registry
        self.fid = f"{module}.{qualname}"
        self.params: list[tuple[str, Kind, ast.expr | None]] = []
        self.ret: Kind | None = None
        self.requires: list[ast.expr] = []
        self.ensures: list[ast.expr] = []
        self.raises: list[tuple[str, ast.expr, bool]] = []  # (class, when, exact)
        self.raise_messages: dict[str, ast.expr] = {}
        self.ghosts: list[tuple[str, ast.expr]] = []
        self.pre_items: list = []  # requires and ghost definitions in source order (native evaluation)
        self.loops: dict[int, LoopContract] = {}
        self.local_kinds: dict[str, Kind] = {}
        self.trusted = False
        self.no_native = None
        self.uses: list[str] = []
        self.trusted_reason = ""
        self.generator = False
        self.vararg = None
        self.kwarg = None
        self.properties: list[str] = []
        self.replay = None  # name of a builder in the sidecar's native helper module
        self.inline_callees: list[str] = []
        self.mutates: dict[str, ast.expr] = {}  # param name -> expression for its new value
        self.kind_env = kind_env
        self._parse(kind_env)

    def _parse(self, kenv):
        a = self.node.args
        defaults = [None] * (len(a.args) - len(a.defaults)) + list(a.defaults)
        for arg, d in zip(a.args, defaults):
            if arg.annotation is None:
                raise Unsupported(f"{self.fid}: parameter {arg.arg} lacks a kind")
            self.params.append((arg.arg, parse_kind(arg.annotation, kenv), d))
        for arg, d in zip(a.kwonlyargs, a.kw_defaults):
            self.params.append((arg.arg, parse_kind(arg.annotation, kenv), d))
        if a.kwarg is not None:
            self.kwarg = (a.kwarg.arg, parse_kind(a.kwarg.annotation, kenv))
        if self.node.returns is not None:
            self.ret = parse_kind(self.node.returns, kenv)
        for st in self.node.body:
            if isinstance(st, ast.Expr) and isinstance(st.value, ast.Constant):
                continue
            if isinstance(st, ast.Expr) and isinstance(st.value, ast.Call) and isinstance(st.value.func, ast.Name):
                c = st.value
                f = c.func.id
                kw = {k.arg: k.value for k in c.keywords}
                if f == "requires":
                    self.requires.append(c.args[0])
                    self.pre_items.append(("requires", None, c.args[0]))
                elif f == "ensures":
                    self.ensures.append(c.args[0])
                elif f in ("raises", "may_raise"):
                    when = kw.get("when", ast.Constant(value=True))
                    self.raises.append((ast.unparse(c.args[0]), when, f == "raises"))
                    if "message" in kw:
                        self.raise_messages[ast.unparse(c.args[0])] = kw["message"]
                elif f == "locals":
                    for k, v in kw.items():
                        self.local_kinds[k] = parse_kind(v, kenv)
                elif f == "closure":
                    # closure(name=Kind, ...): variables of the enclosing function that a nested function under contract
                    # reads; the nested body is verified for arbitrary values of these kinds, a call binds them to the
                    # enclosing function's values at the time of the call (Python's late binding)
                    if not hasattr(self, "closure_kinds"):
                        self.closure_kinds = {}
                    for k, v in kw.items():
                        self.closure_kinds[k] = parse_kind(v, kenv)
                elif f == "trusted":
                    self.trusted = True
                    self.trusted_reason = c.args[0].value if c.args else ""
                elif f == "use_lemma":
                    self.uses.extend(x.value for x in c.args)
                elif f == "kwargs_shapes":
                    # kwargs_shapes({}, {"append_template": bool}): the keyword sets the function is called with;
                    # the body is verified once per shape with **kwargs a dict of exactly those keys
                    self.kwargs_shapes = []
                    for d in c.args:
                        self.kwargs_shapes.append({k.value: parse_kind(v, kenv) for k, v in zip(d.keys, d.values)})
                elif f == "modifies_fields":
                    # modifies_fields(self=("_xpath",)): the callee may change exactly these fields of the record
                    # parameter; the post-state is final_<param> in ensures clauses (frame proved at every exit)
                    if not hasattr(self, "modifies_fields"):
                        self.modifies_fields = {}
                    for k, v in kw.items():
                        self.modifies_fields[k] = [x.value for x in v.elts]
                elif f == "native_only":
                    # the clauses are executable Python for the bounded native search only: the prover assumes
                    # nothing about the result at call sites (sound: a weaker assumption)
                    self.native_only = True
                elif f == "functional":
                    # the result is named as an uninterpreted function of the arguments at every call site
                    # (assumption: the callee is deterministic in the argument values it is given)
                    self.functional = c.args[0].value
                elif f == "exhaustive_only":
                    self.exhaustive_only = True   # native search: only the EXHAUSTIVE generator, no random phase
                elif f == "abstract_regex":
                    self.abstract_regex = [x.value for x in c.args]
                elif f == "cut_before_assign":
                    # cut_before_assign("name", invariant): each time control reaches an assignment `name = ...` the
                    # invariant is an obligation; the sequence yielded so far is then forgotten and re-introduced as a
                    # fresh value satisfying the invariant (a cut in straight-line code: keeps the term small)
                    if not hasattr(self, "cuts"):
                        self.cuts = {}
                    self.cuts.setdefault(c.args[0].value, []).append(c.args[1])
                elif f == "pointwise_yield":
                    self.pointwise_yield = True
                elif f == "exact_filters":
                    self.exact_filters = True
                elif f == "merge_paths":
                    # join the paths of every `if` statement into one state (values become ite terms / unions):
                    # same obligations, far fewer paths for long chains of independent branches
                    self.merge_paths = True
                elif f == "no_native":
                    self.no_native = c.args[0].value if c.args else "no native stand-in"
                elif f == "generator":
                    self.generator = True
                elif f == "properties":
                    self.properties = [x.value for x in c.args]
                elif f == "replay":
                    self.replay = c.args[0].value
                elif f == "mutates":
                    for k, v in kw.items():
                        self.mutates[k] = v
                elif f == "modifies":
                    pass
                else:
                    raise Unsupported(f"{self.fid}: unknown contract clause {f}")
            elif isinstance(st, ast.Assign) and len(st.targets) == 1 and isinstance(st.targets[0], ast.Name):
                self.ghosts.append((st.targets[0].id, st.value))
                self.pre_items.append(("ghost", st.targets[0].id, st.value))
            elif isinstance(st, ast.FunctionDef):
                self._parse_loop(st)
            elif isinstance(st, ast.Pass):
                pass
            else:
                raise Unsupported(f"{self.fid}: statement in contract: {ast.unparse(st)[:60]}")

    def _parse_loop(self, fn: ast.FunctionDef):
        dec = fn.decorator_list[0]
        if not (isinstance(dec, ast.Call) and isinstance(dec.func, ast.Name) and dec.func.id == "loop"):
            raise Unsupported(f"{self.fid}: nested def without @loop")
        lc = LoopContract(dec.args[0].value)
        for k in dec.keywords:
            if k.arg == "index":
                lc.index = k.value.value
            elif k.arg == "header":
                lc.header = k.value.value
        for st in fn.body:
            if isinstance(st, ast.Expr) and isinstance(st.value, ast.Call) and isinstance(st.value.func, ast.Name):
                c = st.value
                f = c.func.id
                if f == "invariant":
                    lc.invariants.append(c.args[0])
                elif f == "hint":
                    lc.hints.append(c.args[0])
                elif f == "exit_hint":
                    lc.exit_hints.append(c.args[0])
                elif f == "decreases":
                    lc.decreases = c.args[0]
                elif f == "modifies":
                    lc.extra_modifies.extend(a.value for a in c.args)
                else:
                    raise Unsupported(f"{self.fid}: loop clause {f}")
        self.loops[lc.ordinal] = lc

    # --- modular call rule
    def bind_args(self, pos, kw):
        bound = {}
        names = [p[0] for p in self.params]
        if len(pos) > len(names):
            raise Unsupported(f"{self.fid}: too many positional args")
        for n, v in zip(names, pos):
            bound[n] = v
        extra = {}
        for k, v in kw.items():
            if k == "**" and self.kwarg is not None:
                extra["**"] = v
                continue
            if k not in names or k in bound:
                if self.kwarg is not None and k not in names:
                    extra[k] = v
                    continue
                raise Unsupported(f"{self.fid}: keyword {k}")
            bound[k] = v
        if self.kwarg is not None and getattr(self, "kwargs_shapes", None) is not None:
            kn, kk = self.kwarg
            items = {}
            for k, v in extra.items():
                if k == "**":
                    ci = bm.concrete_dict_items(None, v)
                    if ci is None:
                        raise Unsupported(f"{self.fid}: symbolic **mapping into shaped **{kn}")
                    items.update(dict(ci))
                else:
                    items[k] = v
            if not any(set(items) == set(sh) for sh in self.kwargs_shapes):
                raise Unsupported(f"{self.fid}: keywords {sorted(items)} match no declared kwargs shape")
            bound[kn] = bm.LitDict(items)
        elif self.kwarg is not None:
            kn, kk = self.kwarg
            if not extra:
                bound[kn] = DictV(kk.key, kk.val, z3.Empty(z3.SeqSort(kk.key.sort())), z3.K(kk.key.sort(), z3.FreshConst(kk.val.sort(), "nokw")))
            elif list(extra) == ["**"]:
                bound[kn] = extra["**"]
            else:
                raise Unsupported(f"{self.fid}: explicit extra keywords into **{kn}")
        return bound

    def apply(self, eng, st: State, pos, kw, node=None, closure_env=None):
        # a union-valued argument (Optional, ...) that does not fit the declared kind as a whole is split
        # into its feasible alternatives; infeasible ones (e.g. None after a truthiness test) are pruned
        for i, v in enumerate(pos):
            if isinstance(v, UnionV) and i < len(self.params) and not is_typevar(self.params[i][1]) \
                    and not isinstance(self.params[i][1], KFn) and not fits(v, self.params[i][1]):
                outs = []
                for s2, alt in eng.split(st, v):
                    outs.extend(self.apply(eng, s2, [*pos[:i], alt, *pos[i + 1:]], kw, node, closure_env))
                return outs
        bound = self.bind_args(pos, kw)
        env = dict(closure_env or {})   # a nested function's contract may mention the variables it closes over
        for cn, ck in getattr(self, "closure_kinds", {}).items():
            if cn not in env:
                raise Unsupported(f"{self.fid}: closure variable {cn} is not bound at the call")
            if not fits(env[cn], ck):
                raise Unsupported(f"{self.fid}: closure variable {cn} of kind {env[cn].kind!r} does not fit {ck!r}")
            env[cn] = unbox(box(env[cn], ck), ck)
        subst: dict = {}
        for n, k, d in self.params:
            if n in bound:
                try:
                    unify(k, bound[n].kind, subst)
                except Exception:  # noqa: BLE001
                    pass
        plist = list(self.params) + ([(self.kwarg[0], self.kwarg[1], None)] if self.kwarg is not None else [])
        for n, k, d in plist:
            if self.kwarg is not None and n == self.kwarg[0] and isinstance(bound.get(n), bm.LitDict):
                env[n] = bound[n]
                continue
            k = instantiate(k, subst)
            if n not in bound:
                if d is None:
                    raise Unsupported(f"{self.fid}: missing argument {n}")
                r = eng.eval(d, State({}, st.pc))
                bound[n] = r[0][1]
            v = bound[n]

            if isinstance(k, KFn):
                env[n] = v
                # the source text of a callback is available to the contract as <param>_src, so that a
                # trusted traversal contract can name the filter it was given
                env[n + "_src"] = StrV(ast.unparse(v.node) if isinstance(v, ClosureV) else getattr(v, "name", "fn"))
                continue
            if not fits(v, k):
                raise Unsupported(f"{self.fid}: argument {n} of kind {v.kind!r} does not fit {k!r}")
            env[n] = unbox(box(v, k), k)
        line = getattr(node, "lineno", 0)
        where = f"L{line - eng.line0}:{self.qualname}"
        genv = dict(env)
        native_only = getattr(self, "native_only", False)
        for gname, gexpr in ([] if native_only else self.ghosts):
            genv[gname] = eng.eval_contract_value(gexpr, st, genv)
        for k, r in enumerate([] if native_only else self.requires):
            goal = eng.eval_contract_expr(r, st, genv, where="pre", only_env=True)
            eng.oblige("pre@call", f"{where}.{k}", st, goal, line)
        if self.trusted:
            eng.trusted_used.add(f"contract of {self.fid} (trusted: {self.trusted_reason})")
        outs = []
        # exceptional exits
        normal = st
        for cls, when, exact in self.raises:
            if native_only:
                w, exact = z3.BoolVal(True), False   # may raise the declared classes under unknown conditions
            else:
                w = eng.eval_contract_expr(when, st, genv, where="raises", only_env=True)
            s_exc = st.assume(w)
            if not z3.is_false(simp(w)) and eng.feasible(s_exc):
                outs.append((s_exc, RaiseV(cls, None, f"call {self.qualname}")))
            if exact:
                normal = normal.assume(simp(z3.Not(w)))
        if self.ret is None or self.ret == K_NONE:
            res = NONE
        elif getattr(self, "functional", None):
            rk = instantiate(self.ret, subst)
            fargs = [(n, instantiate(k, subst)) for n, k, _ in self.params if not isinstance(k, KFn)]   # (**kwargs not part of the name)
            fn_ = z3.Function(self.functional, *[k.sort() for _, k in fargs], rk.sort())
            res = unbox(fn_(*[box(env[n], k) for n, k in fargs]), rk)
            eng.trusted_used.add(f"{self.fid}: result named {self.functional}(args) at call sites (deterministic in its arguments)")
        else:
            res = fresh(instantiate(self.ret, subst), f"ret_{self.qualname.replace('.', '_')}")
        env2 = {**genv, "result": res}
        finals = {}
        for pname, fields in getattr(self, "modifies_fields", {}).items():
            old = env[pname]
            if isinstance(old, OpaqueV) and old.kind.name == "XNode":
                from . import dom_model as _dm

                r = z3.FreshConst(_dm.XNODE.sort(), f"{pname}_after")
                same = [fn_() (r) == fn_()(old.t) for nm, (fn_, _k) in _dm.FIELDS.items()
                        if nm not in fields and not (nm == "childNodes" and "kids" in fields) and nm != "childNodes"]
                normal = normal.assume(And(*same))
                finals[pname] = OpaqueV(_dm.XNODE, r)
                env2["final_" + pname] = finals[pname]
                continue
            if not isinstance(old, ObjV):
                raise Unsupported(f"{self.fid}: modifies_fields on non-record {pname}")
            newv = old
            for fld in fields:
                newv = newv.with_field(fld, fresh(old.fields[fld].kind, f"{pname}_{fld}_after_{self.qualname.replace('.', '_')}"))
            finals[pname] = newv
            env2["final_" + pname] = newv
        for e in ([] if getattr(self, "native_only", False) else self.ensures):
            normal = normal.assume(eng.eval_contract_expr(e, normal, env2, where="ensures", only_env=True))
        # frame: parameters the callee mutates are rebound in the caller to their declared new value
        todo = [(pname, None, newv) for pname, newv in finals.items()] + [(pname, expr, None) for pname, expr in self.mutates.items()]
        for pname, expr, newv in todo:
            if newv is None:
                newv = eng.eval_contract_value(expr, normal, env2)
            idx = [p[0] for p in self.params].index(pname)
            argexpr = None
            if node is not None:
                off = 1 if (isinstance(node.func, ast.Attribute) and self.params and self.params[0][0] == "self"
                            and len(pos) == len(node.args) + 1) else 0
                if idx - off >= 0 and idx - off < len(node.args):
                    argexpr = node.args[idx - off]
                elif idx == 0 and off == 1:
                    argexpr = node.func.value
                else:
                    for k in node.keywords:
                        if k.arg == pname:
                            argexpr = k.value
            path = eng._lvalue_path(argexpr) if argexpr is not None else None
            if path is None:
                raise Unsupported(f"{self.fid}: mutated argument {pname} is not a plain variable at the call site")
            cur = eng._read_path(normal, path)
            if isinstance(cur, ObjV) and isinstance(newv, ObjV) and set(newv.fields) < set(cur.fields):
                # the callee's record view has fewer fields than the caller's object: only those are written back
                merged = cur
                for fn_, fv in newv.fields.items():
                    merged = merged.with_field(fn_, fv)
                newv = merged
            normal = eng._write_path(normal, path, newv)
        if eng.feasible(normal):
            outs.append((normal, res))
        return outs


class SpecFunction:
    """Pure (possibly recursive) specification function, translated to a z3 RecFunction."""

    def __init__(self, name, node: ast.FunctionDef, registry, kenv):
        self.name, self.node, self.registry = name, node, registry
        self.params = [(a.arg, parse_kind(a.annotation, kenv)) for a in node.args.args]
        self.ret = parse_kind(node.returns, kenv)
        self.fn = None
        self.defined = False
        self.uninterpreted = any(
            isinstance(s, ast.Expr) and isinstance(s.value, ast.Call)
            and getattr(s.value.func, "id", "") == "uninterpreted" for s in node.body
        )
        # non-recursive specs are macros: expanded at each use (so they may contain quantifiers);
        # `inline()` in the body asks for expansion explicitly
        want_inline = any(isinstance(s_, ast.Expr) and isinstance(s_.value, ast.Call)
                          and getattr(s_.value.func, "id", "") == "inline" for s_ in node.body)
        if want_inline:
            node.body = [s_ for s_ in node.body if not (isinstance(s_, ast.Expr) and isinstance(s_.value, ast.Call)
                                                         and getattr(s_.value.func, "id", "") == "inline")]
        self.macro = want_inline or (not self.uninterpreted
                      and not any(isinstance(n, ast.Call) and getattr(n.func, "id", "") == name for n in ast.walk(node))
                      and any(isinstance(n, ast.Call) and getattr(n.func, "id", "") in ("exists", "forall", "forall_str", "forall_of")
                              for n in ast.walk(node)))

    def decl(self):
        if self.fn is None:
            sorts = [k.sort() for _, k in self.params] + [self.ret.sort()]
            self.fn = z3.Function(self.name, *sorts) if self.uninterpreted else z3.RecFunction(self.name, *sorts)
        return self.fn

    def define(self, eng):
        if self.defined or self.uninterpreted:
            return
        self.defined = True
        f = self.decl()
        vars_ = [z3.Const(f"{self.name}!{n}", k.sort()) for n, k in self.params]
        st = State({n: unbox(v, k) for (n, k), v in zip(self.params, vars_)})
        old_mode, eng.spec_mode = eng.spec_mode, True
        # no feasibility pruning while a definition is being built: z3 gives *undefined*
        # recursive functions a default interpretation, which would prune real branches
        if not hasattr(eng, "defining"):
            eng.defining = set()
        eng.defining.add(self.name)
        try:
            outs = eng.exec_block(self.node.body, st)
        finally:
            eng.spec_mode = old_mode
            eng.defining.discard(self.name)
        body = None
        for oc in reversed(outs):
            if oc.kind != "return":
                raise Unsupported(f"spec {self.name}: path without return ({oc.kind})")
            t = box(oc.value, self.ret)
            body = t if body is None else z3.If(And(*oc.state.pc), t, body)
        z3.RecAddDefinition(f, vars_, body)

    def value(self, eng):
        spec = self
        if self.macro:
            def expand(eng2, st, pos, kw):
                args = {}
                for (n, k), v in zip(spec.params, pos):
                    if not fits(v, k) and isinstance(v, UnionV):
                        v = _project(v, k)
                    if not fits(v, k):
                        raise Unsupported(f"spec {spec.name}: arg {n} kind {v.kind!r} vs {k!r}")
                    args[n] = v
                old_mode, eng2.spec_mode = eng2.spec_mode, True
                try:
                    inner = State(args, st.pc, st.ghost)
                    outs = []
                    for oc in eng2.exec_block(spec.node.body, inner):
                        if oc.kind != "return":
                            raise Unsupported(f"spec {spec.name}: path without return ({oc.kind})")
                        outs.append((State(st.vars, oc.state.pc, st.ghost), oc.value))
                    return outs
                finally:
                    eng2.spec_mode = old_mode

            return FuncV(expand, self.name)

        def call(eng2, st, pos, kw):
            spec.define(eng2)
            args = []
            for (n, k), v in zip(spec.params, pos):
                if not fits(v, k) and isinstance(v, UnionV):
                    # total (underspecified) projection onto the expected kind
                    v = _project(v, k)
                if not fits(v, k):
                    raise Unsupported(f"spec {spec.name}: arg {n} kind {v.kind!r} vs {k!r}")
                args.append(box(v, k))
            return [(st, unbox(spec.decl()(*args), spec.ret))]

        return FuncV(call, self.name)


def _flat_alts(v, guard=None):
    """(guard, alternative) pairs of a possibly nested union value, e.g. Opt[Union[str, Dict]] -> str, dict, None."""
    out = []
    for g, a in v.alts:
        g2 = g if guard is None else z3.And(guard, g)
        if isinstance(a, UnionV):
            out.extend(_flat_alts(a, g2))
        else:
            out.append((g2, a))
    return out


def _project(v, k):
    """Total (underspecified) projection of a union value onto kind k: the alternative of kind k that the guards select
    (an ite over them when several alternatives have the kind; the last one stands for "none of them")."""
    cand = [(g, a) for g, a in _flat_alts(v) if fits(a, k)]
    if not cand:
        return v
    if len(cand) == 1:
        return cand[0][1]
    t = box(cand[-1][1], k)
    for g, a in reversed(cand[:-1]):
        t = z3.If(g, box(a, k), t)
    return unbox(t, k)


class Lemma:
    """@lemma / @lemma(induct="s") : proved once (base + step for string/sequence/int induction),
    then usable in contracts through use_lemma("name") as a universally quantified hypothesis."""

    def __init__(self, name, node, registry, kenv, induct=None):
        self.name, self.node = name, node
        self.params = [(a.arg, parse_kind(a.annotation, kenv)) for a in node.args.args]
        self.requires, self.ensures, self.induct = [], [], induct
        self.properties = []
        self.uses = []
        for st in node.body:
            if isinstance(st, ast.Expr) and isinstance(st.value, ast.Call):
                f = getattr(st.value.func, "id", "")
                if f == "requires":
                    self.requires.append(st.value.args[0])
                elif f == "ensures":
                    self.ensures.append(st.value.args[0])
                elif f == "properties":
                    self.properties = [x.value for x in st.value.args]
                elif f == "use_lemma":
                    self.uses.extend(x.value for x in st.value.args)


# ------------------------------------------------------------------ registry


class Registry:
    def __init__(self):
        self.contracts: dict[str, Contract] = {}
        self.specs: dict[str, SpecFunction] = {}
        self.lemmas: dict[str, Lemma] = {}
        self.by_object: dict[int, Contract] = {}
        self.exception_classes: dict = {}
        self.methods: dict[tuple[str, str], Contract] = {}
        self.with_hook = None
        self.hooks: dict = {}
        self.sidecar_files: list[str] = []
        self.native_env: dict = {}

    # hooks (all optional)
    def setattr_hook(self, cls):
        return self.hooks.get(("setattr", cls))

    def getitem_hook(self, cls):
        return self.hooks.get(("getitem", cls))

    def setitem_hook(self, cls):
        return self.hooks.get(("setitem", cls))

    def mutator_hook(self, cls, meth):
        return self.hooks.get(("mutator", cls, meth))

    def method_for(self, cls, meth):
        m = self.methods.get((cls, meth))
        if m is None:
            real = self.hooks.get(("class", cls))
            if isinstance(real, type):   # a record kind declared for a real class: follow its MRO
                for base in real.__mro__[1:]:
                    m = self.methods.get((base.__name__, meth))
                    if m is not None:
                        break
        return m

    def field_function(self, kind, attr):
        return self.hooks.get(("field", kind.name, attr))

    def isinstance_function(self, kind):
        return self.hooks.get(("isinstance", kind.name))

    def hasattr_function(self, kind):
        return self.hooks.get(("hasattr", kind.name))

    def real_class(self, cls):
        return self.hooks.get(("class", cls))

    def iter_hook(self, v):
        h = self.hooks.get(("iter", type(v).__name__))
        return h

    def spec_value(self, name, eng):
        s = self.specs.get(name)
        if s is not None:
            return s.value(eng)
        return CONTRACT_FUNCS.get(name)

    def contract_for_object(self, obj):
        c = self.by_object.get(id(obj))
        if c is None and hasattr(obj, "__wrapped__"):
            c = self.by_object.get(id(obj.__wrapped__))
        return c

    def _declare_field(self, kname, attr, fk):
        """Field of an opaque reference kind = uninterpreted function Ref -> field sort."""
        kind = KOpaque(kname)

        def getter(eng, st, v, fn_name=f"{kname}_{attr}", fk=fk, kind=kind):
            f = z3.Function(fn_name, kind.sort(), fk.sort())
            return unbox(f(v.t), fk)

        self.hooks[("field", kname, attr)] = getter

    def _declare_isinstance(self, kname):
        import importlib

        kind = KOpaque(kname)
        classes = []
        for modn in ("pyxform.survey_element", "pyxform.section", "pyxform.question", "pyxform.survey",
                     "pyxform.external_instance", "pyxform.entities.entity_declaration"):
            try:
                m = extract.import_module(modn)
            except Exception:  # noqa: BLE001
                continue
            base = getattr(extract.import_module("pyxform.survey_element"), "SurveyElement")
            for v in vars(m).values():
                if isinstance(v, type) and issubclass(v, base) and v not in classes:
                    classes.append(v)

        def isa(t, cls):
            f = z3.Function(f"IsA_{kname}", kind.sort(), z3.StringSort(), z3.BoolSort())
            return f(t, z3.StringVal(cls.__name__))

        def hook(eng, v, wanted):
            ws = [c for c in wanted if isinstance(c, type)]
            if any(c in (str, int, float, bool, list, dict, tuple, bytes) for c in ws):
                ws = [c for c in ws if c not in (str, int, float, bool, list, dict, tuple, bytes)]
            # hierarchy facts about this value (added once per value as global axioms of the current function)
            key = ("isa-axioms", v.t.get_id())
            if key not in getattr(eng, "_isa_done", set()):
                eng._isa_done = getattr(eng, "_isa_done", set()) | {key}
                for a in classes:
                    for b in classes:
                        if a is b:
                            continue
                        if issubclass(a, b):
                            eng.axioms.append(z3.Implies(isa(v.t, a), isa(v.t, b)))
                        elif not issubclass(b, a) and not any(issubclass(c, a) and issubclass(c, b) for c in classes):
                            eng.axioms.append(z3.Not(z3.And(isa(v.t, a), isa(v.t, b))))
            return Or(*[isa(v.t, c) for c in ws]) if ws else z3.BoolVal(False)

        self.hooks[("isinstance", kname)] = hook

        def has(eng, v, attr):
            f = z3.Function(f"HasAttr_{kname}", kind.sort(), z3.StringSort(), z3.BoolSort())
            return BoolV(f(v.t, z3.StringVal(attr)))

        self.hooks[("hasattr", kname)] = has

    # loading
    def load_sidecar(self, path: str):
        with open(path, encoding="utf-8") as f:
            tree = ast.parse(f.read(), filename=path)
        self.sidecar_files.append(path)
        module = None
        kenv: dict = {}
        for st in tree.body:
            if isinstance(st, ast.Assign) and isinstance(st.targets[0], ast.Name):
                n = st.targets[0].id
                if n == "MODULE":
                    module = st.value.value
                else:
                    try:
                        kenv[n] = parse_kind(st.value, kenv)
                    except Unsupported:
                        pass
            elif isinstance(st, ast.Expr) and isinstance(st.value, ast.Call) and getattr(st.value.func, "id", "") == "declare_fields":
                kname = st.value.args[0].value
                for k in st.value.keywords:
                    self._declare_field(kname, k.arg, parse_kind(k.value, kenv))
            elif isinstance(st, ast.Expr) and isinstance(st.value, ast.Call) and getattr(st.value.func, "id", "") == "declare_isinstance":
                # declare_isinstance("Elem"): isinstance(e, C) on the opaque kind is the uninterpreted predicate
                # IsA(e, "C") constrained by the real class hierarchy of pyxform's survey elements
                self._declare_isinstance(st.value.args[0].value)
            elif isinstance(st, ast.Expr) and isinstance(st.value, ast.Call) and getattr(st.value.func, "id", "") == "declare_class":
                # declare_class("Survey", "pyxform.survey.Survey"): record kind name -> real class (isinstance tests)
                cname, dotted = st.value.args[0].value, st.value.args[1].value
                modn, _, attr = dotted.rpartition(".")
                try:
                    self.hooks[("class", cname)] = getattr(extract.import_module(modn), attr)
                except Exception:  # noqa: BLE001
                    pass
            elif isinstance(st, ast.FunctionDef) and st.decorator_list:
                d = st.decorator_list[0]
                dname = d.func.id if isinstance(d, ast.Call) else getattr(d, "id", "")
                if dname == "contract":
                    q = d.args[0].value
                    mod = module
                    for k in d.keywords:
                        if k.arg == "module":
                            mod = k.value.value
                    c = Contract(mod, q, st, self, kenv)
                    self.contracts[c.fid] = c
                elif dname == "spec":
                    self.specs[st.name] = SpecFunction(st.name, st, self, kenv)
                elif dname == "lemma":
                    ind = None
                    if isinstance(d, ast.Call):
                        for k in d.keywords:
                            if k.arg == "induct":
                                ind = k.value.value
                    self.lemmas[st.name] = Lemma(st.name, st, self, kenv, ind)

    def link(self):
        """Associate contracts with the real function objects (for call-site lookup)."""
        from . import dom_model

        dom_model.install(self)
        for c in self.contracts.values():
            if "." in c.qualname and "<locals>" not in c.qualname:
                cls, meth = c.qualname.rsplit(".", 1)
                self.methods[(cls, meth)] = c
            try:
                if c.module.startswith("pyxform"):
                    m = extract.import_module(c.module)
                else:
                    import importlib

                    m = importlib.import_module(c.module)
            except Exception:
                continue
            obj = m
            ok = True
            for p in c.qualname.split("."):
                if p == "<locals>":
                    ok = False
                    break
                obj = getattr(obj, p, None)
                if obj is None:
                    ok = False
                    break
            if ok and obj is not None:
                # a function reached by name (Class.method(self, ...)) is the contract of the class that *defines* it:
                # a contract written on a subclass view of an inherited method must not capture that lookup
                defines = True
                if "." in c.qualname:
                    owner = m
                    for p in c.qualname.split(".")[:-1]:
                        owner = getattr(owner, p, None)
                    defines = not isinstance(owner, type) or c.qualname.rsplit(".", 1)[1] in vars(owner)
                prev = self.by_object.get(id(obj))
                if prev is None or defines:
                    self.by_object[id(obj)] = c
                    w = getattr(obj, "__wrapped__", None)
                    if w is not None:
                        self.by_object[id(w)] = c
                if "." in c.qualname:
                    cls, meth = c.qualname.rsplit(".", 1)
                    self.methods[(cls, meth)] = c


# ------------------------------------------------------------------ contract-language functions


def _cf_implies(eng, st, pos, kw):
    return [(st, BoolV(z3.Implies(eng.truthy(pos[0]), eng.truthy(pos[1]))))]


def _cf_iff(eng, st, pos, kw):
    return [(st, BoolV(eng.truthy(pos[0]) == eng.truthy(pos[1])))]


def _cf_forall(eng, st, pos, kw):
    """forall(lo, hi, lambda k: P)  ==  for all ints k with lo <= k < hi: P."""
    lo, hi, fn = pos
    k = z3.FreshConst(z3.IntSort(), "q")
    res = eng.call(st, fn, [IntV(k)], {})
    body = eng.results_to_bool(st, res)
    rng = And(box(lo, K_INT) <= k, k < box(hi, K_INT))
    return [(st, BoolV(z3.ForAll([k], z3.Implies(rng, body))))]


def _cf_forall2(eng, st, pos, kw):
    """forall2(n, lambda a, b: P)  ==  for all ints 0 <= a < b < n: P   (one two-variable quantifier)."""
    n, fn = pos
    a = z3.FreshConst(z3.IntSort(), "qa")
    b = z3.FreshConst(z3.IntSort(), "qb")
    res = eng.call(st, fn, [IntV(a), IntV(b)], {})
    body = eng.results_to_bool(st, res)
    return [(st, BoolV(z3.ForAll([a, b], z3.Implies(And(0 <= a, a < b, b < box(n, K_INT)), body))))]


def _cf_exists(eng, st, pos, kw):
    lo, hi, fn = pos
    k = z3.FreshConst(z3.IntSort(), "q")
    res = eng.call(st, fn, [IntV(k)], {})
    body = eng.results_to_bool(st, res)
    rng = And(box(lo, K_INT) <= k, k < box(hi, K_INT))
    return [(st, BoolV(z3.Exists([k], And(rng, body))))]


def _cf_forall_str(eng, st, pos, kw):
    fn = pos[0]
    k = z3.FreshConst(z3.StringSort(), "qs")
    res = eng.call(st, fn, [StrV(k)], {})
    return [(st, BoolV(z3.ForAll([k], eng.results_to_bool(st, res))))]


def _cf_forall_of(eng, st, pos, kw):
    """forall_of("Kind", lambda x: P): for every value x of the named opaque (reference) kind."""
    from .kinds import KOpaque, OpaqueV

    kname, fn = pos
    name = kname.obj if isinstance(kname, ConstV) else None
    if isinstance(kname, StrV) and z3.is_string_value(kname.t):
        name = kname.t.as_string()
    if not isinstance(name, str):
        raise Unsupported("forall_of needs a literal kind name")
    kind = KOpaque(name)
    k = z3.FreshConst(kind.sort(), "qo")
    res = eng.call(st, fn, [OpaqueV(kind, k)], {})
    return [(st, BoolV(z3.ForAll([k], eng.results_to_bool(st, res))))]


def _cf_ite(eng, st, pos, kw):
    c, a, b = pos
    t = eng.truthy(c)
    if a.kind != b.kind:
        return [(st, UnionV([(t, a), (z3.Not(t), b)]))]
    return [(st, unbox(z3.If(t, box(a, a.kind), box(b, a.kind)), a.kind))]


def resolve_dotted(dotted: str):
    """The object a contract names by dotted path in /repo; a name that no longer exists means the contract does not
    apply to the code as it is now (UNDECIDED), not a checker failure."""
    mod, _, attr = dotted.rpartition(".")
    try:
        return getattr(extract.import_module(mod), attr)
    except (AttributeError, ImportError, ModuleNotFoundError) as e:
        raise ContractMismatch(f"contract names {dotted}, which does not exist in the code as it is now ({type(e).__name__})") from e


def named_language(name: str, how: str = "match"):
    """XmlName | NCName | QName | XmlChars | dotted path of a compiled pattern in /repo."""
    from . import regexinc

    if name == "XmlName":
        return regexinc.xml_name()
    if name == "NCName":
        return regexinc.xml_name(ncname=True)
    if name == "QName":
        return regexinc.xml_qname()
    if name == "XmlChars":
        return regexinc.xml_chars()
    return regexinc.match_language(resolve_dotted(name), how)


def _cf_in_re(eng, st, pos, kw):
    """matches(s, NAME[, how]): s is in the named regular language (see named_language)."""
    s = pos[0]
    n = z3.simplify(pos[1].t).as_string()
    how = z3.simplify(pos[2].t).as_string() if len(pos) > 2 else "match"
    if isinstance(s, UnionV):
        cand = [a for _, a in s.alts if isinstance(a, StrV)]
        s = cand[0]
    if "." in n:
        pat = resolve_dotted(n)
        if pat.pattern in getattr(eng, "abstract_patterns", ()):
            return [(st, BoolV(bm.abstract_match(pat.pattern, how)(s.t)))]
    return [(st, BoolV(z3.InRe(s.t, named_language(n, how))))]


def _cf_strip(eng, st, pos, kw):
    return bm.str_method(eng, st, pos[0], "strip", [], {}, None)


def _cf_re_sub(eng, st, pos, kw):
    pat = z3.simplify(pos[0].t).as_string()
    return [(st, StrV(bm.re_sub_fn(pat)(pos[1].t, pos[2].t)))]


def _cf_keys(eng, st, pos, kw):
    d = pos[0]
    if isinstance(d, UnionV):
        # total (underspecified) projection onto the one dict alternative, as for spec arguments
        cand = [a for _, a in _flat_alts(d) if isinstance(a, DictV)]
        if cand and all(a.kind == cand[0].kind for a in cand):
            d = _project(d, cand[0].kind)
    if isinstance(d, DictV):
        return [(st, ListV(d.kk, d.keys))]
    raise Unsupported("keys() of non-dict")


def _cf_translate(eng, st, pos, kw):
    """translate_table(s, "pkg.mod.TABLE"): str.translate with the real table constant of /repo."""
    name = z3.simplify(pos[1].t).as_string()
    table = resolve_dotted(name)
    return [(st, StrV(bm.translate_fn(table)(pos[0].t)))]


def _cf_writer_append(eng, st, pos, kw):
    w, text = pos
    return [(st, w.with_field("buf", StrV(z3.Concat(w.fields["buf"].t, text.t))))]


def _cf_some(eng, st, pos, kw):
    """some(x): the value of an Optional (total projection; unspecified when x is None)."""
    v = pos[0]
    if isinstance(v, UnionV):
        cand = [a for _, a in v.alts if not isinstance(a, NoneV)]
        if len(cand) == 1:
            return [(st, cand[0])]
        raise Unsupported("some() of a union with several non-None alternatives")
    return [(st, v)]


def _cf_replace(eng, st, pos, kw):
    """replace(obj, field=value, ...): the record obj with some fields changed (for mutates clauses)."""
    o = pos[0]
    if not isinstance(o, ObjV):
        raise Unsupported("replace() of non-record")
    for k, v in kw.items():
        if k not in o.fields:
            raise Unsupported(f"replace(): no field {k}")
        want = o.kind.fields[k] if isinstance(o.kind, KObj) else v.kind
        o = o.with_field(k, unbox(box(v, want), want))
    return [(st, o)]


def _cf_parsed_kids(eng, st, pos, kw):
    """ParsedKids(tag, text): children obtained by re-parsing a label fragment (DOM model, uninterpreted)."""
    from . import dom_model

    return [(st, ListV(dom_model.XNODE, dom_model.parsed_kids()(pos[0].t, pos[1].t)))]


def _cf_is_a(eng, st, pos, kw):
    """is_a(e, "ClassName"): the class predicate of an opaque element reference (declare_isinstance)."""
    e, name = pos
    f = z3.Function(f"IsA_{e.kind.name}", e.kind.sort(), z3.StringSort(), z3.BoolSort())
    return [(st, BoolV(f(e.t, name.t)))]


def _cf_has_attr(eng, st, pos, kw):
    e, name = pos
    f = z3.Function(f"HasAttr_{e.kind.name}", e.kind.sort(), z3.StringSort(), z3.BoolSort())
    return [(st, BoolV(f(e.t, name.t)))]


def _cf_ctx_of(eng, st, pos, kw):
    """ctx_of(x): the identity of an object (survey, element record or element reference) as a value of the opaque sort
    Ctx — lets one specification function (Subst ...) take contexts of different record kinds."""
    from .kinds import _mangle

    v = pos[0]
    ck = KOpaque("Ctx")
    if isinstance(v, ObjV) and all(f in v.fields for f in _CTX_ELEM_FIELDS) and v.cls != "Survey":
        # every record view of a survey element (Question, RangeQuestion, GroupedSection ...) stands for the same context:
        # the identity is taken from the element slots the views share, so a subclass view and the base-class view that a
        # callee's contract is written on denote one context
        ek = KObj("SurveyElement", {f: v.fields[f].kind for f in _CTX_ELEM_FIELDS})
        try:
            pv = ObjV("SurveyElement", {f: v.fields[f] for f in _CTX_ELEM_FIELDS}, ek)
            f = z3.Function("ctx_" + _mangle(ek), ek.sort(), ck.sort())
            return [(st, OpaqueV(ck, f(box(pv, ek))))]
        except Unsupported:
            pass
    f = z3.Function("ctx_" + _mangle(v.kind), v.kind.sort(), ck.sort())
    return [(st, OpaqueV(ck, f(box(v, v.kind))))]


_CTX_ELEM_FIELDS = ("name", "type", "bind", "flat", "trigger", "default", "label", "hint", "guidance_hint", "media")


def _cf_same(eng, st, pos, kw):
    """same(a, b): identical values including dict key order (term equality), stronger than Python's == on dicts."""
    a, b = pos
    k = a.kind
    return [(st, BoolV(box(a, k) == box(b, k)))]


def _cf_as_str(eng, st, pos, kw):
    """as_str(x): the text alternative of a union value (total, underspecified when x is not text)."""
    v = pos[0]
    return [(st, _project(v, K_STR) if isinstance(v, UnionV) else v)]


def _cf_as_dict(eng, st, pos, kw):
    """as_dict(x): the dict alternative of a union value (all dict alternatives must have one kind)."""
    v = pos[0]
    if isinstance(v, UnionV):
        cand = [a for _, a in _flat_alts(v) if isinstance(a, DictV)]
        if cand and all(a.kind == cand[0].kind for a in cand):
            return [(st, _project(v, cand[0].kind))]
    return [(st, v)]


CONTRACT_FUNCS = {
    "as_str": FuncV(_cf_as_str, "as_str"),
    "as_dict": FuncV(_cf_as_dict, "as_dict"),
    "same": FuncV(_cf_same, "same"),
    "ctx_of": FuncV(_cf_ctx_of, "ctx_of"),
    "has_attr": FuncV(_cf_has_attr, "has_attr"),
    "is_a": FuncV(_cf_is_a, "is_a"),
    "ParsedKids": FuncV(_cf_parsed_kids, "ParsedKids"),
    "some": FuncV(_cf_some, "some"),
    "replace": FuncV(_cf_replace, "replace"),
    "Writer_append": FuncV(_cf_writer_append, "Writer_append"),
    "translate_table": FuncV(_cf_translate, "translate_table"),
    "keys": FuncV(_cf_keys, "keys"),
    "strip": FuncV(_cf_strip, "strip"),
    "re_sub": FuncV(_cf_re_sub, "re_sub"),
    "implies": FuncV(_cf_implies, "implies"),
    "iff": FuncV(_cf_iff, "iff"),
    "forall": FuncV(_cf_forall, "forall"),
    "forall2": FuncV(_cf_forall2, "forall2"),
    "exists": FuncV(_cf_exists, "exists"),
    "forall_str": FuncV(_cf_forall_str, "forall_str"),
    "forall_of": FuncV(_cf_forall_of, "forall_of"),
    "ite": FuncV(_cf_ite, "ite"),
    "matches": FuncV(_cf_in_re, "matches"),
}


def _dict_wellformed(vals):
    """Distinct-keys facts for every dict reachable through records / optionals / tuples of the given values."""
    out, stack = [], list(vals)
    while stack:
        v = stack.pop()
        if isinstance(v, DictV):
            i, j = z3.FreshConst(z3.IntSort(), "wi"), z3.FreshConst(z3.IntSort(), "wj")
            n = z3.Length(v.keys)
            out.append(z3.ForAll([i, j], z3.Implies(z3.And(0 <= i, i < j, j < n), v.keys[i] != v.keys[j])))
        elif isinstance(v, ObjV):
            stack.extend(v.fields.values())
        elif isinstance(v, UnionV):
            stack.extend(a for _, a in v.alts)
        elif isinstance(v, TupleV):
            stack.extend(v.items)
        elif isinstance(v, bm.LitDict):
            stack.extend(v.items.values())
    return out


def _own_yields(fn) -> bool:
    """Does the function itself (not a nested def/lambda) contain yield?"""
    stack = list(fn.body)
    while stack:
        n = stack.pop()
        if isinstance(n, (ast.Yield, ast.YieldFrom)):
            return True
        if isinstance(n, (ast.FunctionDef, ast.AsyncFunctionDef, ast.Lambda, ast.ClassDef)):
            continue
        stack.extend(ast.iter_child_nodes(n))
    return False


# ------------------------------------------------------------------ verifier


class Verifier(Engine):
    """Engine + contract evaluation + per-function verification."""

    def __init__(self, module_name, module_ns, registry):
        super().__init__(module_name, module_ns, registry)
        self.spec_mode = False
        self.loop_ordinals = {}
        self.contract: Contract | None = None
        self.line0 = 0
        self.var_kinds = {}
        self.old_env = {}

    def loop_contract(self, node):
        if self.contract is None:
            return None
        o = self.loop_ordinals.get(id(node))
        lc = self.contract.loops.get(o)
        if lc is not None and lc.header is not None:
            hdr = ast.unparse(node.iter if isinstance(node, ast.For) else node.test)
            if hdr.replace(" ", "") != lc.header.replace(" ", ""):
                raise ContractMismatch(
                    f"{self.contract.fid}: loop {o} header is `{hdr}`, contract expects `{lc.header}`")
        return lc

    def results_to_bool(self, st0, res):
        n0 = len(st0.pc)
        conj = []
        for s, v in res:
            if isinstance(v, RaiseV):
                raise Unsupported(f"contract expression raises {v.cls} ({v.origin})")
            guard = And(*s.pc[n0:])
            conj.append(z3.Implies(guard, self.truthy(v)) if not z3.is_true(guard) else self.truthy(v))
        return And(*conj)

    def _contract_state(self, st, env, only_env):
        vars_ = {} if only_env else dict(st.vars)
        if not only_env:
            for gk, gv in st.ghost.items():   # indices of the enclosing (cut) loops, by their declared names
                if isinstance(gk, str) and gk.startswith("_loopidx_"):
                    vars_[gk[len("_loopidx_"):]] = IntV(gv)
        vars_.update(self.old_env if not only_env else {})
        vars_.update(env)
        return State(vars_, st.pc, st.ghost)

    def _rewrite_old(self, e):
        class R(ast.NodeTransformer):
            def visit_Call(self, n):
                self.generic_visit(n)
                if isinstance(n.func, ast.Name) and n.func.id == "old" and isinstance(n.args[0], ast.Name):
                    return ast.copy_location(ast.Name(id="__old_" + n.args[0].id, ctx=ast.Load()), n)
                return n

        return R().visit(copy.deepcopy(e))

    def eval_contract_expr(self, e, st, env, where="", only_env=False):
        cs = self._contract_state(st, env, only_env)
        old_mode, self.spec_mode = self.spec_mode, True
        try:
            try:
                res = self.eval(self._rewrite_old(e), cs)
            except Unsupported as ex:
                if "unknown name" in str(ex):
                    raise ContractMismatch(f"{self.cur_fn}: contract clause `{ast.unparse(e)[:80]}`: {ex}")
                raise
            return simp(self.results_to_bool(cs, res))
        finally:
            self.spec_mode = old_mode

    def eval_contract_value(self, e, st, env):
        cs = self._contract_state(st, env, True)
        old_mode, self.spec_mode = self.spec_mode, True
        try:
            res = self.eval(self._rewrite_old(e), cs)
        finally:
            self.spec_mode = old_mode
        if len(res) == 1:
            return res[0][1]
        n0 = len(cs.pc)
        return UnionV([(And(*s.pc[n0:]), v) for s, v in res])

    def eval_contract_term(self, e, st, env):
        return self.eval_contract_value(e, State({**st.vars, **self.old_env}, st.pc, st.ghost), {**st.vars, **self.old_env, **env})

    # ------------------------------------------------------------- verify one function
    def verify(self, c: Contract):
        ex = extract.find(c.module, c.qualname)
        if ex is None:
            raise ContractMismatch(f"{c.fid}: function not found in {extract.module_path(c.module)}")
        fn = ex.node
        self.cur_fn = c.fid
        self.contract = c
        self.loop_ordinals = ex.loop_ordinals
        self.line0 = ex.lineno
        self.abstract_patterns = set()
        self.merge_paths = bool(getattr(c, "merge_paths", False))
        self.cuts = dict(getattr(c, "cuts", {}))
        self.exact_filters = bool(getattr(c, "exact_filters", False))
        self.pointwise_yield = bool(getattr(c, "pointwise_yield", False))
        for dotted in getattr(c, "abstract_regex", []):
            self.abstract_patterns.add(resolve_dotted(dotted).pattern)
        self.var_kinds = dict(c.local_kinds)
        for d in ex.decorators:
            base = d.split("(")[0].split(".")[-1]
            if base not in extract.IDENTITY_DECORATORS:
                raise Unsupported(f"{c.fid}: decorator {d}")
        real = [a.arg for a in fn.args.args] + [a.arg for a in fn.args.kwonlyargs]
        mine = [p[0] for p in c.params]
        real_kw = fn.args.kwarg.arg if fn.args.kwarg else None
        mine_kw = c.kwarg[0] if c.kwarg else None
        if real != mine or fn.args.vararg or real_kw != mine_kw:
            raise ContractMismatch(f"{c.fid}: parameters {real} (vararg={bool(fn.args.vararg)}, kwarg={real_kw}) != contract {mine} (kwarg={mine_kw})")
        for o in c.loops:
            if o >= len(ex.loops):
                raise ContractMismatch(f"{c.fid}: contract names loop {o}, function has {len(ex.loops)}")
        shapes = getattr(c, "kwargs_shapes", None)
        if shapes and getattr(self, "_shape", None) is None:
            for si, sh in enumerate(shapes):
                self._shape = (si, sh)
                try:
                    self.verify(c)
                finally:
                    self._shape = None
            return ex
        # entry state
        env = {}
        inputs = {}
        for n, k, _ in list(c.params) + ([(c.kwarg[0], c.kwarg[1], None)] if c.kwarg else []):
            if c.kwarg and n == c.kwarg[0] and getattr(self, "_shape", None) is not None:
                si, sh = self._shape
                env[n] = bm.LitDict({kk: named(kv, f"p_kw{si}_{kk}") for kk, kv in sh.items()})
                self.cur_fn = f"{c.fid}[kwargs-shape-{si}]"
                continue
            v = named(k, f"p_{n}")
            env[n] = v

            if not isinstance(k, KFn):
                inputs[n] = (box(v, k), k)
        for cn, ck in getattr(c, "closure_kinds", {}).items():
            env[cn] = named(ck, f"c_{cn}")
        if ".<locals>." in c.qualname:
            # sibling nested functions that have their own contract are callable by that contract
            outer_q = c.qualname.rsplit(".<locals>.", 1)[0]
            outer = extract.find(c.module, outer_q)
            if outer is not None:
                for sib in outer.node.body:
                    if isinstance(sib, ast.FunctionDef) and sib.name != fn.name:
                        sc = self.registry.contracts.get(f"{c.module}.{outer_q}.<locals>.{sib.name}")
                        if sc is not None:
                            def _call(eng, st2, pos, kw, sc=sc):
                                return sc.apply(eng, st2, pos, kw, None, closure_env=dict(st2.vars))

                            env[sib.name] = FuncV(_call, sib.name)
        st = State(env)
        for wf in _dict_wellformed(list(env.values())):
            st = st.assume(wf)   # type invariant of Python dicts: keys are pairwise distinct
        self.old_env = {"__old_" + n: v for n, v in env.items()}
        genv = {}
        for gname, gexpr in c.ghosts:
            genv[gname] = self.eval_contract_value(gexpr, st, {**env, **genv})
        self.old_env.update(genv)
        for r in c.requires:
            st = st.assume(self.eval_contract_expr(r, st, {**env, **genv}, only_env=True))
        ob = self.oblige("cover", "requires", st, z3.BoolVal(False), ex.lineno, expect="sat")
        ob.inputs = inputs
        for u in c.uses:
            st = st.assume(self.lemma_axiom(u))
        if _own_yields(fn):
            if isinstance(c.ret, KList):
                # the yielded sequence is an ordinary (symbolic) variable `_yield`: loops may grow it and
                # invariants may mention it
                st = st.bind("_yield", ListV(c.ret.elem, z3.Empty(c.ret.sort())))
            else:
                st.ghost["yield"] = []
        first = len(self.obligations)
        outs = self.exec_block(fn.body, st)
        self.stats["paths"] += len(outs)
        n_normal = 0
        for oc in outs:
            if oc.kind in ("normal", "return"):
                n_normal += 1
                val = oc.value if oc.kind == "return" else NONE
                if "_yield" in oc.state.vars:
                    val = oc.state.vars["_yield"]
                elif "yield" in oc.state.ghost:
                    from .dom_model import gen_value

                    val = gen_value(oc.state.ghost["yield"])
                self._check_exit(c, oc.state, val, env, genv, ex)
            elif oc.kind == "raise":
                self._check_raise(c, oc.state, oc.value, env, genv, ex)
            else:
                raise Unsupported(f"{c.fid}: {oc.kind} escapes function body")
        for ob in self.obligations[first:]:
            ob.inputs = inputs
        self.contract = None
        return ex

    def _check_exit(self, c, st, val, env, genv, ex):
        if c.ret is not None and not fits(val, c.ret) and isinstance(val, UnionV):
            for s2, alt in self.split(st, val):  # only the alternatives feasible on this path
                self._check_exit(c, s2, alt, env, genv, ex)
            return
        if c.ret is not None and not fits(val, c.ret):
            self.oblige("post", "result-kind", st, z3.BoolVal(False), ex.lineno,
                        info={"why": f"result kind {val.kind!r} does not fit declared {c.ret!r}"})
            return
        res = unbox(box(val, c.ret), c.ret) if c.ret is not None else val
        e2 = {**env, **genv, "result": res}
        # contract speaks about entry values of parameters; current values available via names
        cur = dict(st.vars)
        for k, e in enumerate(c.ensures):
            vars_ = {**cur, **{n: v for n, v in env.items()}, **genv, "result": res}
            for n in env:
                if n in cur:
                    vars_["final_" + n] = cur[n]
            goal = self.eval_contract_expr(e, st, vars_, only_env=True)
            self.oblige("post", f"ensures{k}", st, goal, ex.lineno)
        for cls, when, exact in c.raises:
            if exact:
                w = self.eval_contract_expr(when, st, {**env, **genv}, only_env=True)
                self.oblige("raises", f"must-raise-{cls}", st, simp(z3.Not(w)), ex.lineno)
        for pname, fields in getattr(c, "modifies_fields", {}).items():
            got, was = cur.get(pname), env[pname]
            if isinstance(got, OpaqueV) and isinstance(was, OpaqueV) and got.kind.name == "XNode":
                from . import dom_model as _dm

                for nm, (fn_, _k) in _dm.FIELDS.items():
                    if nm not in fields and nm != "childNodes":
                        self.oblige("frame", f"unchanged-{pname}.{nm}", st, fn_()(got.t) == fn_()(was.t), ex.lineno)
            if isinstance(got, ObjV) and isinstance(was, ObjV):
                for fn_ in was.fields:
                    if fn_ not in fields:
                        self.oblige("frame", f"unchanged-{pname}.{fn_}", st, simp(self.eq(got.fields[fn_], was.fields[fn_])), ex.lineno)
        for pname, expr in c.mutates.items():
            vars_ = {**cur, **{n: v for n, v in env.items()}, **genv, "result": res}
            want = self.eval_contract_value(expr, st, vars_)
            got = cur.get(pname)
            self.oblige("frame", f"mutates-{pname}", st, simp(self.eq(got, want)), ex.lineno)

    def _check_raise(self, c, st, rv: RaiseV, env, genv, ex):
        rc = bm.exc_class_of(self, rv.cls)
        allowed = []
        for cls, when, exact in c.raises:
            ac = bm.exc_class_of(self, cls)
            if ac is None:
                raise Unsupported(f"{c.fid}: unknown exception class {cls} in contract")
            if rc is not None and issubclass(rc, ac):
                allowed.append(self.eval_contract_expr(when, st, {**env, **genv}, only_env=True))
        if allowed:
            self.oblige("raises", f"{rv.cls}@{rv.origin}", st, Or(*allowed), ex.lineno)
            for cls, when, exact in c.raises:
                m = c.raise_messages.get(cls)
                ac = bm.exc_class_of(self, cls)
                if m is not None and rc is not None and issubclass(rc, ac):
                    if rv.msg is None:
                        self.oblige("raises", f"{rv.cls}-message@{rv.origin}", st, z3.BoolVal(False), ex.lineno,
                                    info={"why": "exception raised without a message"})
                    else:
                        goal = self.eval_contract_expr(m, st, {**env, **genv, "message": rv.msg}, only_env=True)
                        self.oblige("raises", f"{rv.cls}-message@{rv.origin}", st, goal, ex.lineno)
        else:
            self.oblige("safety", f"{rv.cls}@{rv.origin}", st, z3.BoolVal(False), ex.lineno,
                        info={"exception": rv.cls, "origin": rv.origin})

    # ------------------------------------------------------------- lemmas
    def lemma_formula(self, lem: Lemma, env):
        st = State(env)
        req = And(*[self.eval_contract_expr(r, st, env, only_env=True) for r in lem.requires])
        ens = And(*[self.eval_contract_expr(e, st, env, only_env=True) for e in lem.ensures])
        return req, ens

    def lemma_axiom(self, name):
        """forall params. requires => ensures  (only for lemmas; their proof is a separate obligation set)."""
        lem = self.registry.lemmas.get(name)
        if lem is None:
            raise ContractMismatch(f"unknown lemma {name}")
        vars_ = [z3.FreshConst(k.sort(), f"lm_{n}") for n, k in lem.params]
        env = {n: unbox(v, k) for (n, k), v in zip(lem.params, vars_)}
        req, ens = self.lemma_formula(lem, env)
        body = z3.Implies(req, ens)
        pats = getattr(lem, "patterns", None)
        return z3.ForAll(vars_, body)

    def prove_lemma(self, lem: Lemma):
        self.cur_fn = f"lemma.{lem.name}"
        self.contract = None
        self.old_env = {}
        env = {n: named(k, f"l_{n}") for n, k in lem.params}
        inputs = {n: (box(v, k), k) for (n, k), v in zip(lem.params, env.values())}
        req, ens = self.lemma_formula(lem, env)
        base_st = State(env)
        for u in lem.uses:
            base_st = base_st.assume(self.lemma_axiom(u))
        st = base_st.assume(req)
        ob = self.oblige("cover", "requires", st, z3.BoolVal(False), lem.node.lineno, expect="sat")
        ob.inputs = inputs
        if lem.induct is None:
            ob = self.oblige("lemma", "ensures", st, ens, lem.node.lineno)
            ob.inputs = inputs
            return
        # structural induction on a str / list parameter (tail) or an int parameter (n-1)
        iv = env[lem.induct]
        if isinstance(iv, (StrV, ListV)):
            is_base = z3.Length(iv.t) == 0
            if isinstance(iv, StrV):
                smaller = StrV(z3.SubString(iv.t, 1, z3.Length(iv.t) - 1))
            else:
                smaller = ListV(iv.elem, z3.SubSeq(iv.t, 1, z3.Length(iv.t) - 1))
        elif isinstance(iv, IntV):
            is_base = iv.t <= 0
            smaller = IntV(iv.t - 1)
        else:
            raise Unsupported(f"induction on {type(iv).__name__}")
        ob = self.oblige("lemma-base", "ensures", st.assume(is_base), ens, lem.node.lineno)
        ob.inputs = inputs
        env2 = {**env, lem.induct: smaller}
        # induction hypothesis generalised over the other parameters
        others = [(n, k) for n, k in lem.params if n != lem.induct]
        ovars = [z3.FreshConst(k.sort(), f"ih_{n}") for n, k in others]
        env_ih = {**{n: unbox(v, k) for (n, k), v in zip(others, ovars)}, lem.induct: smaller}
        req2, ens2 = self.lemma_formula(lem, env_ih)
        ih = z3.ForAll(ovars, z3.Implies(req2, ens2)) if ovars else z3.Implies(req2, ens2)
        st_step = st.assume(z3.Not(is_base)).assume(ih)
        ob = self.oblige("lemma-step", "ensures", st_step, ens, lem.node.lineno)
        ob.inputs = inputs
