"""Kinds (static descriptions of Python value shapes) and symbolic values for pyvc.

A *kind* says how a Python value is represented in SMT.  A *value* (class V) is an
immutable Python object wrapping z3 terms.  Values are never mutated in place: every
"mutation" in the analysed program rebinds the name holding the value to a new V, and
the executor rejects programs where that would be unsound (aliasing check).
"""
from __future__ import annotations

import z3

_SORT_CACHE: dict = {}


class Unsupported(Exception):
    """The analysed code (or contract) is outside the verifier's subset."""


class Kind:
    def sort(self):
        raise NotImplementedError

    def __repr__(self):
        return self.name


class _Prim(Kind):
    def __init__(self, name, sort_fn):
        self.name = name
        self._sort_fn = sort_fn

    def sort(self):
        return self._sort_fn()

    def __eq__(self, o):
        return isinstance(o, _Prim) and o.name == self.name

    def __hash__(self):
        return hash(self.name)


K_INT = _Prim("int", z3.IntSort)
K_BOOL = _Prim("bool", z3.BoolSort)
K_STR = _Prim("str", z3.StringSort)
K_REAL = _Prim("float", z3.RealSort)


class _NoneKind(Kind):
    name = "None"

    def sort(self):
        key = "NoneT"
        if key not in _SORT_CACHE:
            d = z3.Datatype("NoneT")
            d.declare("none_v")
            _SORT_CACHE[key] = d.create()
        return _SORT_CACHE[key]

    def __eq__(self, o):
        return isinstance(o, _NoneKind)

    def __hash__(self):
        return 7


K_NONE = _NoneKind()


class KOpaque(Kind):
    """An uninterpreted sort (type parameters, DOM nodes, survey-element references)."""

    def __init__(self, name):
        self.name = name

    def sort(self):
        key = ("opaque", self.name)
        if key not in _SORT_CACHE:
            _SORT_CACHE[key] = z3.DeclareSort(self.name)
        return _SORT_CACHE[key]

    def __eq__(self, o):
        return isinstance(o, KOpaque) and o.name == self.name

    def __hash__(self):
        return hash(("opaque", self.name))


class KList(Kind):
    def __init__(self, elem: Kind):
        self.elem = elem
        self.name = f"List[{elem!r}]"

    def sort(self):
        return z3.SeqSort(self.elem.sort())

    def __eq__(self, o):
        return isinstance(o, KList) and o.elem == self.elem

    def __hash__(self):
        return hash(("list", self.elem))


class KSet(Kind):
    def __init__(self, elem: Kind):
        self.elem = elem
        self.name = f"Set[{elem!r}]"

    def sort(self):
        return z3.ArraySort(self.elem.sort(), z3.BoolSort())

    def __eq__(self, o):
        return isinstance(o, KSet) and o.elem == self.elem

    def __hash__(self):
        return hash(("set", self.elem))


def _mangle(k: Kind) -> str:
    return (
        repr(k).replace("[", "_").replace("]", "").replace(",", "_").replace(" ", "")
        .replace("|", "or")
    )


class KOpt(Kind):
    """Optional[T]: datatype none | some(val)."""

    def __init__(self, elem: Kind):
        self.elem = elem
        self.name = f"Opt[{elem!r}]"

    def sort(self):
        key = ("opt", self.elem)
        if key not in _SORT_CACHE:
            m = _mangle(self.elem)
            d = z3.Datatype("Opt_" + m)
            d.declare("none_" + m)
            d.declare("some_" + m, ("val_" + m, self.elem.sort()))
            _SORT_CACHE[key] = d.create()
        return _SORT_CACHE[key]

    def __eq__(self, o):
        return isinstance(o, KOpt) and o.elem == self.elem

    def __hash__(self):
        return hash(("opt", self.elem))


class KTuple(Kind):
    def __init__(self, items):
        self.items = list(items)
        self.name = "Tuple[" + ",".join(repr(i) for i in self.items) + "]"

    def sort(self):
        key = ("tuple", tuple(self.items))
        if key not in _SORT_CACHE:
            nm = "Tup_" + "_".join(_mangle(i) for i in self.items)
            d = z3.Datatype(nm)
            d.declare("mk_" + nm, *[(f"{nm}_f{i}", k.sort()) for i, k in enumerate(self.items)])
            _SORT_CACHE[key] = d.create()
        return _SORT_CACHE[key]

    def __eq__(self, o):
        return isinstance(o, KTuple) and o.items == self.items

    def __hash__(self):
        return hash(("tuple", tuple(self.items)))


class KDict(Kind):
    """dict: insertion-ordered key sequence (no duplicates) + value array."""

    def __init__(self, key: Kind, val: Kind):
        self.key, self.val = key, val
        self.name = f"Dict[{key!r},{val!r}]"

    def sort(self):
        k = ("dict", self.key, self.val)
        if k not in _SORT_CACHE:
            nm = "Dict_" + _mangle(self.key) + "_" + _mangle(self.val)
            d = z3.Datatype(nm)
            d.declare(
                "mk_" + nm,
                (nm + "_keys", z3.SeqSort(self.key.sort())),
                (nm + "_vals", z3.ArraySort(self.key.sort(), self.val.sort())),
            )
            _SORT_CACHE[k] = d.create()
        return _SORT_CACHE[k]

    def __eq__(self, o):
        return isinstance(o, KDict) and o.key == self.key and o.val == self.val

    def __hash__(self):
        return hash(("dict", self.key, self.val))


class KObj(Kind):
    """A record with named fields (used for `self`, result structs, cells...)."""

    def __init__(self, cls: str, fields: dict):
        self.cls = cls
        self.fields = dict(fields)
        self.name = f"Obj[{cls}]"

    def sort(self):
        k = ("obj", self.cls, tuple(self.fields.items()))
        if k not in _SORT_CACHE:
            # two record kinds of the same class name but different field sets (different sidecars) must
            # not collide in one SMT script: the datatype name carries a digest of the field list
            import hashlib

            tag = self.cls + "_" + hashlib.sha1(repr(sorted((n, repr(fk)) for n, fk in self.fields.items())).encode()).hexdigest()[:6]
            d = z3.Datatype("Obj_" + tag)
            d.declare("mk_Obj_" + tag, *[(f"{tag}_{n}", fk.sort()) for n, fk in self.fields.items()])
            _SORT_CACHE[k] = d.create()
        return _SORT_CACHE[k]

    def __eq__(self, o):
        return isinstance(o, KObj) and o.cls == self.cls and o.fields == self.fields

    def __hash__(self):
        return hash(("obj", self.cls))


class KUnion(Kind):
    """Tagged union of several kinds (datatype with one constructor per alternative)."""

    def __init__(self, alts):
        self.alts = list(alts)
        self.name = "Union[" + "|".join(repr(a) for a in self.alts) + "]"

    def sort(self):
        k = ("union", tuple(self.alts))
        if k not in _SORT_CACHE:
            nm = "U_" + "_".join(_mangle(a) for a in self.alts)
            d = z3.Datatype(nm)
            for i, a in enumerate(self.alts):
                if a == K_NONE:
                    d.declare(f"{nm}_u{i}")
                else:
                    d.declare(f"{nm}_u{i}", (f"{nm}_u{i}_v", a.sort()))
            _SORT_CACHE[k] = d.create()
        return _SORT_CACHE[k]

    def __eq__(self, o):
        return isinstance(o, KUnion) and o.alts == self.alts

    def __hash__(self):
        return hash(("union", tuple(self.alts)))


class KFn(Kind):
    """A callable parameter: modelled as an uninterpreted function of its arguments
    (pure, total, deterministic — stated in evidence as an assumption on callbacks)."""

    def __init__(self, args, ret, name="fn"):
        self.args, self.ret = list(args), ret
        self.name = f"Fn[{','.join(repr(a) for a in self.args)}->{ret!r}]"

    def sort(self):
        raise Unsupported("function kinds have no sort")

    def __eq__(self, o):
        return isinstance(o, KFn) and o.args == self.args and o.ret == self.ret

    def __hash__(self):
        return hash(("fn", tuple(self.args), self.ret))


# --------------------------------------------------------------------------- values


class V:
    kind: Kind = None


class IntV(V):
    kind = K_INT

    def __init__(self, t):
        self.t = z3.IntVal(t) if isinstance(t, int) else t


class BoolV(V):
    kind = K_BOOL

    def __init__(self, t):
        self.t = z3.BoolVal(t) if isinstance(t, bool) else t


class StrV(V):
    kind = K_STR

    def __init__(self, t):
        self.t = z3.StringVal(t) if isinstance(t, str) else t


class RealV(V):
    kind = K_REAL

    def __init__(self, t):
        self.t = z3.RealVal(t) if isinstance(t, (int, float)) else t


class NoneV(V):
    kind = K_NONE


NONE = NoneV()


class OpaqueV(V):
    def __init__(self, kind, t):
        self.kind, self.t = kind, t


class ListV(V):
    def __init__(self, elem: Kind, t):
        self.elem, self.t = elem, t
        self.kind = KList(elem)


class SetV(V):
    def __init__(self, elem: Kind, t):
        self.elem, self.t = elem, t
        self.kind = KSet(elem)


class TupleV(V):
    """A tuple (or list literal) of statically known length with heterogeneous items."""

    def __init__(self, items, is_list=False):
        self.items = list(items)
        self.is_list = is_list

    @property
    def kind(self):
        return KTuple([i.kind for i in self.items])


class DictV(V):
    def __init__(self, kk: Kind, vk: Kind, keys, vals):
        self.kk, self.vk, self.keys, self.vals = kk, vk, keys, vals
        self.kind = KDict(kk, vk)


class ObjV(V):
    def __init__(self, cls: str, fields: dict, kind: KObj | None = None):
        self.cls = cls
        self.fields = dict(fields)
        self._kind = kind

    @property
    def kind(self):
        return self._kind or KObj(self.cls, {n: v.kind for n, v in self.fields.items()})

    def with_field(self, name, v):
        f = dict(self.fields)
        f[name] = v
        return ObjV(self.cls, f, self._kind)


class UnionV(V):
    """Value whose Python type depends on the path: alternatives with guards.
    Guards are mutually exclusive and exhaustive."""

    def __init__(self, alts):
        self.alts = list(alts)

    @property
    def kind(self):
        return KUnion([a.kind for _, a in self.alts])


class ConstV(V):
    """A concrete Python object known at verification time (tables, compiled regexes,
    modules, classes).  Never stored in SMT."""

    def __init__(self, obj, name=None):
        self.obj = obj
        self.name = name or repr(obj)[:40]


class FuncV(V):
    """A callable implemented by the engine: fn(engine, state, args, kwargs) -> results."""

    def __init__(self, fn, name="<fn>"):
        self.fn, self.name = fn, name


class ClosureV(V):
    """A def/lambda from the analysed source, inlined at call."""

    def __init__(self, node, env, name="<closure>", module=None):
        self.node, self.env, self.name, self.module = node, env, name, module


class RaiseV(V):
    """Marker for an exceptional outcome of expression evaluation."""

    def __init__(self, cls: str, msg: V | None = None, origin: str = ""):
        self.cls, self.msg, self.origin = cls, msg, origin


# ----------------------------------------------------------------- boxing / unboxing


def _fn_value(kind: KFn, name: str) -> V:
    f = z3.Function(name, *[a.sort() for a in kind.args], kind.ret.sort())

    def call(eng, st, pos, kw):
        if kw or len(pos) != len(kind.args):
            raise Unsupported(f"call of {name} with unexpected arguments")
        outs = []
        for s2, vals in eng.split_all(st, pos):
            outs.append((s2, unbox(f(*[box(v, k) for v, k in zip(vals, kind.args)]), kind.ret)))
        return outs

    return FuncV(call, name)


def fresh(kind: Kind, name: str) -> V:
    if isinstance(kind, KFn):
        return _fn_value(kind, name)
    return unbox(z3.FreshConst(kind.sort(), name), kind)


def named(kind: Kind, name: str) -> V:
    if isinstance(kind, KFn):
        return _fn_value(kind, name)
    return unbox(z3.Const(name, kind.sort()), kind)


def unbox(t, kind: Kind) -> V:
    v = _unbox(t, kind)
    if isinstance(v, (UnionV, TupleV, DictV, ObjV)):
        v._boxed = (kind, t)
    return v


def _unbox(t, kind: Kind) -> V:
    if kind == K_INT:
        return IntV(t)
    if kind == K_BOOL:
        return BoolV(t)
    if kind == K_STR:
        return StrV(t)
    if kind == K_REAL:
        return RealV(t)
    if kind == K_NONE:
        return NONE
    if isinstance(kind, KOpaque):
        return OpaqueV(kind, t)
    if isinstance(kind, KList):
        return ListV(kind.elem, t)
    if isinstance(kind, KSet):
        return SetV(kind.elem, t)
    if isinstance(kind, KOpt):
        s = kind.sort()
        return UnionV([(s.recognizer(0)(t), NONE), (s.recognizer(1)(t), unbox(s.accessor(1, 0)(t), kind.elem))])
    if isinstance(kind, KTuple):
        s = kind.sort()
        return TupleV([unbox(s.accessor(0, i)(t), k) for i, k in enumerate(kind.items)])
    if isinstance(kind, KDict):
        s = kind.sort()
        return DictV(kind.key, kind.val, s.accessor(0, 0)(t), s.accessor(0, 1)(t))
    if isinstance(kind, KObj):
        s = kind.sort()
        return ObjV(
            kind.cls,
            {n: unbox(s.accessor(0, i)(t), fk) for i, (n, fk) in enumerate(kind.fields.items())},
            kind,
        )
    if isinstance(kind, KUnion):
        s = kind.sort()
        alts = []
        for i, a in enumerate(kind.alts):
            g = s.recognizer(i)(t)
            alts.append((g, NONE if a == K_NONE else unbox(s.accessor(i, 0)(t), a)))
        return UnionV(alts)
    raise Unsupported(f"unbox: kind {kind!r}")


def box(v: V, kind: Kind):
    """Return a z3 term of kind.sort() representing v (v must fit kind)."""
    b = getattr(v, "_boxed", None)
    if b is not None and b[0] == kind:
        return b[1]
    if isinstance(v, UnionV) and not isinstance(kind, (KOpt, KUnion)):
        # all alternatives must fit
        t = None
        for g, a in reversed(v.alts):
            bt = box(a, kind)
            t = bt if t is None else z3.If(g, bt, t)
        return t
    if kind in (K_INT, K_BOOL, K_STR, K_REAL):
        if v.kind == kind:
            return v.t
        if kind == K_INT and isinstance(v, BoolV):
            return z3.If(v.t, z3.IntVal(1), z3.IntVal(0))
        if kind == K_REAL and isinstance(v, IntV):
            return z3.ToReal(v.t)
        raise Unsupported(f"box: {v.kind!r} as {kind!r}")
    if kind == K_NONE:
        if isinstance(v, NoneV):
            return kind.sort().none_v
        raise Unsupported(f"box: {v.kind!r} as None")
    if isinstance(kind, KOpaque):
        if isinstance(v, OpaqueV) and v.kind == kind:
            return v.t
        raise Unsupported(f"box: {v.kind!r} as {kind!r}")
    if isinstance(kind, KList):
        if hasattr(v, "to_seq"):
            return v.to_seq(kind)
        if isinstance(v, ListV):
            if v.elem == kind.elem:
                return v.t
            raise Unsupported(f"box: list elem {v.elem!r} as {kind.elem!r}")
        if isinstance(v, TupleV):
            es = kind.elem.sort()
            if not v.items:
                return z3.Empty(z3.SeqSort(es))
            units = [z3.Unit(box(i, kind.elem)) for i in v.items]
            return units[0] if len(units) == 1 else z3.Concat(*units)
        raise Unsupported(f"box: {v.kind!r} as {kind!r}")
    if isinstance(kind, KSet):
        if isinstance(v, SetV) and v.elem == kind.elem:
            return v.t
        raise Unsupported(f"box: {v.kind!r} as {kind!r}")
    if isinstance(kind, KOpt):
        s = kind.sort()
        if isinstance(v, NoneV):
            return s.constructor(0)()
        if isinstance(v, UnionV):
            t = None
            for g, a in reversed(v.alts):
                bt = box(a, kind)
                t = bt if t is None else z3.If(g, bt, t)
            return t
        return s.constructor(1)(box(v, kind.elem))
    if isinstance(kind, KTuple):
        if isinstance(v, TupleV) and len(v.items) == len(kind.items):
            return kind.sort().constructor(0)(*[box(i, k) for i, k in zip(v.items, kind.items)])
        raise Unsupported(f"box: {v.kind!r} as {kind!r}")
    if isinstance(kind, KDict):
        if isinstance(v, DictV) and v.kk == kind.key and v.vk == kind.val:
            return kind.sort().constructor(0)(v.keys, v.vals)
        raise Unsupported(f"box: {v.kind!r} as {kind!r}")
    if isinstance(kind, KObj):
        if isinstance(v, ObjV):
            missing = [n for n in kind.fields if n not in v.fields]
            if missing:
                raise Unsupported(f"box: record {v.cls} lacks field(s) {missing} of {kind!r}")
            return kind.sort().constructor(0)(*[box(v.fields[n], fk) for n, fk in kind.fields.items()])
        items = getattr(v, "items", None)
        if isinstance(items, dict):
            # a dict literal with constant keys seen as a record: every field of the kind must be a key; keys the kind
            # does not name are not observed (abstraction, stated in the contract that declares the kind)
            missing = [n for n in kind.fields if n not in items]
            if missing:
                raise Unsupported(f"box: dict literal lacks key(s) {missing} of {kind!r}")
            return kind.sort().constructor(0)(*[box(items[n], fk) for n, fk in kind.fields.items()])
        raise Unsupported(f"box: {v.kind!r} as {kind!r}")
    if isinstance(kind, KUnion):
        s = kind.sort()
        if isinstance(v, UnionV):
            t = None
            for g, a in reversed(v.alts):
                bt = box(a, kind)
                t = bt if t is None else z3.If(g, bt, t)
            return t
        for i, a in enumerate(kind.alts):
            if fits(v, a):
                if a == K_NONE:
                    return s.constructor(i)()
                return s.constructor(i)(box(v, a))
        raise Unsupported(f"box: {v.kind!r} as {kind!r}")
    raise Unsupported(f"box: kind {kind!r}")


def fits(v: V, kind: Kind) -> bool:
    if isinstance(kind, KFn):
        return isinstance(v, (FuncV, ClosureV))
    try:
        box(v, kind)
        return True
    except Unsupported:
        return False


def const_to_v(obj) -> V:
    """Concrete Python object -> value."""
    if obj is None:
        return NONE
    if isinstance(obj, bool):
        return BoolV(obj)
    if isinstance(obj, int):
        return IntV(obj)
    if isinstance(obj, float):
        return RealV(obj)
    if isinstance(obj, str):
        return StrV(obj)
    if isinstance(obj, tuple):
        return TupleV([const_to_v(i) for i in obj])
    if isinstance(obj, list):
        return TupleV([const_to_v(i) for i in obj], is_list=True)
    return ConstV(obj)
