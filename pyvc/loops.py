"""Loop handling: unrolling of statically bounded loops, invariant cut for the rest."""
from __future__ import annotations

import ast

import z3

from . import builtins_model as bm
from .kinds import (
    K_INT, NONE, BoolV, ConstV, DictV, IntV, ListV, RaiseV, StrV, TupleV, UnionV, Unsupported, V,
    box, fresh, unbox,
)
from .state import Outcome, State
from .builtins_model import _simp


def stored_names(body) -> set[str]:
    """Names that may be rebound/mutated by executing `body`."""
    out = set()
    for stmt in body:
        for n in ast.walk(stmt):
            if isinstance(n, (ast.Yield, ast.YieldFrom)):
                out.add("_yield")  # the yielded sequence grows (generators under contract)
            if isinstance(n, ast.Name) and isinstance(n.ctx, (ast.Store, ast.Del)):
                out.add(n.id)
            elif isinstance(n, ast.Call) and isinstance(n.func, ast.Attribute) and n.func.attr in _mutators():
                root = n.func.value
                while isinstance(root, ast.Attribute):
                    root = root.value
                if isinstance(root, ast.Name):
                    out.add(root.id)
            elif isinstance(n, (ast.Subscript, ast.Attribute)) and isinstance(n.ctx, (ast.Store, ast.Del)):
                root = n.value
                while isinstance(root, (ast.Attribute, ast.Subscript)):
                    root = root.value
                if isinstance(root, ast.Name):
                    out.add(root.id)
    return out


def _mutators():
    from .engine import MUTATORS

    return MUTATORS


def loop_key(eng, node):
    """(ordinal of the loop in the function in source order, normalised header text)."""
    return eng.loop_ordinals.get(id(node)), ast.unparse(node.iter if isinstance(node, ast.For) else node.test)


class IterView:
    """Indexable view of an iterable: length term + item(i) -> V."""

    def __init__(self, length, item, concrete=None, seq=None):
        self.length, self.item, self.concrete = length, item, concrete
        self.seq = seq  # the underlying z3 sequence when there is one (membership fact at the loop head)


def iter_view(eng, st, it: V) -> IterView:
    items = bm.concrete_items(eng, it)
    if items is not None:
        return IterView(z3.IntVal(len(items)), None, items)
    if isinstance(it, ListV):
        return IterView(z3.Length(it.t), lambda i: bm.elem_at(it.elem, it.t, i), seq=it.t)
    if isinstance(it, StrV):
        return IterView(z3.Length(it.t), lambda i: StrV(z3.SubString(it.t, i, 1)))
    if isinstance(it, bm.RangeV):
        s0, e0 = _simp(it.start), _simp(it.stop)
        if z3.is_int_value(s0) and z3.is_int_value(e0) and e0.as_long() - s0.as_long() <= 64:
            return IterView(None, None, [IntV(k) for k in range(s0.as_long(), e0.as_long())])
        return IterView(it.length(), lambda i: IntV(it.start + i))
    if isinstance(it, bm.EnumV):
        inner = iter_view(eng, st, it.inner)
        if inner.concrete is not None:
            s0 = _simp(it.start)
            if z3.is_int_value(s0):
                return IterView(None, None, [TupleV([IntV(s0.as_long() + k), x]) for k, x in enumerate(inner.concrete)])
            return IterView(None, None, [TupleV([IntV(it.start + k), x]) for k, x in enumerate(inner.concrete)])
        return IterView(inner.length, lambda i: TupleV([IntV(it.start + i), inner.item(i)]))
    if isinstance(it, bm.DictView):
        d = it.d
        if it.which == "items":
            return IterView(z3.Length(d.keys), lambda i: TupleV([unbox(d.keys[i], d.kk), unbox(z3.Select(d.vals, d.keys[i]), d.vk)]), seq=d.keys)
        return IterView(z3.Length(d.keys), lambda i: unbox(z3.Select(d.vals, d.keys[i]), d.vk), seq=d.keys)
    if isinstance(it, DictV):
        return IterView(z3.Length(it.keys), lambda i: unbox(it.keys[i], it.kk), seq=it.keys)
    if isinstance(it, bm.ChainV):
        if it.parts and all(isinstance(p, DictV) and p.kk == it.parts[0].kk for p in it.parts):
            kk, seqs = it.parts[0].kk, [p.keys for p in it.parts]
        elif it.parts and all(isinstance(p, ListV) and p.elem == it.parts[0].elem for p in it.parts):
            kk, seqs = it.parts[0].elem, [p.t for p in it.parts]
        else:
            raise Unsupported("itertools.chain over parts that are not all dicts (or all lists) of one kind")
        seq = seqs[0] if len(seqs) == 1 else z3.Concat(*seqs)
        return IterView(z3.Length(seq), lambda i: unbox(seq[i], kk), seq=seq)
    h = eng.registry.iter_hook(it)
    if h is not None:
        return h(eng, st, it)
    if isinstance(it, (IntV, BoolV)) or it is NONE:
        return None
    raise Unsupported(f"iteration over {type(it).__name__}")


def exec_for(eng, s: ast.For, st: State) -> list[Outcome]:
    outs = []
    for s0, itv in eng.eval(s.iter, st):
        if isinstance(itv, RaiseV):
            outs.append(Outcome("raise", s0, itv))
            continue
        for s1, it1 in eng.split(s0, itv):
            view = iter_view(eng, s1, it1)
            if view is None:
                outs.append(Outcome("raise", s1, RaiseV("TypeError", None, f"iterate L{s.lineno}")))
                continue
            if view.concrete is not None:
                outs.extend(_unroll(eng, s, s1, view.concrete))
            else:
                outs.extend(_cut_for(eng, s, s1, view))
    return outs


def _unroll(eng, s, st, items):
    live = [Outcome("normal", st)]
    done = []
    for item in items:
        nxt = []
        for oc in live:
            for a in eng.assign(s.target, item, oc.state):
                if a.kind != "normal":
                    done.append(a)
                    continue
                for bo in eng.exec_block(s.body, a.state):
                    if bo.kind in ("normal", "continue"):
                        nxt.append(Outcome("normal", bo.state))
                    elif bo.kind == "break":
                        done.append(Outcome("normal_after_break", bo.state))
                    else:
                        done.append(bo)
        live = nxt
        if len(live) + len(done) > eng.max_paths:
            raise Unsupported("path explosion while unrolling loop")
    res = []
    for oc in live:
        res.extend(eng.exec_block(s.orelse, oc.state) if s.orelse else [oc])
    for oc in done:
        res.append(Outcome("normal", oc.state) if oc.kind == "normal_after_break" else oc)
    return res


def havoc(eng, st: State, names, tag):
    """Fresh symbols (same kinds) for the named variables."""
    s = st.fork()
    for n in sorted(names):
        if n not in st.vars:
            continue  # first assigned inside the loop: stays undefined at the head
        v = st.vars[n]
        s.vars[n] = fresh_like(eng, v, f"{n}_{tag}")
    return s


def check_kinds_stable(eng, head: State, end: State, names, lineno):
    """Soundness of the loop cut: the arbitrary-iteration state gives every loop-modified variable a fresh value of the
    kind it had on entry, so a body that stores a value of a wider kind (e.g. an Optional into a variable that entered as a
    plain reference) would silently lose behaviours.  Such a loop is out of the subset until the kind is declared
    (locals(name=Kind))."""
    from .kinds import fits

    for n in sorted(names):
        hv, ev = head.vars.get(n), end.vars.get(n)
        if hv is None or ev is None or hv is ev or isinstance(hv, ConstV):
            continue
        try:
            k = hv.kind
        except Exception:  # noqa: BLE001
            continue
        if not fits(ev, k):
            raise Unsupported(f"loop at line {lineno}: variable {n!r} enters as {k!r} but the body stores a value of another "
                              f"kind; declare it with locals({n}=...)")


def fresh_like(eng, v: V, name):
    from .kinds import KList, ObjV, SetV

    if isinstance(v, TupleV) and v.is_list:
        # a list literal that the loop may grow: generalise to a symbolic list
        if not v.items:
            hint = getattr(eng, "var_kinds", {}).get(name.rsplit("_", 1)[0])
            if hint is None:
                raise Unsupported(f"loop-modified empty list {name!r} needs a kind hint (locals=)")
            return fresh(hint, name)
        ek, _ = bm._seq_of(eng, v)
        return fresh(KList(ek), name)
    hint = getattr(eng, "var_kinds", {}).get(name.rsplit("_", 1)[0])
    if hint is not None:
        return fresh(hint, name)
    if isinstance(v, (ConstV,)):
        return v
    if isinstance(v, UnionV):
        return fresh(v.kind, name)
    try:
        return fresh(v.kind, name)
    except Exception as e:  # kinds without sorts
        raise Unsupported(f"cannot havoc {name} of {type(v).__name__}: {e}")


def _cut_for(eng, s: ast.For, st: State, view: IterView):
    lc = eng.loop_contract(s)
    if lc is None:
        raise Unsupported(f"loop at line {s.lineno} has no invariant and is not statically bounded")
    where = f"loop{lc.ordinal}"
    idx_name = lc.index or f"_i{lc.ordinal}"
    n = view.length
    mods = stored_names(s.body) | stored_names([ast.Assign(targets=[s.target], value=ast.Constant(0), lineno=s.lineno)])
    mods |= set(lc.extra_modifies)
    # generalise literal lists before the loop so kinds are stable
    st = generalise(eng, st, mods)
    # `<name>_at_entry`: the value a loop-modified variable had when the loop was reached (ghost, for invariants that
    # relate the accumulated state to the state before the loop, e.g. `_yield == _yield_at_entry + Seg(i)`)
    entry = {f"{m}_at_entry": st.vars[m] for m in mods if m in st.vars}
    ghost0 = {**entry, idx_name: IntV(0), "_n": IntV(n)}
    # 1. init
    for k, inv in enumerate(lc.invariants):
        goal = eng.eval_contract_expr(inv, st, ghost0, where=f"inv{k}")
        eng.oblige("inv-init", f"{where}.{k}", st, goal, s.lineno)
    outs = []
    # 2. arbitrary iteration
    i = z3.FreshConst(z3.IntSort(), idx_name)
    sh = havoc(eng, st, mods, "h")
    sh = sh.assume(z3.And(i >= 0, i < n))
    if view.seq is not None:
        # the current item is a member of the sequence being iterated (a fact of the theory of sequences
        # that the solvers do not derive from nth by themselves)
        sh = sh.assume(z3.Contains(view.seq, z3.Unit(view.seq[i])))
    gh = {**entry, idx_name: IntV(i), "_n": IntV(n)}
    for inv in lc.invariants:
        sh = sh.assume(eng.eval_contract_expr(inv, sh, gh, where="assume"))
    for hk, hint in enumerate(lc.hints):
        # a hint is an intermediate lemma at the loop head: proved from the invariants (obligation), then assumed
        hf = eng.eval_contract_expr(hint, sh, gh, where="hint")
        eng.oblige("hint", f"{where}.{hk}", sh, hf, s.lineno)
        sh = sh.assume(hf)
    sh.ghost = {**sh.ghost, "_loopidx_" + idx_name: i}
    for a in eng.assign(s.target, view.item(i), sh):
        if a.kind != "normal":
            outs.append(a)
            continue
        for bo in eng.exec_block(s.body, a.state):
            if bo.kind in ("normal", "continue"):
                check_kinds_stable(eng, sh, bo.state, mods, s.lineno)
                g2 = {**entry, idx_name: IntV(i + 1), "_n": IntV(n)}
                for k, inv in enumerate(lc.invariants):
                    goal = eng.eval_contract_expr(inv, bo.state, g2, where=f"inv{k}")
                    eng.oblige("inv-keep", f"{where}.{k}", bo.state, goal, s.lineno)
            elif bo.kind == "break":
                sb = bo.state.fork()
                sb.vars["_broke_" + idx_name] = IntV(i)
                outs.append(Outcome("normal", _drop_target(sb, s)))
            else:
                outs.append(bo)
    # 3. exit without break
    se = havoc(eng, st, mods, "x")
    ge = {**entry, idx_name: IntV(n), "_n": IntV(n)}
    for inv in lc.invariants:
        se = se.assume(eng.eval_contract_expr(inv, se, ge, where="assume"))
    for hint in lc.exit_hints:
        se = se.assume(eng.eval_contract_expr(hint, se, ge, where="hint"))
    se = se.assume(n >= 0)
    if s.orelse:
        outs.extend(eng.exec_block(s.orelse, se))
    else:
        outs.append(Outcome("normal", se))
    return outs


def _drop_target(st, s):
    return st


def generalise(eng, st, names):
    """Turn literal lists that the loop mutates into symbolic lists with equal content."""
    from .kinds import KList

    s2 = st
    for n in names:
        v = st.vars.get(n)
        if isinstance(v, TupleV) and v.is_list:
            hint = getattr(eng, "var_kinds", {}).get(n)
            if v.items:
                ek, seq = bm._seq_of(eng, v)
                if hint is not None and isinstance(hint, KList):
                    ek, seq = hint.elem, box(v, hint)
                s2 = s2.bind(n, ListV(ek, seq))
            else:
                if hint is None or not isinstance(hint, KList):
                    raise Unsupported(f"loop-modified empty list {n!r} needs a kind hint (locals=)")
                s2 = s2.bind(n, ListV(hint.elem, z3.Empty(hint.sort())))
        elif isinstance(v, bm.LitDict) and not v.items:
            hint = getattr(eng, "var_kinds", {}).get(n)
            from .kinds import KDict

            if hint is None or not isinstance(hint, KDict):
                raise Unsupported(f"loop-modified empty dict {n!r} needs a kind hint (locals=)")
            s2 = s2.bind(n, DictV(hint.key, hint.val, z3.Empty(z3.SeqSort(hint.key.sort())),
                                  z3.K(hint.key.sort(), box_default(hint.val))))
    return s2


def box_default(kind):
    return z3.FreshConst(kind.sort(), "dflt")


def exec_while(eng, s: ast.While, st: State):
    lc = eng.loop_contract(s)
    if lc is None:
        raise Unsupported(f"while loop at line {s.lineno} has no invariant")
    where = f"loop{lc.ordinal}"
    mods = stored_names(s.body) | set(lc.extra_modifies)
    st = generalise(eng, st, mods)
    for k, inv in enumerate(lc.invariants):
        eng.oblige("inv-init", f"{where}.{k}", st, eng.eval_contract_expr(inv, st, {}, where=f"inv{k}"), s.lineno)
    outs = []
    sh = havoc(eng, st, mods, "h")
    for inv in lc.invariants:
        sh = sh.assume(eng.eval_contract_expr(inv, sh, {}, where="assume"))
    for hk, hint in enumerate(lc.hints):
        # a hint is an intermediate lemma at the loop head: proved from the invariants (obligation), then assumed
        hf = eng.eval_contract_expr(hint, sh, {}, where="hint")
        eng.oblige("hint", f"{where}.{hk}", sh, hf, s.lineno)
        sh = sh.assume(hf)
    dec0 = None
    if lc.decreases is not None:
        dec0 = eng.eval_contract_term(lc.decreases, sh, {})
    for s1, c in eng.eval(s.test, sh):
        if isinstance(c, RaiseV):
            outs.append(Outcome("raise", s1, c))
            continue
        t = _simp(eng.truthy(c))
        sa = s1.assume(t)
        if not z3.is_false(t) and eng.feasible(sa):
            for bo in eng.exec_block(s.body, sa):
                if bo.kind in ("normal", "continue"):
                    check_kinds_stable(eng, sh, bo.state, mods, s.lineno)
                    for k, inv in enumerate(lc.invariants):
                        eng.oblige("inv-keep", f"{where}.{k}", bo.state,
                                   eng.eval_contract_expr(inv, bo.state, {}, where=f"inv{k}"), s.lineno)
                    if dec0 is not None:
                        dec1 = eng.eval_contract_term(lc.decreases, bo.state, {})
                        eng.oblige("decreases", where, bo.state, z3.And(dec0.t >= 0, dec1.t < dec0.t), s.lineno)
                elif bo.kind == "break":
                    outs.append(Outcome("normal", bo.state))
                else:
                    outs.append(bo)
        sb = s1.assume(_simp(z3.Not(t)))
        if not z3.is_true(t) and eng.feasible(sb):
            if s.orelse:
                outs.extend(eng.exec_block(s.orelse, sb))
            else:
                outs.append(Outcome("normal", sb))
    return outs
