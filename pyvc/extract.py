"""Mechanical extraction of real function ASTs from /repo (re-done on every run).

Dropped by extraction: comments, docstrings (expression statements that are constants are
no-ops), type annotations (ignored), and the decorators @staticmethod, @lru_cache,
@dataclass (treated as identity).  Nothing else is dropped.
"""
from __future__ import annotations

import ast
import hashlib
import importlib
import importlib.util
import os

REPO = os.environ.get("VERIF_REPO", "/repo")

IDENTITY_DECORATORS = {"staticmethod", "lru_cache", "dataclass", "classmethod", "property"}

_cache: dict = {}


def module_path(modname: str) -> str:
    p = os.path.join(REPO, *modname.split("."))
    if os.path.isdir(p):
        return os.path.join(p, "__init__.py")
    return p + ".py"


def module_ast(modname: str):
    path = module_path(modname)
    key = (path, os.path.getmtime(path))
    if key not in _cache:
        with open(path, encoding="utf-8") as f:
            src = f.read()
        _cache[key] = (ast.parse(src, filename=path), src)
    return _cache[key]


class Extracted:
    def __init__(self, modname, qualname, node, src, path):
        self.modname, self.qualname, self.node, self.path = modname, qualname, node, path
        seg = ast.get_source_segment(src, node) or ""
        self.sha = hashlib.sha256(seg.encode()).hexdigest()[:16]
        self.lineno = node.lineno
        self.decorators = [ast.unparse(d) for d in node.decorator_list]
        self.loop_ordinals = {}
        k = 0
        for n in ast.walk(node):  # ast.walk is BFS; we want source order
            pass
        loops = [n for n in ast.walk(node) if isinstance(n, (ast.For, ast.While))]
        loops.sort(key=lambda n: (n.lineno, n.col_offset))
        for k, n in enumerate(loops):
            self.loop_ordinals[id(n)] = k
        self.loops = loops


def find(modname: str, qualname: str) -> Extracted | None:
    """qualname: 'f', 'Class.method', 'outer.<locals>.inner'."""
    tree, src = module_ast(modname)
    parts = [p for p in qualname.split(".") if p != "<locals>"]
    scope = tree.body
    node = None
    for p in parts:
        node = None
        for n in scope:
            if isinstance(n, (ast.FunctionDef, ast.ClassDef, ast.AsyncFunctionDef)) and n.name == p:
                node = n
                break
        if node is None:
            # nested defs may sit inside if/try blocks
            for n in ast.walk(ast.Module(body=list(scope), type_ignores=[])):
                if isinstance(n, (ast.FunctionDef, ast.ClassDef)) and n.name == p:
                    node = n
                    break
        if node is None:
            return None
        scope = node.body
    if not isinstance(node, ast.FunctionDef):
        return None
    return Extracted(modname, qualname, node, src, module_path(modname))


def import_module(modname: str):
    """Import the real module from /repo (PYTHONPATH must put /repo first)."""
    m = importlib.import_module(modname)
    f = getattr(m, "__file__", "") or ""
    if not os.path.realpath(f).startswith(os.path.realpath(REPO)):
        raise RuntimeError(f"{modname} imported from {f}, expected under {REPO}")
    return m
