"""Property check driver:  python -m pyvc.vcheck C12 --tier quick|thorough   /  --replay FILE

Exit codes: 0 property held on everything explored (KNOWN-FINDING lines allowed);
1 violation (VIOLATION property=<id> replay=<path> [no-failing-input-found]);
3 checker error (vacuity, solver disagreement, traceback).  UNDECIDED lines never change
the exit code by themselves: the bounded stand-ins decide.
"""
from __future__ import annotations

import argparse
import glob
import hashlib
import json
import os
import sys
import time
import traceback

VERIF = os.path.dirname(os.path.dirname(os.path.abspath(__file__)))
REPO = os.environ.get("VERIF_REPO", "/repo")
OUT = os.environ.get("VERIF_OUT", VERIF)  # evidence/ and replays/ go here (scratch runs against mutants use another dir)
if os.environ.get("VERIF_DEV_NO_E2E") and "VERIF_OUT" not in os.environ:
    OUT = "/tmp/verif-dev-out"        # a development run without the bounded e2e part never rewrites the real evidence
sys.path.insert(0, REPO)
sys.path.insert(0, VERIF)

from pyvc import contracts, extract, native, solve  # noqa: E402
from pyvc.engine import ContractMismatch  # noqa: E402
from pyvc.kinds import Unsupported  # noqa: E402

TIMEOUT_MS = {"quick": 20000, "thorough": 90000}
NATIVE_BUDGET = {"quick": 1500, "thorough": 20000}


def load_registry():
    reg = contracts.Registry()
    for sc in sorted(glob.glob(os.path.join(VERIF, "contracts", "*.py"))):
        if os.path.basename(sc).startswith("native_"):
            continue
        reg.load_sidecar(sc)
    # native helper modules (builders, regex tables) contribute to the native env
    for nm in sorted(glob.glob(os.path.join(VERIF, "contracts", "native_*.py"))):
        ns: dict = {}
        with open(nm, encoding="utf-8") as f:
            exec(compile(f.read(), nm, "exec"), ns)  # noqa: S102
        for k, v in ns.items():
            if k.startswith("__"):
                continue
            if k in ("EXHAUSTIVE", "BUILDERS", "TABLES") and isinstance(v, dict):
                reg.native_env.setdefault(k, {}).update(v)  # merged across helper modules
            else:
                reg.native_env[k] = v
        for hk, hv in ns.get("HOOKS", {}).items():
            reg.hooks[hk] = hv
    reg.link()
    return reg


def load_known():
    p = os.path.join(VERIF, "known_findings.json")
    if not os.path.exists(p):
        return []
    with open(p, encoding="utf-8") as f:
        return json.load(f)["findings"]


def match_known(known, prop, key):
    for k in known:
        if k.get("status") == "open" and prop in k["properties"] and key.startswith(k["key"]):
            return k
    return None


def formula_hash(ob):
    """Hash of the obligation's SMT text with solver-generated name suffixes (x!123) renumbered in
    order of first appearance: equal on two runs iff the verification condition is the same."""
    import re

    text = solve.to_smt2(ob)
    seen: dict = {}

    def ren(m):
        return "!" + str(seen.setdefault(m.group(0), len(seen)))

    return hashlib.sha256(re.sub(r"(?:!|\?x|\$x|a!)\d+", ren, text).encode()).hexdigest()[:16]


def load_baseline(prop):
    """Obligations discharged on the unchanged tree (committed; written only by --update-baseline)."""
    p = os.path.join(VERIF, "props", "baseline", f"{prop}.json")
    if not os.path.exists(p):
        return {}
    with open(p, encoding="utf-8") as f:
        return json.load(f)


def write_replay(prop, name, payload):
    d = os.path.join(OUT, "replays")
    os.makedirs(d, exist_ok=True)
    safe = "".join(ch if ch.isalnum() or ch in "._-" else "_" for ch in name)[:120]
    path = os.path.join(d, f"{prop}-{safe}.json")
    with open(path, "w", encoding="utf-8") as f:
        json.dump(payload, f, indent=1, default=repr)
    return os.path.relpath(path, OUT)


def deductive(prop, tier, seed, reg, out):
    """Run the proof obligations of every kernel tagged with prop."""
    kernels = [c for c in reg.contracts.values() if prop in c.properties]
    lemmas = [l for l in reg.lemmas.values() if prop in l.properties]
    obs, fstatus, functions = [], {}, []
    trusted = set()
    for c in kernels:
        if c.trusted:
            fstatus[c.fid] = ("trusted", c.trusted_reason)
            trusted.add(f"contract of {c.fid} assumed: {c.trusted_reason}")
            continue
        try:
            mod = extract.import_module(c.module)
            v = contracts.Verifier(c.module, vars(mod), reg)
            t0 = time.time()
            ex = v.verify(c)
            if not v.obligations:
                raise RuntimeError(f"{c.fid}: zero obligations generated")
            fstatus[c.fid] = ("ok", "")
            functions.append({"function": c.fid, "sha": ex.sha, "line": ex.lineno,
                              "obligations": len(v.obligations), "paths": v.stats["paths"],
                              "gen_s": round(time.time() - t0, 2)})
            obs.extend(v.obligations)
            trusted |= v.trusted_used
        except Unsupported as e:
            fstatus[c.fid] = ("out-of-subset", str(e))
        except ContractMismatch as e:
            fstatus[c.fid] = ("contract-does-not-apply", str(e))
    for lem in lemmas:
        mod = extract.import_module("pyxform.utils")
        v = contracts.Verifier("lemma", vars(mod), reg)
        try:
            v.prove_lemma(lem)
        except (Unsupported, ContractMismatch) as e:
            fstatus[f"lemma.{lem.name}"] = ("contract-does-not-apply", str(e))
            continue
        obs.extend(v.obligations)
        functions.append({"function": f"lemma.{lem.name}", "obligations": len(v.obligations)})
        trusted |= v.trusted_used
    t0 = time.time()
    prefer = {oid: "cvc5" for oid, b in load_baseline(prop).items() if str(b.get("by", "")).startswith("cvc5")}
    res = solve.solve_all(obs, timeout_ms=TIMEOUT_MS[tier], prefer=prefer)
    out["solve_s"] = round(time.time() - t0, 2)
    out["functions"] = functions
    out["fstatus"] = fstatus
    out["trusted"] = sorted(trusted)
    return kernels, obs, res


def run_property(prop, tier, seed, update_baseline=False):
    t_start = time.time()
    reg = load_registry()
    known = load_known()
    out: dict = {}
    violations, known_hits, undecided, errors = [], [], [], []
    kernels, obs, res = deductive(prop, tier, seed, reg, out)
    baseline = load_baseline(prop)
    env = native.base_env(reg)
    builders = reg.native_env.get("BUILDERS", {})
    by_solver: dict = {}
    discharged = 0
    samples = []
    failed_by_fn: dict = {}
    guards_inconclusive: list = []
    solver_time = 0.0
    for ob in obs:
        r = res[ob.oid]
        solver_time += r.get("time", 0)
        if len(samples) < 6:
            samples.append({"obligation": ob.oid, "kind": ob.kind, "verdict": r["verdict"], "solver": r["solver"],
                            "time_s": round(r.get("time", 0), 3), "line": ob.line})
        if ob.expect == "sat":
            if r["verdict"] == "sat":
                discharged += 1
                by_solver[r["solver"]] = by_solver.get(r["solver"], 0) + 1
            elif r["verdict"] == "unsat":
                errors.append(f"vacuity: {ob.oid} is unsat (contradictory precondition / unreachable)")
            else:
                # the guard only has to rule out a contradictory precondition; 'unknown' (quantified
                # preconditions) is recorded, not counted as an obligation
                guards_inconclusive.append(ob.oid)
            continue
        if r["verdict"] == "unsat":
            discharged += 1
            by_solver[r["solver"]] = by_solver.get(r["solver"], 0) + 1
            continue
        if r["verdict"] == "error":
            errors.append(f"solver error on {ob.oid}: {r['reason']}")
            continue
        failed_by_fn.setdefault(ob.oid.split("#")[0], []).append((ob, r))

    # ---- failed obligations: replay countermodel, then bounded native search
    ncache = {}

    def nc_for(fid):
        if fid not in ncache:
            c = reg.contracts.get(fid)
            ncache[fid] = native.NativeContract(c, reg, env) if c is not None else None
        return ncache[fid]

    for fid, items in failed_by_fn.items():
        nc = nc_for(fid)
        if nc is not None and nc.c.no_native:
            nc = None
        witness = None
        for ob, r in items:
            if r["verdict"] == "sat" and r.get("model") and nc is not None:
                try:
                    args = native.model_to_args(nc.c, r["model"], builders)
                    w = nc.check(args)
                    if w is not None:
                        witness = {"args": args, **w, "from": f"countermodel of {ob.oid} ({r['solver']})"}
                        break
                except native.Skip:
                    pass
                except Exception as e:  # noqa: BLE001
                    r["replay_error"] = f"{type(e).__name__}: {e}"
        if witness is None and nc is not None:
            try:
                witness, _ = native.search(nc, seed, NATIVE_BUDGET[tier] * 4, builders,
                                           exhaustive=reg.native_env.get("EXHAUSTIVE", {}).get(fid))
                if witness:
                    witness["from"] = "bounded search after failed obligation"
            except Exception as e:  # noqa: BLE001
                errors.append(f"native search crashed for {fid}: {type(e).__name__}: {e}")
        for ob, r in items:
            # 'sat' is a refutation.  'unknown' becomes a violation only when this very obligation was
            # discharged on the unchanged tree (props/baseline) and its verification condition is now a
            # different formula (the code it was generated from changed): "an obligation that passed on
            # the unchanged tree and now fails".  Same formula + unknown = solver flakiness = undecided.
            base = baseline.get(ob.oid)
            regressed = (r["verdict"] != "sat" and base is not None and base.get("discharged")
                         and base.get("vc") != formula_hash(ob))
            if regressed:
                r["reason"] = (f"discharged on the unchanged tree (VC {base.get('vc')}), not discharged now: "
                               f"{r.get('reason')}")
            hard = r["verdict"] == "sat" or regressed
            key = ob.oid
            kf = match_known(known, prop, key)
            if kf is not None:
                known_hits.append((kf, key))
                continue
            if witness is None and not hard:
                undecided.append((ob, r))
                continue
            payload = {"property": prop, "obligation": ob.oid, "kind": ob.kind, "function": fid,
                       "line": ob.line, "solver_verdict": r["verdict"], "solver": r["solver"],
                       "solver_reason": r.get("reason"), "solver_model": r.get("model_text"),
                       "witness": witness, "info": ob.info}
            path = write_replay(prop, ob.oid, payload)
            violations.append((path, witness is not None, ob.oid))
            break  # one violation line per function is enough

    # ---- bounded stand-in 1: native contract search on every kernel (incl. out-of-subset ones)
    bounded = {"functions": {}, "evaluations": 0}
    for c in kernels:
        if not native.searchable(c, reg.native_env.get("EXHAUSTIVE", {}).get(c.fid)):
            bounded["functions"][c.fid] = {"skipped": c.no_native or "no generator for record/opaque parameters"}
            continue
        nc = nc_for(c.fid)
        try:
            fn_ok = nc.real_function()
        except Exception as e:  # noqa: BLE001
            undecided.append((None, {"reason": f"{c.fid}: real function not importable: {e}"}))
            continue
        if getattr(c, "no_native", False):
            continue
        try:
            w, st = native.search(nc, seed, NATIVE_BUDGET[tier], builders,
                                  exhaustive=reg.native_env.get("EXHAUSTIVE", {}).get(c.fid))
        except NotImplementedError as e:
            bounded["functions"][c.fid] = {"skipped": str(e)}
            continue
        bounded["functions"][c.fid] = {"evaluations": st["evaluations"], "distinct": len(st["distinct"]),
                                       "skipped_by_precondition": st["skipped"]}
        bounded["evaluations"] += st["evaluations"]
        if w is not None:
            key = f"{c.fid}#native:{w.get('clause', '')[:80]}"
            kf = match_known(known, prop, key) or match_known(known, prop, f"{c.fid}#")
            if kf is not None:
                known_hits.append((kf, key))
            elif not any(v[2].startswith(c.fid + "#") for v in violations):
                path = write_replay(prop, f"{c.fid}-native", {"property": prop, "function": c.fid, "witness": w,
                                                               "from": "bounded native contract search"})
                violations.append((path, True, key))

    # ---- bounded stand-in 2: end-to-end executable contract of the property on a corpus
    e2e = None
    try:
        from bounded import e2e as e2e_mod

        if hasattr(e2e_mod, "run") and not os.environ.get("VERIF_DEV_NO_E2E"):
            e2e = e2e_mod.run(prop, tier, seed)
    except ImportError:
        e2e = None
    except Exception as e:  # noqa: BLE001
        errors.append(f"e2e harness crashed: {type(e).__name__}: {e}\n{traceback.format_exc()[-1500:]}")
    if e2e:
        for v in e2e.get("violations", []):
            kf = match_known(known, prop, v["key"])
            if kf is not None:
                known_hits.append((kf, v["key"]))
            else:
                path = write_replay(prop, "e2e-" + v["key"], {"property": prop, "from": "e2e bounded contract", **v})
                violations.append((path, True, v["key"]))

    # ---- bounded stand-in 3: the proved contracts evaluated on the real objects of real conversions (cross-check of the
    # prover's model of Python/pyxform against CPython; a failure carries the form that produced the call)
    mon = None
    try:
        if not os.environ.get("VERIF_DEV_NO_E2E"):
            from . import monitor as monitor_mod

            mon = monitor_mod.run(tier, seed, budget_s=45 if tier == "quick" else 240, prop=prop, reg=reg)
    except Exception as e:  # noqa: BLE001
        errors.append(f"runtime contract monitor crashed: {type(e).__name__}: {e}\n{traceback.format_exc()[-1500:]}")
    if mon:
        seen_m = set()
        for f in mon["failures"]:
            key = f"monitor:{f['function']}#{hashlib.sha1(f['clause'].encode()).hexdigest()[:8]}"
            if key in seen_m:
                continue
            seen_m.add(key)
            kf = match_known(known, prop, key)
            if kf is not None:
                known_hits.append((kf, key))
                continue
            path = write_replay(prop, key.replace(":", "-"), {"property": prop, "from": "runtime contract monitor (real call)",
                                                              "key": key, **f})
            violations.append((path, True, key))
            # a failed obligation of the same function that had no input so far: the monitored call is a real input on
            # which this function breaks its contract -> the obligation's replay file carries it
            for vi, (vpath, has_input, vkey) in enumerate(violations):
                if not has_input and vkey.startswith(f["function"] + "#"):
                    try:
                        full = os.path.join(OUT, vpath)
                        with open(full, encoding="utf-8") as fh:
                            pl = json.load(fh)
                        pl.update({"failing_call_found_by": "runtime contract monitor", "monitor_form_md": f.get("monitor_form_md"),
                                   "convert_kwargs": f.get("convert_kwargs"), "form": f.get("form"),
                                   "clause": f.get("clause"), "observed": f.get("observed"), "args": f.get("args")})
                        with open(full, "w", encoding="utf-8") as fh:
                            json.dump(pl, fh, indent=1, default=repr)
                        violations[vi] = (vpath, True, vkey)
                    except OSError:
                        pass
        mon = {"forms_converted": mon["forms"], "wall_s": mon["wall_s"], "failures": len(mon["failures"]),
               "adapter_errors": mon.get("adapter_errors", []),
               "functions": mon["stats"],
               "note": "bounded: requires/ensures of the deductively verified contracts evaluated natively on every call the "
                       "corpus conversions make to the real methods; never counted in 'discharged'"}

    # ---- table obligations: finite ground facts about the real tables / compiled regexes, decided by evaluation
    tables = None
    tfuncs = reg.native_env.get("TABLES", {}).get(prop, [])
    if tfuncs:
        tables = {"facts": 0, "hold": 0, "functions": [f.__name__ for f in tfuncs], "samples": []}
        for f in tfuncs:
            try:
                facts = f()
            except Exception as e:  # noqa: BLE001
                errors.append(f"table obligation {f.__name__} crashed: {type(e).__name__}: {e}")
                continue
            if not facts:
                errors.append(f"table obligation {f.__name__} produced no facts")
            for fid_, ok, detail in facts:
                tables["facts"] += 1
                oid = f"table.{f.__name__}#{fid_}"
                if ok:
                    tables["hold"] += 1
                    if len(tables["samples"]) < 3:
                        tables["samples"].append(oid)
                    continue
                kf = match_known(known, prop, oid)
                if kf is not None:
                    known_hits.append((kf, oid))
                    continue
                path = write_replay(prop, oid, {"property": prop, "obligation": oid, "kind": "table",
                                                "verifier_output": f"ground fact evaluated on the real table: False ({detail})",
                                                "witness": {"fact": fid_, "observed": detail}})
                violations.append((path, True, oid))

    # ---- frame / effect obligations (static effect checker pyvc/effects.py): C14 (purity) and C20 (advisory-only warnings)
    eff = None
    EFFECT_KINDS = {"C14": ("E1", "E1x", "E2", "E3", "E3x"), "C20": ("E5",)}
    if prop in EFFECT_KINDS:
        from pyvc import effects

        t0 = time.time()
        er = effects.analyse(REPO)
        eobs = [o for o in er["obligations"] if o["kind"] in EFFECT_KINDS[prop]]
        eff = {"functions_analysed": er["functions"], "modules": er["modules"], "kinds": list(EFFECT_KINDS[prop]),
               "obligations": sum(1 for o in eobs if o["status"] != "justified"),
               "discharged": sum(1 for o in eobs if o["status"] == "discharged"),
               "justified_by_annotation": [
                   {"oid": o["oid"], "reason": o.get("reason"), "sites": [x["stmt"][:160] for x in o.get("sites", [])]}
                   for o in eobs if o["status"] == "justified"],
               "wall_s": round(time.time() - t0, 2)}
        if not eobs:
            errors.append("effect checker generated zero obligations")
        for o in eobs:
            if o["status"] != "failed":
                continue
            kf = match_known(known, prop, o["oid"])
            if kf is not None:
                known_hits.append((kf, o["oid"]))
                continue
            if "@" not in o["oid"].split("#")[-1] and any(
                    x["oid"].startswith(o["oid"] + "@") and x["status"] == "failed" for x in eobs):
                continue  # the function-level obligation fails because of a site obligation reported separately
            path = write_replay(prop, o["oid"], {"property": prop, "obligation": o["oid"], "kind": "frame-" + o["kind"],
                                                 "function": o["function"], "file": o.get("file"), "sites": o.get("sites"),
                                                 "verifier_output": "static effect checker: frame obligation not discharged",
                                                 "witness": None})
            violations.append((path, False, o["oid"]))

    # ---- report
    for st_name in ("out-of-subset", "contract-does-not-apply"):
        for fid, (s, msg) in out["fstatus"].items():
            if s == st_name:
                print(f"UNDECIDED property={prop} function={fid} reason={s}: {msg}")
    for ob, r in undecided:
        print(f"UNDECIDED property={prop} obligation={ob.oid if ob else '-'} reason={r.get('reason')}")
    seen = set()
    for kf, key in known_hits:
        if kf["id"] in seen:
            continue
        seen.add(kf["id"])
        print(f"KNOWN-FINDING: property={prop} {kf['id']}: {kf['what']}")
    for path, has_input, key in violations:
        tail = "" if has_input else " no-failing-input-found"
        print(f"VIOLATION property={prop} replay={path}{tail}")
    for e in errors:
        print(f"CHECKER-ERROR property={prop} {e}")

    if update_baseline:
        bl = {ob.oid: {"discharged": res[ob.oid]["verdict"] == ob.expect, "vc": formula_hash(ob),
                       "verdict": res[ob.oid]["verdict"], "by": res[ob.oid].get("solver", "")} for ob in obs}
        os.makedirs(os.path.join(VERIF, "props", "baseline"), exist_ok=True)
        with open(os.path.join(VERIF, "props", "baseline", f"{prop}.json"), "w", encoding="utf-8") as f:
            json.dump(bl, f, indent=0, sort_keys=True)
        print(f"BASELINE property={prop} written: {sum(1 for v in bl.values() if v['discharged'])}/{len(bl)} discharged")

    n_ob = len(obs) - len(guards_inconclusive)
    if tables is not None:
        n_ob += tables["facts"]
        discharged += tables["hold"]
        by_solver["evaluation (finite table facts, exhaustive)"] = tables["hold"]
    if eff is not None:
        n_ob += eff["obligations"]
        discharged += eff["discharged"]
        by_solver["effects (static frame inference)"] = eff["discharged"]
    claimed = "proof"
    try:
        with open(os.path.join(VERIF, "props", "claims.json"), encoding="utf-8") as f:
            claimed = json.load(f).get(prop, {}).get("category", "proof")
    except OSError:
        pass
    level = claimed if (claimed != "proof" or (n_ob and discharged == n_ob and not undecided)) else "other"
    cov = {
        "obligations": n_ob,
        "discharged": discharged,
        "checker_cmd": f"./check {prop} --tier {tier}",
        "trusted_base": out["trusted"],
        "functions_under_contract": out["functions"],
        "function_status": {k: list(v) for k, v in out["fstatus"].items()},
        "discharged_by_solver": by_solver,
        "solver_time_s": round(solver_time, 2),
        "solve_wall_s": out["solve_s"],
        "undecided": [o.oid for o, _ in undecided if o is not None],
        "vacuity_guards_inconclusive": guards_inconclusive,
        "known_findings_matched": sorted(seen),
        "bounded_native_contract_search": bounded,
        "bounded_e2e": {k: v for k, v in (e2e or {}).items() if k != "violations"},
        "runtime_contract_monitor": mon,
        "frame_obligations": eff,
        "table_obligations": tables,
        "samples": samples or list((e2e or {}).get("samples", []))
                   or [{"bounded_contract": k, **v} for k, v in list(bounded["functions"].items())[:3] if isinstance(v, dict)],
        # generic exploration-style keys (bounded parts): native contract evaluations + e2e conversions
        "evaluations": bounded["evaluations"] + (e2e or {}).get("evaluations", 0)
                       + sum(v.get("evaluated", 0) for v in ((mon or {}).get("functions") or {}).values()),
        "distinct_nontrivial": sum(v.get("distinct", 0) for v in bounded["functions"].values() if isinstance(v, dict))
                               + (e2e or {}).get("distinct_nontrivial", 0),
        "rule": "bounded parts only: (a) native contract search = small-scope exhaustive generators (contracts/native_*.py) plus "
                "seeded random inputs, distinct = distinct argument tuples that satisfy the precondition; (b) e2e = distinct form "
                "texts converted and judged by the property's independent oracle (bounded/oracles); (c) runtime contract monitor = "
                "calls of the contracted real methods made while converting the corpus, each judged by the proved contract",
        "explanation": (
            "Deductive part: obligations generated by pyvc from the real function bodies in /repo and the "
            "sidecar contracts, discharged by z3/cvc5. Bounded parts (native contract search, e2e corpus) are "
            "reported separately and never counted in 'discharged'."),
    }
    assumptions = list(out["trusted"]) + ASSUMPTIONS
    if eff is not None:
        assumptions += EFFECT_ASSUMPTIONS + [f"annotation: {j['oid']}: {j['reason']}" for j in eff["justified_by_annotation"]]
    ev = {"property_id": prop, "tier": tier, "seed": seed, "level": level, "coverage": cov,
          "assumptions": assumptions, "wall_s": round(time.time() - t_start, 2),
          "violations": len(violations)}
    os.makedirs(os.path.join(OUT, "evidence"), exist_ok=True)
    with open(os.path.join(OUT, "evidence", f"{prop}.json"), "w", encoding="utf-8") as f:
        json.dump(ev, f, indent=1, default=repr)
    print(f"SUMMARY property={prop} tier={tier} obligations={n_ob} discharged={discharged} "
          f"undecided={len(undecided)} bounded_evals={bounded['evaluations']} "
          f"e2e_evals={(e2e or {}).get('evaluations', 0)} violations={len(violations)} "
          f"known={len(seen)} wall={ev['wall_s']}s")
    if errors:
        return 3
    return 1 if violations else 0


ASSUMPTIONS = [
    "pyvc front end and builtin models (pyvc/builtins_model.py) encode CPython semantics for the subset "
    "(ints mathematical = exact for Python; strings as code-point sequences; dict insertion order)",
    "z3 5.1 and cvc5 1.0.3 are sound; 'unsat' from either discharges an obligation",
    "extraction drops only comments, docstrings, annotations and identity decorators (pyvc/extract.py)",
    "no aliasing between mutable locals in verified functions (checked syntactically; violation => out-of-subset)",
]


EFFECT_ASSUMPTIONS = [
    "effect checker A-REFL: no reflective writes (computed setattr/getattr names, exec, __dict__) beyond the modelled ones",
    "effect checker A-HEAP: heap aliasing followed by attribute name only; a parameter stored in a field and mutated later "
    "through that field is not connected back to the caller",
    "effect checker A-CALL: calls resolved by name; opaque callables (third party, partial) assumed not to write package state",
    "effect checker A-SETTYPE: a value is known to be a set only through literals, constructors, set operators, annotations, "
    "package return values and call-site arguments",
    "effect checker A-LRU: identity-keyed lru_cache entries (survey objects) keep the key alive, so a live entry cannot be hit "
    "by a different survey",
    "schedules (threads) and PYTHONHASHSEED are only explored by the bounded differential oracle",
]


def replay(path):
    with open(os.path.join(VERIF, path) if not os.path.isabs(path) else path, encoding="utf-8") as f:
        p = json.load(f)
    print(json.dumps({k: p.get(k) for k in ("property", "obligation", "function", "from", "key", "what")}, indent=1))
    w = p.get("witness")
    if p.get("monitor_form_md"):
        from . import monitor as monitor_mod

        return monitor_mod.replay(p)
    if p.get("form_md"):
        from bounded import e2e as e2e_mod

        return e2e_mod.replay(p)
    if w and p.get("function"):
        reg = load_registry()
        c = reg.contracts.get(p["function"])
        nc = native.NativeContract(c, reg)
        print("witness args:", w.get("args"))
        print("recorded:", {k: v for k, v in w.items() if k != "args"})
    return 0


def main():
    ap = argparse.ArgumentParser()
    ap.add_argument("prop", nargs="?")
    ap.add_argument("--tier", default=os.environ.get("VERIF_TIER", "quick"))
    ap.add_argument("--replay")
    ap.add_argument("--update-baseline", action="store_true",
                    help="development only: record which obligations discharge on the unchanged tree")
    a = ap.parse_args()
    if a.replay:
        sys.exit(replay(a.replay))
    seed = int(os.environ.get("VERIF_SEED", "0"))
    try:
        rc = run_property(a.prop, a.tier, seed, a.update_baseline)
    except Exception:  # noqa: BLE001
        traceback.print_exc()
        print(f"CHECKER-ERROR property={a.prop} traceback")
        rc = 3
    sys.exit(rc)


if __name__ == "__main__":
    main()
